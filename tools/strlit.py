#!/usr/bin/env python3
"""Preprocessor for hand-written model files: replaces «text» by the Coq list of its code points.
   usage: strlit.py file.v.in  ->  writes file.v (only when changed)"""
import re
import sys


def conv(m):
    return "[" + ";".join(str(ord(c)) for c in m.group(1)) + "]"


for path in sys.argv[1:]:
    src = open(path, encoding="utf-8").read()
    out = "(* GENERATED from %s by tools/strlit.py — edit the .in file *)\n" % path.split("/")[-1] + re.sub("«([^»]*)»", conv, src)
    dst = path[:-3]
    try:
        old = open(dst, encoding="utf-8").read()
    except FileNotFoundError:
        old = None
    if old != out:
        open(dst, "w", encoding="utf-8").write(out)
