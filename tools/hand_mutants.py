#!/usr/bin/env python3
"""Mutation self-test (DESIGN.md §11 / §14.2): one-line mutants of /repo, applied ONLY to scratch worktrees.

Each lane owns a scratch worktree of /repo and a scratch copy of /verif under /var/tmp/vmut/lane<i>
(the checks honour MAMMOTH_REPO), so /repo itself is never touched.  For every mutant:
  1. apply the textual replacement in the lane's worktree (must match exactly once);
  2. run the pinned test suite there: a mutant the tests already kill is recorded as `killed-by-tests` and dropped;
  3. run the quick check of each expected property until one reports a VIOLATION;
  4. restore the worktree.
Writes seeded/hand/RESULTS.md and seeded/hand/results.json.  Not part of any registered check.

usage: tools/hand_mutants.py [--lanes N] [--only id,id,...]
"""
import concurrent.futures
import json
import os
import re
import subprocess
import sys
import time

VERIF = os.path.dirname(os.path.dirname(os.path.abspath(__file__)))
ROOT = "/var/tmp/vmut"
PYTEST = "/venv/bin/python -m pytest -q -x -p no:cacheprovider --timeout=900 --continue-on-collection-errors --deselect tests/cli_tests.py"

M = []


def mut(mid, path, old, new, props, note=""):
    M.append({"id": mid, "file": path, "old": old, "new": new, "props": props, "note": note})


H = "mammoth/html/__init__.py"
mut("html-match-ignores-attributes", H, "first.tag_name in second.tag_names and first.attributes == second.attributes",
    "first.tag_name in second.tag_names", ["C04"])
mut("html-match-ignores-alternatives", H, "first.tag_name in second.tag_names and", "first.tag_name == second.tag_name and", ["C04", "C08"])
mut("html-separator-after-children", H,
    """    if node.separator:
        last.children.append(text(node.separator))
    
    for child in node.children:
        _collapsing_add(last.children, child)
        
    return True""",
    """    for child in node.children:
        _collapsing_add(last.children, child)

    if node.separator:
        last.children.append(text(node.separator))

    return True""", ["C04"])
mut("html-last-collapsible", H, "    if not node.collapsible:\n", "    if not last.collapsible:\n", ["C04", "C08"])
mut("html-collapse-mutates-input", H, "        return Element(element.tag, collapse(element.children))",
    "        element.children = collapse(element.children)\n        return element", ["C04", "C15"])
mut("strip-drops-void", H, "if len(children) == 0 and not element.is_void():", "if len(children) == 0:", ["C14"])
mut("strip-drops-force-write", H, "    def visit_force_write(self, node):\n        return [node]", "    def visit_force_write(self, node):\n        return []", ["C14", "C09"])
mut("strip-void-on-stripped-children", H, "if len(children) == 0 and not element.is_void():",
    "if len(children) == 0 and not Element(element.tag, children).is_void():", ["C14"])
mut("strip-keeps-whitespace-only-as-empty", H, "        if node.value:\n            return [node]", "        if node.value.strip():\n            return [node]", ["C14", "C01"])

W = "mammoth/writers/html.py"
mut("writer-quote-not-escaped", W, """return escape(text, {'"': "&quot;"})""", "return escape(text)", ["C02"])
mut("writer-void-with-end-tag", W, '"<{0}{1} />".format(name, attribute_string)', '"<{0}{1}></{0}>".format(name, attribute_string)', ["C02"])
mut("writer-attribute-single-quotes", W, """' {0}="{1}"'.format(key, _escape_html(attributes[key]))""", """" {0}='{1}'".format(key, _escape_html(attributes[key]))""", ["C02"])
mut("writer-text-not-escaped-gt", W, "self._fragments.append(_escape_html(text))", "self._fragments.append(_escape_html(text).replace('&gt;', '>'))", ["C02"])

O = "mammoth/options.py"
mut("options-embedded-before-custom", O, "style_map = custom_style_map + embedded_style_map", "style_map = embedded_style_map + custom_style_map", ["C03"])
mut("options-defaults-first", O, "        style_map += _default_style_map", "        style_map = _default_style_map + style_map", ["C03"])
mut("options-lines-not-trimmed", O, "    line = line.strip()\n", "    line = line.rstrip()\n", ["C06", "C03", "C07"])
mut("options-ignore-empty-default-false", O, 'options.get("ignore_empty_paragraphs", True)', 'options.get("ignore_empty_paragraphs", False)', ["C14"])
mut("options-hash-inside-line-is-comment", O, '    if line.startswith("#"):', '    if "#" in line:', ["C06", "C03"])

C = "mammoth/conversion.py"
mut("conversion-last-match-wins", C, "        for style in self._style_map:", "        for style in reversed(self._style_map):", ["C03"])
mut("match-style-id-ignored", C, "                matcher.style_id is None or\n                matcher.style_id == element.style_id",
    "                matcher.style_id is None or\n                True", ["C03"])
mut("match-numbering-level-only", C, "                matcher.numbering == element.numbering",
    "                (element.numbering is not None and matcher.numbering.level_index == element.numbering.level_index)", ["C03", "C08"])
mut("match-style-name-none-matches", C, "element.style_name is not None and (matcher.style_name.matches(element.style_name))",
    "element.style_name is None or (matcher.style_name.matches(element.style_name))", ["C03"])
mut("conversion-bold-default-b", C, 'self._find_style_for_run_property("bold", default="strong")', 'self._find_style_for_run_property("bold", default="b")', ["C11"])
mut("conversion-strike-default-del", C, 'self._find_style_for_run_property("strikethrough", default="s")', 'self._find_style_for_run_property("strikethrough", default="del")', ["C11"])
mut("conversion-italic-when-bold", C, "        if run.is_italic:\n", "        if run.is_bold:\n", ["C11"])
mut("conversion-underline-default-u", C, 'self._find_style_for_run_property("underline")', 'self._find_style_for_run_property("underline", default="u")', ["C11"])
mut("conversion-sub-sup-swapped", C, 'paths.append(html_paths.element(["sub"], fresh=False))', 'paths.append(html_paths.element(["sup"], fresh=False))', ["C11"])
mut("conversion-note-number-zero-based", C, "        note_number = len(self._note_references)\n", "        note_number = len(self._note_references) - 1\n", ["C10", "C01"])
mut("conversion-note-ref-id-without-prefix", C, """        return self._html_id("{0}-ref-{1}".format(reference_type, reference_id))""",
    """        return "{0}-ref-{1}".format(reference_type, reference_id)""", ["C10"])
mut("conversion-anchor-not-prefixed", C, """            href = "#{0}".format(self._html_id(hyperlink.anchor))""", """            href = "#{0}".format(hyperlink.anchor)""", ["C10"])
mut("conversion-bookmark-not-prefixed", C, """            {"id": self._html_id(bookmark.name)},""", """            {"id": bookmark.name},""", ["C10"])
mut("conversion-note-backlink-to-note", C, """                html.element("a", {"href": "#" + self._note_ref_html_id(note)}, [""", """                html.element("a", {"href": "#" + self._note_html_id(note)}, [""", ["C10"])
mut("conversion-shared-note-references", C, "        note_references=[],\n        comments=comments,", "        note_references=_shared_note_references,\n        comments=comments,", ["C15", "C10"],
    note="needs the module-level list below")
mut("conversion-colspan-omitted-for-2", C, "        if table_cell.colspan != 1:", "        if table_cell.colspan > 2:", ["C09"])
mut("conversion-rowspan-as-colspan", C, '            attributes["rowspan"] = str(table_cell.rowspan)', '            attributes["rowspan"] = str(table_cell.colspan)', ["C09"])
mut("conversion-th-in-body", C, "        if context.is_table_header:\n", "        if context.is_table_header or table_cell.colspan != 1:\n", ["C09"])
mut("conversion-thead-takes-all-rows", C, "            body_rows = self._visit_all(table.children[body_index:], context.copy(is_table_header=False))",
    "            body_rows = self._visit_all(table.children[body_index:], context.copy(is_table_header=True))", ["C09"])
mut("conversion-unrecognised-style-not-reported", C, '        if warn_unrecognised and getattr(element, "style_id", None) is not None:',
    '        if warn_unrecognised and getattr(element, "style_name", None) is not None:', ["C16"])
mut("conversion-image-error-swallowed", C, "            self._messages.append(results.warning(str(error)))\n            return []", "            return []", ["C16", "C18"])
mut("conversion-force-write-always", C, "            if self._ignore_empty_paragraphs:\n                return content", "            if False:\n                return content", ["C14"])
mut("conversion-checkbox-checked-inverted", C, "        if checkbox.checked:\n", "        if not checkbox.checked:\n", ["C13", "C05"])
mut("conversion-comment-count-zero-based", C, "            count = len(self._referenced_comments) + 1", "            count = len(self._referenced_comments)", ["C10", "C01"])
mut("conversion-tab-as-space", C, '        return [html.text("\\t")]', '        return [html.text(" ")]', ["C01"])

DM = "mammoth/document_matchers.py"
mut("matcher-equal-case-sensitive", DM, "    return first.upper() == second.upper()", "    return first == second", ["C03"])
mut("matcher-starts-with-reversed", DM, "    return second.upper().startswith(first.upper())", "    return first.upper().startswith(second.upper())", ["C03"])

I = "mammoth/__init__.py"
mut("api-include-embedded-flag-ignored", I, "    if include_embedded_style_map:\n", "    if True:\n", ["C03"])
mut("api-transform-after-conversion-skipped", I, "docx.read(fileobj).map(transform_document).bind(lambda document:", "docx.read(fileobj).bind(lambda document:", ["C19"])

DP = "mammoth/styles/parser/document_matcher_parser.py"
mut("parser-level-without-minus-one", DP, "        return int(value) - 1", "        return int(value)", ["C06", "C08"])
mut("parser-valueerror-escapes-again", DP, "    except ValueError:\n        # int()", "    except KeyError:\n        # int()", ["C07"])
mut("parser-ordered-unordered-swapped", DP, '    if list_type == "ordered-list":\n        return True', '    if list_type == "ordered-list":\n        return False', ["C06", "C08"])
mut("parser-prefix-match-as-equal", DP, "        return document_matchers.starts_with(parse_string(tokens))", "        return document_matchers.equal_to(parse_string(tokens))", ["C06", "C03"])

HP = "mammoth/styles/parser/html_path_parser.py"
mut("parser-class-names-overwrite", HP, "        if attribute.append and attributes.get(attribute.name):", "        if False:", ["C06"])
mut("parser-separator-before-fresh", HP, "    is_fresh = _parse_is_fresh(tokens)\n    separator = _parse_separator(tokens)", "    separator = _parse_separator(tokens)\n    is_fresh = _parse_is_fresh(tokens)", ["C06"])
mut("parser-class-joined-without-space", HP, '            attributes[attribute.name] += " " + attribute.value', '            attributes[attribute.name] += attribute.value', ["C06"])
mut("parser-bang-ignored", HP, "        return html_paths.ignore\n", "        return html_paths.empty\n", ["C06", "C03"])

TP = "mammoth/styles/parser/token_parser.py"
mut("parser-escape-t-dropped", TP, '    elif code == "t":\n        return "\\t"\n', "", ["C06"])
mut("parser-string-escapes-not-decoded", TP, "    return decode_escape_sequences(tokens.next_value(TokenType.STRING)[1:-1])", "    return tokens.next_value(TokenType.STRING)[1:-1]", ["C06"])

TK = "mammoth/styles/parser/tokeniser.py"
mut("tokeniser-identifier-digits-removed", TK, '_identifier_character + "(?:" + _identifier_character + "|[0-9])*"', '_identifier_character + "(?:" + _identifier_character + ")*"', ["C06"])
mut("tokeniser-ambiguous-string-regex-restored", TK, """_string_prefix = r"'(?:[^'\\\\]|\\\\.)*\\\\?\"""", """_string_prefix = r"'(?:\\\\.|[^'])*\"""", ["C07"])
mut("tokeniser-no-catch-all", TK, '    rules.append(("unknown", re.compile(".")))', '    rules.append(("unknown", re.compile("[^~]")))', ["C07"])

PI = "mammoth/styles/parser/__init__.py"
mut("parser-error-not-caught", PI, "    except LineParseError:", "    except KeyError:", ["C07"])
mut("parser-warning-without-line", PI, 'warning = "Did not understand this style mapping, so ignored it: " + string', 'warning = "Did not understand this style mapping, so ignored it"', ["C16", "C07"])

B = "mammoth/docx/body_xml.py"
mut("reader-extra-before-paragraph", B, "        return _ReadResult(_concat(self.elements, self.extra), [], self.messages)", "        return _ReadResult(_concat(self.extra, self.elements), [], self.messages)", ["C01"])
mut("reader-deleted-paragraph-appended", B, "                children_xml = deleted_paragraph_contents + children_xml", "                children_xml = children_xml + deleted_paragraph_contents", ["C01"])
mut("reader-ins-not-read", B, '        "w:ins": read_child_elements,\n', "", ["C01", "C16"])
mut("reader-smarttag-not-read", B, '        "w:smartTag": read_child_elements,\n', "", ["C01", "C16"])
mut("reader-del-read", B, '        "w:del",\n', "", ["C16", "C01"])
mut("reader-prooferr-not-ignored", B, '        "w:proofErr",\n', "", ["C16", "C13"])
mut("reader-bare-toggle-off", B, '        return value not in ["false", "0"]', '        return value not in [None, "false", "0"]', ["C11"])
mut("reader-toggle-zero-is-on", B, '        return value not in ["false", "0"]', '        return value not in ["false"]', ["C11"])
mut("reader-underline-none-on", B, 'not in [None, "false", "0", "none"]', 'not in [None, "false", "0"]', ["C11"])
mut("reader-highlight-none-kept", B, '        if not value or value == "none":', "        if not value:", ["C11"])
mut("reader-style-numbering-first", B,
    """        if num_id is not None and level_index is not None:
            return numbering.find_level(num_id, level_index)

        if paragraph_style_id is not None:
            level = numbering.find_level_by_paragraph_style_id(paragraph_style_id)
            if level is not None:
                return level
""",
    """        if paragraph_style_id is not None:
            level = numbering.find_level_by_paragraph_style_id(paragraph_style_id)
            if level is not None:
                return level

        if num_id is not None and level_index is not None:
            return numbering.find_level(num_id, level_index)
""", ["C08"])
mut("reader-column-index-by-one", B, "                cell_index += cell.colspan", "                cell_index += 1", ["C09"])
mut("reader-bare-vmerge-not-continuation", B, '            return val == "continue" or not val', '            return val == "continue"', ["C09"])
mut("reader-vmerge-restart-is-continuation", B, '            return val == "continue" or not val', '            return val != "continue" or not val', ["C09"])
mut("reader-greedy-hyperlink-restored", B, """re.match(r'\\s*HYPERLINK "([^"]*)"', instr_text)""", """re.match(r'\\s*HYPERLINK "(.*)"', instr_text)""", ["C10"])
mut("reader-hyperlink-anchor-dropped-with-rid", B, "            if anchor is not None:\n                href = replace_fragment(href, anchor)\n", "", ["C10"])
mut("reader-goback-bookmark-kept", B, '        if name == "_GoBack":', '        if name == "_GoBackX":', ["C10", "C13"])
mut("reader-link-preferred-over-embed", B,
    """        if embed_relationship_id is not None:
            return _find_embedded_image(embed_relationship_id)
        elif link_relationship_id is not None:
            return _find_linked_image(link_relationship_id)""",
    """        if link_relationship_id is not None:
            return _find_linked_image(link_relationship_id)
        elif embed_relationship_id is not None:
            return _find_embedded_image(embed_relationship_id)""", ["C17", "C18"])
mut("reader-alt-title-preferred", B, '        if properties.get("descr", "").strip():', '        if not properties.get("title"):', ["C17"])
mut("reader-symbol-warning-dropped", B, "            return _empty_result_with_message(warning)\n        else:\n            return _success(documents.text(unichr(unicode_code_point)))",
    "            return _empty_result\n        else:\n            return _success(documents.text(unichr(unicode_code_point)))", ["C16"])
mut("reader-unknown-element-silently-ignored", B, "                return _empty_result_with_message(warning)\n            else:\n                return _empty_result\n        else:\n            return handler(element)",
    "                return _empty_result\n            else:\n                return _empty_result\n        else:\n            return handler(element)", ["C16"])
mut("reader-undefined-style-warning-dropped", B, "                messages.append(_undefined_style_warning(style_type, style_id))", "                pass", ["C16"])
mut("reader-fallback-crash-restored", B, '        return read_child_elements(element.find_child_or_null("mc:Fallback"))', '        return read_child_elements(element.find_child("mc:Fallback"))', ["C05"])
mut("reader-sdt-content-required", B, '            return read_child_elements(element.find_child_or_null("w:sdtContent"))', '            return read_child_elements(element.find_child("w:sdtContent"))', ["C05"])
mut("reader-break-type-required", B, '        break_type = element.attributes.get("w:type")', '        break_type = element.attributes["w:type"]', ["C05"])
mut("reader-tgtframe-required", B, '        target_frame = element.attributes.get("w:tgtFrame") or None', '        target_frame = element.attributes["w:tgtFrame"] or None', ["C05"])
mut("reader-soft-hyphen-dropped", B, '        return _success(documents.text(u"\\u00ad"))', "        return _empty_result", ["C01"])
mut("reader-header-row-val-ignored", B, '        is_header = bool(properties.find_child("w:tblHeader"))', '        is_header = bool(properties.find_child("w:tblHeader")) or bool(properties.find_child("w:cantSplit"))', ["C09"])

OX = "mammoth/docx/office_xml.py"
mut("office-choice-instead-of-fallback", OX, 'return node.find_child_or_null("mc:Fallback").children', 'return (node.find_child("mc:Choice") or node.find_child_or_null("mc:Fallback")).children', ["C01", "C13", "C16"])
mut("office-fallback-crash-restored", OX, 'return node.find_child_or_null("mc:Fallback").children', 'return node.find_child("mc:Fallback").children', ["C05"])
mut("office-strict-w-namespace-removed", OX, '    ("w", "http://purl.oclc.org/ooxml/wordprocessingml/main"),\n', "", ["C13"])
mut("office-strict-r-namespace-removed", OX, '    ("r", "http://purl.oclc.org/ooxml/officeDocument/relationships"),\n', "", ["C13"])

XP = "mammoth/docx/xmlparser.py"
mut("xml-cdata-dropped-again", XP, "elif node.nodeType in (xml.dom.Node.TEXT_NODE, xml.dom.Node.CDATA_SECTION_NODE):", "elif node.nodeType == xml.dom.Node.TEXT_NODE:", ["C13", "C01"])
mut("xml-xmlns-attributes-kept", XP, '            if attribute.namespaceURI != "http://www.w3.org/2000/xmlns/"\n', "", ["C13"])
mut("xml-name-by-prefix", XP, "            prefix = namespace_prefixes.get(node.namespaceURI)\n", "            prefix = namespace_prefixes.get(node.namespaceURI) and (node.prefix or namespace_prefixes.get(node.namespaceURI))\n", ["C13"])

N = "mammoth/docx/numbering_xml.py"
mut("numbering-numfmt-required", N, 'num_fmt = element.find_child_or_null("w:numFmt").attributes.get("w:val")', 'num_fmt = element.find_child_or_null("w:numFmt").attributes["w:val"]', ["C05"])
mut("numbering-dangling-stylelink-crash-restored", N, "                if style is None:\n                    return None\n                else:\n                    return self.find_level(style.num_id, level)",
    "                return self.find_level(style.num_id, level)", ["C05"])
mut("numbering-stylelink-ignored", N, "            elif abstract_num.num_style_link is None:", "            elif True:", ["C08"])
mut("numbering-bullet-is-ordered", N, '    is_ordered = num_fmt != "bullet"', '    is_ordered = num_fmt == "decimal"', ["C08"])

CT = "mammoth/docx/content_types_xml.py"
mut("content-type-default-before-override", CT,
    """        if path in self._overrides:
            return self._overrides[path]

        extension = _get_extension(path)
        default_type = self._extension_defaults.get(extension)
        if default_type is not None:
            return default_type
""",
    """        extension = _get_extension(path)
        default_type = self._extension_defaults.get(extension)
        if default_type is not None:
            return default_type

        if path in self._overrides:
            return self._overrides[path]
""", ["C17"])
mut("content-type-builtin-case-sensitive", CT, "self._image_content_types.get(extension.lower())", "self._image_content_types.get(extension)", ["C17"])
mut("content-type-jpg-as-jpg", CT, '        "jpg": "jpeg",', '        "jpg": "jpg",', ["C17"])

IM = "mammoth/images.py"
mut("images-document-alt-wins", IM,
    """        if image.alt_text:
            attributes["alt"] = image.alt_text
        attributes.update(func(image))""",
    """        attributes.update(func(image))
        if image.alt_text:
            attributes["alt"] = image.alt_text""", ["C17"])
mut("images-urlsafe-base64", IM, "base64.b64encode(image_bytes.read())", "base64.urlsafe_b64encode(image_bytes.read())", ["C17"])

F = "mammoth/docx/files.py"
mut("files-relative-against-cwd", F, "            elif self._base is not None:\n                return open(os.path.join(self._base, uri), \"rb\")",
    "            elif True:\n                return open(os.path.join(self._base or \"\", uri), \"rb\")", ["C18"])

U = "mammoth/docx/uris.py"
mut("uris-replace-fragment-last-hash", U, '    hash_index = uri.find("#")', '    hash_index = uri.rfind("#")', ["C10"])
mut("uris-absolute-target-not-stripped", U, "        return uri[1:]", "        return base + uri", ["C17"])

R = "mammoth/results.py"
mut("results-unique-removed", R, "        self.messages = unique(messages)", "        self.messages = list(messages)", ["C16"])
mut("results-bind-drops-earlier-messages", R, "        return Result(result.value, self.messages + result.messages)", "        return Result(result.value, result.messages)", ["C16", "C07"])

D = "mammoth/docx/__init__.py"
mut("docx-fallback-part-path-wins", D, "    if len(valid_targets) == 0:\n        return fallback_path", "    if len(valid_targets) == 0 or zip_file.exists(fallback_path):\n        return fallback_path", ["C13"])
mut("docx-comments-before-notes", D, "        _read_notes(read_part_with_body, part_paths),\n        _read_comments(read_part_with_body, part_paths),\n    ]).bind(lambda referents:\n        _read_document(zip_file, read_part_with_body, notes=referents[0], comments=referents[1], part_paths=part_paths)",
    "        _read_comments(read_part_with_body, part_paths),\n        _read_notes(read_part_with_body, part_paths),\n    ]).bind(lambda referents:\n        _read_document(zip_file, read_part_with_body, notes=referents[1], comments=referents[0], part_paths=part_paths)", ["C16"])

SM = "mammoth/docx/style_map.py"
mut("embed-relationship-always-added", SM, "    if existing_child is None:\n        ElementTree.SubElement(parent, name, attributes)", "    if True:\n        ElementTree.SubElement(parent, name, attributes)", ["C12"])
mut("embed-latin1", SM, '        _style_map_path: style_map.encode("utf8"),', '        _style_map_path: style_map.encode("latin-1", "replace"),', ["C12"])

Z = "mammoth/zips.py"
mut("zips-truncate-removed-again", Z, "    shutil.copyfileobj(destination_fileobj, fileobj)\n    fileobj.truncate()", "    shutil.copyfileobj(destination_fileobj, fileobj)", ["C12"])
mut("zips-empty-parts-skipped", Z, "                    contents = source.read(name)\n", "                    contents = source.read(name)\n                    if not contents:\n                        continue\n", ["C12"])
mut("zips-truncate-before-copy", Z, "    fileobj.seek(0)\n    destination_fileobj.seek(0)", "    fileobj.seek(0)\n    fileobj.truncate()\n    destination_fileobj.seek(0)", ["C12"],
    note="moves the first mutating operation earlier: a later fault now leaves an EMPTY file")

T = "mammoth/transforms.py"
mut("transforms-pre-order", T,
    """        if isinstance(element, documents.HasChildren):
            children = list(map(transform_element_and_children, element.children))
            element = element.copy(children=children)
        
        return transform_element(element)""",
    """        element = transform_element(element)
        if isinstance(element, documents.HasChildren):
            children = list(map(transform_element_and_children, element.children))
            element = element.copy(children=children)

        return element""", ["C19"])
mut("transforms-descendants-include-self", T, "    _visit_descendants(element, visit)\n\n    return descendants", "    _visit_descendants(element, visit)\n    visit(element)\n\n    return descendants", ["C19"])
mut("transforms-direct-children-only", T, "            children = list(map(transform_element_and_children, element.children))", "            children = list(map(transform_element, element.children))", ["C19"])
mut("transforms-descendants-pre-order", T, "            _visit_descendants(child, visit)\n            visit(child)", "            visit(child)\n            _visit_descendants(child, visit)", ["C19"])

CL = "mammoth/cli.py"
mut("cli-stdout-latin1", CL, '        stdout.write(contents.encode("utf-8"))', '        stdout.write(contents.encode("latin-1", "replace"))', ["C20"])
mut("cli-file-default-encoding", CL, '        with io.open(path, "w", encoding="utf-8") as fileobj:', '        with io.open(path, "w", encoding="ascii", errors="replace") as fileobj:', ["C20"])
mut("cli-images-numbered-from-zero", CL, "        self._image_number = 1", "        self._image_number = 0", ["C20"])
mut("cli-messages-to-stdout", CL, "            sys.stderr.write(message.message)\n            sys.stderr.write(\"\\n\")", "            sys.stdout.write(message.message)\n            sys.stdout.write(\"\\n\")", ["C20"])
mut("cli-style-map-ignored", CL, "            style_map=style_map,\n            convert_image=convert_image,", "            convert_image=convert_image,", ["C20"])
mut("cli-number-advances-before-open", CL, "        image_filename = \"{0}.{1}\".format(self._image_number, extension)\n", "        image_filename = \"{0}.{1}\".format(self._image_number, extension)\n        self._image_number += 1\n", ["C20"],
    note="double increment: file names 1, 3, 5")

RT = "mammoth/raw_text.py"
mut("raw-text-tab-dropped", RT, '        return "\\t"', '        return ""', ["C01"])

MD = "mammoth/writers/markdown.py"

# data tables the translator regenerates on every run (default style map, void tags, ignored elements, regexes)
mut("table-heading2-maps-to-h3", "mammoth/options.py", "p.Heading2 => h2:fresh", "p.Heading2 => h3:fresh", ["C08"])
mut("table-list-level2-without-ol-alternative", "mammoth/options.py", "p:unordered-list(2) => ul|ol > li > ul > li:fresh", "p:unordered-list(2) => ul > li > ul > li:fresh", ["C08"])
mut("table-normal-not-fresh", "mammoth/options.py", "p[style-name='Normal'] => p:fresh", "p[style-name='Normal'] => p", ["C08"])
mut("table-ordered-level3-is-unordered", "mammoth/options.py", "p:ordered-list(3) => ul|ol > li > ul|ol > li > ol > li:fresh", "p:ordered-list(3) => ul|ol > li > ul|ol > li > ul > li:fresh", ["C08"])
mut("table-img-not-void", "mammoth/html/nodes.py", '_VOID_TAG_NAMES = set(["br", "hr", "img", "input"])', '_VOID_TAG_NAMES = set(["br", "hr", "input"])', ["C17", "C14"])
mut("table-input-not-void", "mammoth/html/nodes.py", '_VOID_TAG_NAMES = set(["br", "hr", "img", "input"])', '_VOID_TAG_NAMES = set(["br", "hr", "img"])', ["C14", "C13"])
mut("table-bookmarkend-not-ignored", "mammoth/docx/body_xml.py", '        "w:bookmarkEnd",\n', "", ["C16"])
mut("table-anchor-regex-requires-one-space", "mammoth/docx/body_xml.py", """re.match(r'\\s*HYPERLINK\\s+\\\\l\\s+"([^"]*)"', instr_text)""", """re.match(r'\\s*HYPERLINK \\\\l "([^"]*)"', instr_text)""", ["C10"])
mut("table-footnote-handler-as-endnote", "mammoth/docx/body_xml.py", '"w:footnoteReference": note_reference_reader("footnote"),', '"w:footnoteReference": note_reference_reader("endnote"),', ["C10", "C01"])
mut("table-smarttag-as-pict", "mammoth/docx/body_xml.py", '        "w:smartTag": read_child_elements,', '        "w:smartTag": pict,', ["C01"])

EXTRA = {"conversion-shared-note-references": ("mammoth/conversion.py", "\n_up_arrow = ", "\n_shared_note_references = []\n\n_up_arrow = ")}


def sh(cmd, cwd=None, env=None, timeout=3000):
    try:
        p = subprocess.run(cmd, shell=True, cwd=cwd, env=env, stdout=subprocess.PIPE, stderr=subprocess.STDOUT, text=True, timeout=timeout)
        return p.returncode, p.stdout
    except subprocess.TimeoutExpired as e:
        return 124, (e.stdout or b"").decode("utf8", "replace") if isinstance(e.stdout, bytes) else (e.stdout or "")


def setup_lane(i):
    lane = os.path.join(ROOT, "lane%d" % i)
    repo, verif = os.path.join(lane, "repo"), os.path.join(lane, "verif")
    if not os.path.isdir(repo):
        os.makedirs(lane, exist_ok=True)
        rc, out = sh("git -C /repo worktree add --detach %s HEAD" % repo)
        assert rc == 0, out
    sh("git -C %s checkout -- ." % repo)
    sh("rsync -a --delete --exclude .git --exclude replays --exclude evidence --exclude coq/Cases %s/ %s/" % (VERIF, verif))
    os.makedirs(os.path.join(verif, "evidence"), exist_ok=True)
    return repo, verif


def apply(repo, m):
    edits = [(m["file"], m["old"], m["new"])]
    if m["id"] in EXTRA:
        edits.append(EXTRA[m["id"]])
    for path, old, new in edits:
        p = os.path.join(repo, path)
        s = open(p).read()
        if s.count(old) != 1:
            return "pattern matches %d times in %s" % (s.count(old), path)
        open(p, "w").write(s.replace(old, new))
    return None


def run_one(lane, m):
    repo, verif = lane
    res = {"id": m["id"], "file": m["file"], "expected": m["props"], "note": m["note"]}
    sh("git -C %s checkout -- ." % repo)
    err = apply(repo, m)
    if err:
        res["outcome"] = "not-applied"
        res["detail"] = err
        sh("git -C %s checkout -- ." % repo)
        return res
    try:
        rc, out = sh("git -C %s diff" % repo)
        res["diff"] = out
        env = dict(os.environ, PYTHONPATH=repo, PYTHONDONTWRITEBYTECODE="1")
        rc, out = sh(PYTEST, cwd=repo, env=env, timeout=1200)
        tail = [l for l in out.splitlines() if l.strip()][-1:] or [""]
        res["tests"] = tail[0][:160]
        if rc != 0:
            res["outcome"] = "killed-by-tests"
            return res
        env = dict(os.environ, MAMMOTH_REPO=repo, VERIF_SEED=os.environ.get("VERIF_SEED", "0"))
        res["checks"] = []
        res["outcome"] = "MISSED"
        for p in m["props"]:
            t0 = time.time()
            rc, out = sh("./check %s --tier quick" % p, cwd=verif, env=env, timeout=1800)
            lines = [l for l in out.splitlines() if re.search(r"VIOLATION|KNOWN-FINDING|BUILD FAILED|Traceback|Error", l)]
            viol = [l for l in lines if l.startswith("VIOLATION")]
            what = []
            for l in viol[:2]:
                mm = re.search(r"replay=(\S+)", l)
                if mm and os.path.exists(mm.group(1)):
                    try:
                        rep = json.load(open(mm.group(1)))
                        what.append("%s: %s" % (rep.get("kind"), str(rep.get("what"))[:200]))
                    except Exception:
                        pass
            res["checks"].append({"property": p, "rc": rc, "seconds": round(time.time() - t0, 1), "violations": len(viol),
                                  "no_input": sum("no-failing-input-found" in l for l in viol), "what": what,
                                  "other": [l[:200] for l in lines if not l.startswith("VIOLATION")][:3]})
            if rc == 1 and viol:
                res["outcome"] = "caught"
                res["caught_by"] = p
                res["with_input"] = any("no-failing-input-found" not in l for l in viol)
                break
            if rc not in (0, 1):
                res["outcome"] = "check-error"
        return res
    finally:
        sh("git -C %s checkout -- ." % repo)


def main():
    lanes_n = 3
    only = None
    args = sys.argv[1:]
    while args:
        a = args.pop(0)
        if a == "--lanes":
            lanes_n = int(args.pop(0))
        elif a == "--only":
            only = set(args.pop(0).split(","))
    todo = [m for m in M if only is None or m["id"] in only]
    ids = [m["id"] for m in M]
    assert len(ids) == len(set(ids)), "duplicate mutant ids"
    lanes = [setup_lane(i) for i in range(lanes_n)]
    outdir = os.path.join(VERIF, "seeded", "hand")
    os.makedirs(outdir, exist_ok=True)
    results = {}
    rj = os.path.join(outdir, "results.json")
    if os.path.exists(rj) and only is not None:
        results = {r["id"]: r for r in json.load(open(rj))}
    import queue
    free = queue.Queue()
    for l in lanes:
        free.put(l)

    def job(m):
        lane = free.get()
        try:
            r = run_one(lane, m)
        finally:
            free.put(lane)
        print("%-45s %s %s" % (m["id"], r["outcome"], r.get("caught_by", "")), flush=True)
        return r
    with concurrent.futures.ThreadPoolExecutor(lanes_n) as ex:
        for r in ex.map(job, todo):
            results[r["id"]] = r
    ordered = [results[i] for i in ids if i in results]
    json.dump(ordered, open(rj, "w"), indent=1)
    write_md(ordered, os.path.join(outdir, "RESULTS.md"))
    for i in range(lanes_n):
        sh("git -C /repo worktree remove --force %s" % os.path.join(ROOT, "lane%d" % i, "repo"))
    sh("rm -rf %s; git -C /repo worktree prune" % ROOT)


def write_md(rs, path):
    n = {}
    for r in rs:
        n[r["outcome"]] = n.get(r["outcome"], 0) + 1
    with open(path, "w") as f:
        f.write("# Hand-written one-line mutants (tools/hand_mutants.py)\n\n")
        f.write("Applied to scratch worktrees only.  `killed-by-tests`: the pinned suite already fails, so the mutant is outside the\n"
                "study's scope (\"passes the existing tests\").  `caught`: a quick check of one of the expected properties printed a VIOLATION\n"
                "(with a failing input unless marked *no input*).  `MISSED`: survived tests and the expected checks.\n\n")
        f.write("Totals: " + ", ".join("%s %d" % kv for kv in sorted(n.items())) + "\n\n")
        f.write("| mutant | file | outcome | by | how |\n|---|---|---|---|---|\n")
        for r in rs:
            how = ""
            if r["outcome"] == "caught":
                c = r["checks"][-1]
                how = ("; ".join(c["what"]) or "%d violation lines" % c["violations"])
                if not r.get("with_input"):
                    how = "*no input* " + how
            elif r["outcome"] == "killed-by-tests":
                how = r.get("tests", "")
            elif r["outcome"] == "not-applied":
                how = r.get("detail", "")
            else:
                how = "; ".join("%s rc=%s" % (c["property"], c["rc"]) for c in r.get("checks", []))
            f.write("| %s | %s | %s | %s | %s |\n" % (r["id"], r["file"].replace("mammoth/", ""), r["outcome"], r.get("caught_by", ""), how.replace("|", "\\|").replace("\n", " ")[:260]))


if __name__ == "__main__":
    main()
