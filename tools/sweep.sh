#!/bin/sh
# usage: tools/sweep.sh "<seeds>" <tier> <props...>   — runs checks over several seeds, prints one line per run
seeds="$1"; tier="$2"; shift 2
for s in $seeds; do
  for p in "$@"; do
    out=$(VERIF_SEED=$s timeout 3000 ./check "$p" --tier "$tier" 2>&1)
    rc=$?
    echo "seed=$s prop=$p rc=$rc $(echo "$out" | tail -1)"
    [ $rc -ne 0 ] && echo "$out" | grep -E "VIOLATION|KNOWN|Traceback|Error" | head -5
  done
done
exit 0
