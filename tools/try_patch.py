#!/usr/bin/env python3
"""usage: tools/try_patch.py <patch.diff> <lane number> <prop> [prop...]
Applies a patch to a SCRATCH worktree of /repo (never /repo itself), runs the quick checks of the given properties from a
scratch copy of /verif against it (MAMMOTH_REPO), prints what each reports, then restores the worktree."""
import json
import os
import re
import sys

sys.path.insert(0, os.path.dirname(os.path.abspath(__file__)))
import hand_mutants as H


def main():
    patch, lane_no, props = sys.argv[1], int(sys.argv[2]), sys.argv[3:]
    repo, verif = H.setup_lane(lane_no)
    rc, out = H.sh("git -C %s apply %s" % (repo, os.path.abspath(patch)))
    if rc != 0:
        print("patch does not apply:", out)
        return 2
    try:
        env = dict(os.environ, PYTHONPATH=repo, PYTHONDONTWRITEBYTECODE="1")
        rc, out = H.sh(H.PYTEST, cwd=repo, env=env, timeout=1200)
        print("tests:", ([l for l in out.splitlines() if l.strip()] or [""])[-1][:160])
        env = dict(os.environ, MAMMOTH_REPO=repo, VERIF_SEED=os.environ.get("VERIF_SEED", "0"))
        for p in props:
            rc, out = H.sh("./check %s --tier %s" % (p, os.environ.get("TIER", "quick")), cwd=verif, env=env, timeout=3000)
            print("== %s rc=%d" % (p, rc))
            for l in out.splitlines():
                if re.search(r"VIOLATION|KNOWN-FINDING|BUILD FAILED|Traceback|disagreements|done:", l):
                    print("  ", l[:230])
                m = re.search(r"^VIOLATION.*replay=(\S+)", l)
                if m and os.path.exists(m.group(1)):
                    try:
                        rep = json.load(open(m.group(1)))
                        print("     ->", rep.get("kind"), ":", str(rep.get("what"))[:300])
                    except Exception:
                        pass
    finally:
        H.sh("git -C %s checkout -- ." % repo)
        H.sh("git -C %s clean -fdq" % repo)
    return 0


if __name__ == "__main__":
    sys.exit(main())
