#!/usr/bin/env python3
"""Re-runs every kept sub-agent mutant (seeded/Cxx, seeded/w2_Cxx, seeded/w3_Cxx) against the quick check of its property,
from scratch copies (tools/try_patch.py machinery: scratch worktree of /repo + scratch copy of /verif, MAMMOTH_REPO), in
parallel lanes, and writes seeded/RESULTS.md.  /repo is never touched.  Not part of any registered check.

usage: tools/mutant_regression.py [--lanes N] [--only dir,dir,...]"""
import concurrent.futures
import json
import os
import queue
import re
import sys
import time

sys.path.insert(0, os.path.dirname(os.path.abspath(__file__)))
import hand_mutants as H

VERIF = H.VERIF


def run_one(lane, d):
    repo, verif = lane
    meta = json.load(open(os.path.join(VERIF, "seeded", d, "meta.json")))
    prop = meta["property"]
    H.sh("git -C %s checkout -- ." % repo)
    H.sh("git -C %s clean -fdq" % repo)
    rc, out = H.sh("git -C %s apply %s" % (repo, os.path.join(VERIF, "seeded", d, "patch.diff")))
    res = {"dir": d, "property": prop, "change": meta["change"]}
    if rc != 0:
        res["outcome"] = "patch-does-not-apply"
        return res
    try:
        env = dict(os.environ, MAMMOTH_REPO=repo, VERIF_SEED=os.environ.get("VERIF_SEED", "0"))
        t0 = time.time()
        rc, out = H.sh("./check %s --tier quick" % prop, cwd=verif, env=env, timeout=3000)
        viol = [l for l in out.splitlines() if l.startswith("VIOLATION")]
        what = []
        for l in viol[:1]:
            m = re.search(r"replay=(\S+)", l)
            if m and os.path.exists(m.group(1)):
                try:
                    rep = json.load(open(m.group(1)))
                    what.append("%s: %s" % (rep.get("kind"), str(rep.get("what"))[:160]))
                except Exception:
                    pass
        res.update(rc=rc, seconds=round(time.time() - t0, 1), violations=len(viol), with_input=any("no-failing-input-found" not in l for l in viol), what=what)
        res["outcome"] = "caught" if rc == 1 and viol else ("MISSED" if rc == 0 else "check-error")
        return res
    finally:
        H.sh("git -C %s checkout -- ." % repo)
        H.sh("git -C %s clean -fdq" % repo)


def main():
    lanes_n, only = 3, None
    args = sys.argv[1:]
    while args:
        a = args.pop(0)
        if a == "--lanes":
            lanes_n = int(args.pop(0))
        elif a == "--only":
            only = set(args.pop(0).split(","))
    dirs = sorted(d for d in os.listdir(os.path.join(VERIF, "seeded")) if os.path.exists(os.path.join(VERIF, "seeded", d, "patch.diff")))
    if only:
        dirs = [d for d in dirs if d in only]
    lanes = [H.setup_lane(i) for i in range(lanes_n)]
    free = queue.Queue()
    for l in lanes:
        free.put(l)

    def job(d):
        lane = free.get()
        try:
            r = run_one(lane, d)
        finally:
            free.put(lane)
        print("%-10s %-4s %s %s" % (d, r["property"], r["outcome"], "" if r.get("with_input", True) else "(no failing input)"), flush=True)
        return r
    with concurrent.futures.ThreadPoolExecutor(lanes_n) as ex:
        rs = list(ex.map(job, dirs))
    rj = os.path.join(VERIF, "seeded", "results.json")
    old = {}
    if only and os.path.exists(rj):
        old = {r["dir"]: r for r in json.load(open(rj))}
    for r in rs:
        old[r["dir"]] = r
    allr = [old[k] for k in sorted(old)]
    json.dump(allr, open(rj, "w"), indent=1)
    with open(os.path.join(VERIF, "seeded", "RESULTS.md"), "w") as f:
        n = {}
        for r in allr:
            n[r["outcome"]] = n.get(r["outcome"], 0) + 1
        f.write("# Kept sub-agent mutants against the current checks (tools/mutant_regression.py)\n\n")
        f.write("Each patch applied to a scratch worktree of /repo, the quick check of its property run from a scratch copy of /verif.\n\n")
        f.write("Totals: " + ", ".join("%s %d" % kv for kv in sorted(n.items())) + "\n\n| mutant | property | outcome | first violation | change |\n|---|---|---|---|---|\n")
        for r in allr:
            f.write("| %s | %s | %s%s | %s | %s |\n" % (r["dir"], r["property"], r["outcome"], "" if r.get("with_input", True) else " (no failing input)",
                                                     "; ".join(r.get("what", [])).replace("|", "\\|")[:200], r["change"].replace("|", "\\|")[:160]))
    for i in range(lanes_n):
        H.sh("git -C /repo worktree remove --force %s" % os.path.join(H.ROOT, "lane%d" % i, "repo"))
    H.sh("rm -rf %s; git -C /repo worktree prune" % H.ROOT)


if __name__ == "__main__":
    main()
