#!/bin/sh
# usage: tools/try_mutant.sh <dir with patch.diff> <prop> [more props...]
# applies the patch to /repo, runs the quick checks, ALWAYS restores /repo.
d="$1"; shift
cd /verif || exit 2
if [ -n "$(git -C /repo status --porcelain)" ]; then echo "/repo not clean"; exit 2; fi
git -C /repo apply "$d/patch.diff" || { echo "patch does not apply"; exit 2; }
trap 'git -C /repo checkout -- . ; git -C /repo status --porcelain' EXIT
for p in "$@"; do
  out=$(VERIF_SEED=${VERIF_SEED:-0} timeout 3000 ./check "$p" --tier ${TIER:-quick} 2>&1); rc=$?
  echo "== $p rc=$rc"
  echo "$out" | grep -E "VIOLATION|KNOWN-FINDING|BUILD FAILED|disagreements|done:" | cut -c1-220
  cp -r replays/$p "$d/replays_$p" 2>/dev/null
done
