#!/bin/sh
# usage: tools/verify_mutant.sh Cxx   — confirms the sub-agent's claims in its own scratch worktree
id="$1"; pre="${2:-mut}"; wt=/tmp/${pre}_$id; out=/tmp/${pre}_out/$id
cd $wt || exit 2
git -C $wt checkout -q -- . && git -C $wt apply $out/patch.diff || { echo "patch does not apply"; exit 2; }
t=$(PYTHONPATH=$wt /venv/bin/python -m pytest -q -p no:cacheprovider --timeout=900 2>&1 | tail -1)
PYTHONPATH=$wt timeout 600 /venv/bin/python $out/demo.py > $out/demo_with.txt 2>&1; w=$?
git -C $wt checkout -q -- .
PYTHONPATH=$wt timeout 600 /venv/bin/python $out/demo.py > $out/demo_without.txt 2>&1; wo=$?
echo "$id tests: $t | demo with change: exit $w | without: exit $wo | files: $(git -C $wt apply --numstat $out/patch.diff | awk '{print $3}' | tr '\n' ' ')"
