#!/usr/bin/env python3
"""Writes /verif/MANIFEST.json from the table below (kept in one place so it stays valid)."""
import json
import os

VERIF = os.path.dirname(os.path.dirname(os.path.abspath(__file__)))

BASE_NOTE = ("Trusted: Coq 8.16.1 kernel + vm_compute (no native_compute, no axioms declared; Print Assumptions of every "
             "property theorem is recorded in the evidence); tools/gen_tables.py (translator of /repo's data tables); the "
             "correspondence harness (generators, Python->Coq printers, canonicaliser). Modelled, not verified: CPython and the "
             "stdlib modules mammoth calls. ")

# id -> (category, technique, text, note, design_ref)
CHECKS = {
    "C04": ("proof",
            "Coq proof (structural induction over HTML forests) + in-kernel correspondence of the model with mammoth.html.collapse",
            "Theorems over all forests (no size bound): the code-shaped collapse equals the structural merge specification, "
            "merge happens iff the three freshness conditions hold, collapse is idempotent, and every original leaf keeps its "
            "order, multiplicity and a tag/attribute-compatible ancestor chain. The model is tied to the code by evaluating it in "
            "Coq on every forest up to a node bound and on random forests and comparing with mammoth.html.collapse.",
            BASE_NOTE + "Non-mutation of the Python input objects is observed by snapshot, not proved.",
            "DESIGN.md §5 C04"),
    "C14": ("proof",
            "Coq proof (structural induction over HTML forests) + in-kernel correspondence of the model with mammoth.html.strip_empty",
            "Theorems over all forests: a node is dropped iff it has no content (no non-empty text, no force-write marker, no childless "
            "void element), nothing empty is left at any depth, and every content item survives with its order and ancestor chain. "
            "Tied to the code by exhaustive small forests and random forests evaluated in Coq against mammoth.html.strip_empty.",
            BASE_NOTE + "For the FINAL forest, through collapse as well: C14_final_forest_no_empty_element (every document, every option combination: no element of the output lacks content beneath it) and C14_content_kept / C14_solid_content_kept (texts, markers and void elements of what the visitor emitted are all in the output, in order; void elements need their style-map tags :fresh - true of the default map - because collapse merges equal neighbours, also in the implementation).", "DESIGN.md §5 C14"),
    "C02": ("proof",
            "Coq proof of the writer round trip (independent lexer recovers the written forest) + in-kernel correspondence with HtmlWriter",
            "Theorems over all forests with plain names: the escape table read from the source is exactly the four specials; escaped "
            "strings contain no raw < > quote and only the four entities; an independent strict reader recovers from write(forest) exactly "
            "the forest's events (balanced tags, self-closed void elements, double-quoted attribute values decoded to the originals); "
            "substituting strings changes no skeleton; (conversion level, C02_names_from_maps) for EVERY document and options, every tag of the forest convert returns is a style-map tag verbatim or a tag the "
            "converter builds - name among 21 literals, attribute names among 8 literals plus the image converter's on img - so document strings occur only as text and attribute values; (STRING level, C02_html_well_formed / _names / _void_self_closed / _specials) for every source and options whose style map in force has plain names, the string convert_to_html returns lexes, balances, lexes back to exactly the forest written, self-closes exactly the childless br / hr / img / input, carries only style-map or literal names, and its < > and double-quote characters are exactly those of the markup. The model writer is compared in Coq with HtmlWriter's actual output, which is also lexed by the Coq reader.",
            BASE_NOTE + "That the VALUES derived from several strings (id_prefix ++ name, '#' ++ ...) stay distinct for distinct originals end-to-end is tested (substitution stream), not proved.",
            "DESIGN.md §5 C02, §15"),
    "C07": ("proof",
            "Coq proof of totality of the style-map reader and of a polynomial bound on the regex backtracking cost model + correspondence + timing ladder",
            "Theorems: every newline-free line tokenises (catch-all, no empty match), the parser never reads past END nor runs out of fuel, so every "
            "line is applied or reported; read_style_map of ANY text = mappings of readable lines + one warning per distinct unreadable line. "
            "The token regexes are regenerated from the source on every run and proved deterministic (vm_compute), from which a generic theorem bounds "
            "backtracking steps polynomially (linear per rule, quadratic for tokenise). Wall-clock is measured by a timing ladder on strings pumped from every regex loop.",
            BASE_NOTE + "The step counter is a cost model of a priority-order backtracking matcher (what CPython's sre is); sre's constants and optimisations are not modelled; time is measured, not proved.",
            "DESIGN.md §5 C07"),
    "C01": ("proof",
            "Coq proof END TO END: XML of the body -> live items (reader half) -> converter, strip_empty, collapse, writer -> text of the returned HTML, + end-to-end correspondence + independent live-text oracle",
            "Theorems: (reader) for every part body in the domain the elements the reader returns carry exactly the live items of the XML - text of w:t, tabs, hyphens, mapped symbols, "
            "note and comment references, in reading order, with deleted-paragraph merging, text boxes after their host paragraph, and w:del / instrText / non-fallback alternate content left out - "
            "against a specification written on the XML alone (Proofs/LiveSpec.v), the reader's dispatch table entering through a computed check of the table regenerated from body_xml.py; "
            "(converter) the text of whatever the visitor emits is the reading-order text, strip_empty and collapse keep text, the writer's output lexes back to it; "
            "(end to end, C01_end_to_end) for every source and options whose style map in force has no `!`, no :separator and plain names, the text of the HTML convert_to_html returns "
            "= rendering of the body's live items ([k] at the k-th note reference) ++ notes ++ comments, the notes being those the body references, in order. "
            "(whole text, C01_html_text_from_xml) with the notes and comments parts in the domain too, the text of the HTML is `expected_text`, computed from the XML of the three parts alone - body, then the referenced notes' live items each followed by the back-link arrow, "
            "then the comments list as a work queue of the rendered comment references - with nothing existential left; every comment read carries the live items of its XML (C01_comments_items); "
            "(raw text, C01_raw_text) for every source whose body is in the domain and has no vertical-merge continuation cells, extract_raw_text returns exactly the expansion of the body's live items with "
            "the END of every logical paragraph marked (Proofs/RawSpec.v): characters as they are, tab elements as the character 9, references nothing, every paragraph end exactly two newlines, placed after the paragraph's own "
            "content and before the text-box paragraphs that follow it; forgetting the marks gives the same live items the HTML theorem speaks of (C01_raw_text_same_body). "
            "The statements are also evaluated in Coq on every generated package, and an independent Python live-text function is compared with the implementation's output.",
            BASE_NOTE + "Domain of the reader theorem: a deleted paragraph mark is directly followed by a paragraph in the same container; vertical-merge continuation cells hold only their properties and empty paragraphs. "
            "With `!` mappings (text allowed to disappear) the converter half is the walk specification (C01_element_text); extract_raw_text on tables with vertically merged cells (whether the empty paragraph of a continuation cell contributes its two newlines depends on the tiling) is covered by correspondence and the oracle.",
            "DESIGN.md §5 C01, §15"),
    "C03": ("proof",
            "Coq proof of the decision rules (first match, concatenation order, matcher iff-specs) + end-to-end correspondence with marker-class oracle",
            "Theorems: find_style returns the first matching mapping and distributes over ++; read_options yields explicit ++ embedded ++ defaults for every text; "
            "a mapping matches iff kind, style id, style name (upper-cased equality/prefix) and list level agree; unmatched defaults; `!` drops element and contents without side effects. "
            "Correspondence: probe elements with near-miss decoys split across style_map / embedded part / defaults under both flags; winner predicted from the property text.",
            BASE_NOTE, "DESIGN.md §5 C03"),
    "C05": ("proof",
            "Coq proof classifying every failure of the model (all Python exception sites are explicit Crash values) + valid/malformed correspondence streams",
            "Theorem over ALL packages and options: convert_to_html / convert_to_markdown / extract_raw_text return a result or fail with one of an enumerated list of out-of-domain causes "
            "(missing required attributes, unresolved ids, unbalanced fldChar, non-numeric values, broken package structure); never LineParseError, never because of a style map, "
            "a missing mc:Fallback or a dangling numStyleLink, and never because the model's own recursion fuel ran out (body_read_all_fuel). The model is tied to the code on a valid stream (no exception allowed, html/markdown/raw) and a malformed stream "
            "(model Crash <=> implementation raises).",
            BASE_NOTE + "POSITIVE direction proved as well: `supported` (Proofs/SupportedSpec.v) is the property's domain as a boolean on the package's XML alone, and C05_supported_converts / _markdown / _extracts state "
            "supported s = true -> the entry point returns, for every option combination - all 23 failure codes discharged, no residual hypothesis. `supported` is evaluated in Coq on both streams: every valid-stream package satisfies it, "
            "no malformed one does, and `supported` with a raising implementation would be reported with the package as the failing input. One clause is a model artifact and is named as such: the model's comments loop has fuel 1000, "
            "so `supported` bounds the number of rendered comment references (the implementation has no such bound); numStyleLink acyclicity is stated through the numbering lookup itself. "
            "Python's recursion limit, memory and expat errors are not modelled.",
            "DESIGN.md §5 C05, §15"),
    "C09": ("proof",
            "Coq proof, unbounded in rows and columns, that the vMerge sweep reproduces the document grid under HTML table layout + exhaustive tilings correspondence",
            "Theorem for every well-formed tiling encoding of any size: html_layout (row_spans rows) = Some (doc_grid rows): no overlap, no gap, every position owned by the right cell; "
            "the reader model's own sweep over document elements is proved EQUAL to that abstract sweep (C09_reader_sweep_refines: same cells, same order, own children and colspan, the abstract rowspans; no extras, no messages), "
            "so the grid theorem holds for what the reader returns (C09_reader_table_layout), and from the XML of a plain w:tbl element whatever its cells contain (C09_xml_table_layout: tiling read off w:gridSpan / w:vMerge, header flags kept) and on to the HTML (C09_xml_to_html_table: the table element that survives strip_empty and collapse has the document's rows, thead/th for exactly the leading header rows, colspan / rowspan iff not 1, and the grid read off its attributes lays out to the document grid); "
            "plus the tr/th/td/thead/tbody/colspan/rowspan structure equations of the converter. The sweep model is compared in Coq with body_xml's calculate_row_spans on all tilings up to 3x3 (4x4 thorough) and random ones up to 6x6.",
            BASE_NOTE + "Domain: merges do not cross the header boundary; rows and cells are direct children.",
            "DESIGN.md §5 C09"),
    "C10": ("proof",
            "Coq proofs of link-target rules, the HYPERLINK regex capture (over the regex regenerated from source), note numbering and notes-list shape + end-to-end correspondence + href oracle",
            "Theorems: replace_fragment; for the instruction regex read from the source (shape checked by computation) the captured href is exactly the quoted target whatever switches follow; "
            "the k-th note reference is labelled [k] with ids derived from (type,id); the notes list has one li per reference in order with matching id and back-link; ids are prefixed; "
            "(C10_note_links_resolve, C10_bookmarks_have_ids) in the forest convert returns - after strip_empty and collapse - every note reference the conversion reaches has its own id, an href to the note's id, the note's id "
            "and the back-link's href to the reference, and every bookmark not under a `!` mapping has an element with id = id_prefix ++ name (collapse keeps the set of ids and hrefs because it joins only elements with identical "
            "attributes; strip_empty keeps the attributes of exactly the nodes it keeps). The statement is also evaluated in Coq on every generated package. "
            "READER HALF of the first sentence (C10_reader_links, C10_docx_links): for every body in the domain of C01's reader theorem the link attached to each live item - innermost open HYPERLINK field, else the enclosing w:hyperlink "
            "(relationship target with fragment replaced, or # anchor) - is what a specification on the XML alone prescribes, the field state machine included (one instruction buffer, begin / separate / end in reading order); END TO END (C10_xml_link_text): after strip_empty and collapse every character of the output sits under an anchor whose href is the one that specification assigns "
            "(relationship target with fragment replaced, field URL, # ++ id_prefix ++ anchor) and under none when it assigns none - for bodies without note / comment references, style maps without `!`, :separator and href-carrying tags (necessary: checked counterexample). "
            "Oracle: every href in the output is a link target of the document or resolves to an id.",
            BASE_NOTE, "DESIGN.md §5 C10, §15"),
    "C11": ("proof",
            "Coq proofs of toggle reading and of the run-wrapper equation + end-to-end correspondence + per-run wrapper oracle over all spellings",
            "Theorems: a toggle is on iff present with w:val not false/0; underline/highlight rules; a run is its children wrapped in exactly the paths of the properties that are on "
            "(run style outermost ... highlight innermost), defaults strong/em/s, nothing for unmapped underline/caps/small caps/highlight. Oracle: inline ancestors of each run's text.",
            BASE_NOTE + "C11_formatting_is_local states 'formatting never extends over another run' as one theorem for visitor -> strip_empty -> collapse over any list of text runs "
            "(style maps without :separator): every text leaf of the output sits under a chain compatible, level by level and of the same length, with the wrappers of its own run. READER HALF (C11_read_run): a w:r yields exactly one run whose ten flags are those a specification on its w:rPr prescribes; C11_xml_runs_local composes XML -> wrappers -> collapsed output; "
            "C11_default_wrappers: strong / em / sup / sub / s and nothing for underline, caps, small caps, highlight when no mapping overrides them.",
            "DESIGN.md §5 C11, §15"),
    "C13": ("proof",
            "Coq proofs of name/DOM/reader invariances over tables regenerated from source + metamorphic end-to-end suite over all listed rewrites",
            "Theorems: names are (URI, local) so prefixes cannot matter; Strict and Transitional URIs map to the same names; comments, PIs, xmlns attributes are dropped, CDATA is text, split text concatenates; "
            "ignored elements and text nodes among siblings do not change what the reader returns. The expat/zipfile layer (declaration, encoding, BOM, char refs, zip order/compression, part names) is exercised "
            "by building each package under random compositions of the rewrites and requiring identical value and messages.",
            BASE_NOTE + "Also proved at package level: the conversion is a function of the lookups the package answers, so any permutation of entries with distinct names converts identically by all three entry points "
            "(C13_entry_order; distinctness is necessary); packages whose located parts hold the same contents under other names read to the same document (C13_part_names; renaming a part found through the main part's relationships "
            "additionally needs that no r:id / r:embed / r:link of the body resolves to the renamed relationship - counterexample SpellFacts.renamed_part_can_show); attribute order is unobservable for distinct names. "
            "expat's lexical layer and zipfile are runtime: metamorphic testing only.",
            "DESIGN.md §5 C13, §15"),
    "C16": ("proof",
            "Coq proofs that emitted warnings equal the reading-order anomaly trace and are deduplicated + end-to-end correspondence of messages + independent anomaly walk",
            "Theorems: unknown element => exactly one warning naming it, ignored element => none; converter warnings = warnings of the traversal in order; clean subtree => none; messages are NoDup and lose nothing; "
            "style-map warnings one per distinct unreadable line; READER HALF AS A WHOLE (C16_reader_warnings, C16_docx_warnings): for every part in the domain the reader's messages are exactly, once each and in first-occurrence order, the "
            "warnings a specification written on the XML alone lists (unknown elements, undefined styles, unsupported breaks / symbols / images, non-row table children), for the notes, comments and main parts together; a part where no site fires - "
            "in particular a structurally tidy one - reads without a message (iff). END TO END (C16_end_to_end_messages, _once, C16_clean_document_no_messages): the messages convert_to_html returns are one de-duplication, first occurrence first, of the unreadable style-map lines, the reader's warnings and the converter's warnings along the traversal of body, referenced notes and comments; convert_to_markdown returns the same messages. The statement is evaluated in Coq on every generated package. Oracle: the message set equals the anomalies an independent walk of the package lists; clean packages yield [].",
            BASE_NOTE + "Domain of the reader theorem: wf_body and every w:fldChar a direct child of a run.", "DESIGN.md §5 C16, §15"),
    "C06": ("proof",
            "Coq print/parse round trip over an abstract syntax of the documented notation (independent printer, denotation) + in-kernel and README-level correspondence",
            "An abstract syntax of everything the README notation can express, an independent printer with arbitrary legal whitespace and backslash escapes, and its denotation are defined in Coq. "
            "Theorems (see evidence for which are discharged): escapes decode back to arbitrary characters; the parser maps the intended token list to exactly the denotation; the tokeniser cuts the printed "
            "text into exactly the intended tokens; hence read(print m) = denote m. Every generated mapping is printed by the harness's own printer, compared with the Coq printer's text, parsed by the "
            "implementation and compared with denote (in Coq) and with the README meaning (in Python).",
            BASE_NOTE + "Domain: identifiers without raw whitespace other than \\n \\r \\t; attribute names distinct; an explicit class attribute next to class shorthands only when it is non-empty and written before them (oracle; the Coq theorem excludes that combination); list level within the interpreter's int-digit limit.",
            "DESIGN.md §5 C06"),
    "C08": ("proof",
            "Coq facts computed over the default style map regenerated from options.py + refinement theorem collapse(list paths) = stack machine + numbering-resolution equations + end-to-end correspondence with a stack-algorithm block oracle",
            "Theorems by computation over the generated default map: Heading 1-6 by id and by name in any case give fresh h1-h6, list levels 1-5 give (ul|ol > li)^(d-1) > own-type > li:fresh, everything else a fresh p, "
            "every paragraph block ends in a fresh element (with C04's merge_iff: no two paragraphs share a block); the paragraph's own numId+ilvl win, else the paragraph style's level; find_level follows num -> abstractNum -> numStyleLink. "
            "NESTING THEOREM (any number of blocks, any depth): collapse of the default list paths emits exactly the tag events of a stack machine (item at depth d inside d lists, continues the open list of its type or opens a new one, implicit levels bulleted, any other block closes all lists). "
            "Oracle: the block skeleton of the output equals an independent stack-algorithm specification for random paragraph sequences in body, cells and notes through all three numbering mechanisms; the Coq machine is evaluated against the implementation's output too.",
            BASE_NOTE + "From document elements and from the XML (C08_default_map_classifies: the regenerated default map decides exactly `classify` for every style id, name and numbering; C08_paragraphs_to_blocks, C08_xml_paragraphs_to_blocks: one block per paragraph, in order, "
            "empty ones dropped by strip_empty, nested as the stack machine says). A numbered paragraph whose style NAME is footnote text / endnote text / annotation text / Footnote / Endnote is a plain p (those default mappings precede the list rules). Domain of the nesting theorem: a paragraph's own inline content has no top-level element called ul/ol; headings/paragraphs map to fresh non-list elements (true of the default map).",
            "DESIGN.md §5 C08"),
    "C12": ("proof",
            "Coq proofs about the archive/XML-entry bookkeeping, the UTF-8 round trip and the file rewrite (truncate flag read from zips.py on every run) + history and fault-injection correspondence",
            "Theorems: utf8 decode(encode s) = s for all scalar strings; the rewritten entries hold the new content, every other entry is unchanged, no name is lost; relationships and content-types hold exactly one style-map entry after any number of embeds "
            "and keep all others in order; with the truncate that the translator finds in update_zip the file is exactly the new archive whatever was there before (no stale bytes) — refuted variant without it; a fault before the first mutating operation leaves the file unchanged. "
            "Harness: histories of growing/shrinking embeds on BytesIO and r+b files with all clauses checked on the real bytes, and an I/O error injected at every file operation.",
            BASE_NOTE + "At package-model level also: C12_read_after_embed, C12_convert_embedded, C12_convert_reembedded - converting the package after embedding s (the XML edits of style_map.py on the model's trees) equals converting the original with style_map = s, "
            "for html, markdown and raw text, value, messages and failures alike, when the reserved relationship id and entry name are not otherwise used (each part of that hypothesis is necessary: checked counterexamples). "
            "zipfile (parse o serialize = id), ElementTree and the OS file layer are runtime. Known findings K1/K2: a fault after the first mutating operation cannot leave the file unchanged (in-place rewrite).",
            "DESIGN.md §5 C12"),
    "C15": ("other",
            "history / thread / hash-seed / file-object repeat testing against baselines that are also compared with the pure Coq model; small proved fragment",
            "Module state, closures, threads and hash seeds live in the interpreter: not expressible in the functional model. Every (document, options, format) job is converted alone, inside shuffled histories, in 8 barrier-released threads, "
            "twice on one file object and in child interpreters under several PYTHONHASHSEEDs; all digests must equal the baseline, inputs stay byte-identical, earlier results and the shared defaults (deep snapshot) unchanged; baselines equal the pure model.",
            BASE_NOTE + "Schedules and seeds are sampled, not enumerated.",
            "DESIGN.md §5 C15"),
    "C17": ("proof",
            "Coq proofs of the content-type / part-name / alt / once-in-order rules and the base64 round trip + end-to-end correspondence with a per-image oracle",
            "Theorems: content type = override, else extension default, else built-in table on the lower-cased extension; embedded image part name; the img elements in the output are exactly those of the images visited, in order, one converter call each "
            "(visit_images over the reading-order trace); END TO END (C17_end_to_end): for every source whose body is in the reader theorem's domain and whose style map in force has no `!` and no tag with img among its names, "
            "the img elements of the forest convert returns - after strip_empty and collapse - are exactly the converter applied to the images of the body XML in document order (reader half: C17_docx_images), then those of the referenced notes, "
            "then the comments'; the hypothesis on `|` alternatives is necessary (C17_alternative_named_img_refuted); the LEAF from the XML and the package alone (C17_drawing_images: part, declared type, bytes, alt = description unless blank else title; failures exactly 53 / 54) and, with the default converter, each img = data URI of that part's bytes under that type (C17_html_imgs_are_package_parts, C17_data_uri_payload); the converter's alt overrides the document's; base64 decodes back to the bytes. Oracle: (type, bytes, alt) per image computed from the package vs the img elements, for the default and three custom converters.",
            BASE_NOTE + "Byte transport through zipfile and the stdlib base64 is runtime: compared, not proved.",
            "DESIGN.md §5 C17, §15"),
    "C18": ("proof",
            "Coq non-interference theorems (the result cannot depend on anything outside the package except through link-only images a converter opens) + audit-hook trace of every conversion",
            "In the model everything outside the package is the source's environment (what opening each external target yields; whether the input has a name). Theorems, for all packages, options and environments: "
            "a package without link-only blips converts to the same value and messages whatever the environment (html, markdown, raw text); extract_raw_text never depends on the environment; nor does a conversion whose "
            "image converter does not open images; an embedded image never depends on it; a relative linked image with an anonymous input is not opened and yields the warning. The runtime clause is checked with sys.addaudithook: "
            "the open / urllib / socket events outside the interpreter's own files must be exactly the linked images opened, in order, also for packages whose XML parts carry DOCTYPEs with external subsets and external "
            "general/parameter entities pointing at canaries.",
            BASE_NOTE + "expat's refusal to fetch DTDs / entities and everything below open/urlopen is runtime: observed, not proved.",
            "DESIGN.md §5 C18, §15"),
    "C19": ("proof",
            "Coq proofs over all document trees and all transform functions + in-kernel correspondence of call sequence, result and descendants",
            "Theorems for every f: f is called exactly once per element and, through element_of_type, exactly once per paragraph/run of the original tree; children first; the returned element takes the original's place; other kinds pass through; identity changes nothing; "
            "get_descendants lists every proper descendant once in post-order, get_descendants_of_type is its filter. The model's call log and results are compared in Coq with mammoth.transforms for a family of transforms.",
            BASE_NOTE + "Notes and comments are not children of the document and are not visited (as coded; the property says body).",
            "DESIGN.md §5 C19"),
    "C20": ("proof",
            "Coq model of the command's glue (UTF-8 of the library value, stderr lines, numbered image files) + subprocess correspondence",
            "Theorems: the bytes written are utf8_encode of the value the library model returns for the same input/options, stderr the messages; the k-th successfully copied image gets file k.<subtype> (numbering proved consecutive from 1). "
            "Subprocess runs of python -m mammoth.cli over {path, stdout, --output-dir} x format x style-map file are compared bytewise with the library result, the package's image parts and the Coq model.",
            BASE_NOTE + "argparse, locale, streams and the file system are runtime.",
            "DESIGN.md §5 C20"),
}

PENDING = {}


def main():
    props = [json.loads(l) for l in open(os.path.join(VERIF, "properties.jsonl"))]
    checks, na = [], []
    for p in props:
        pid = p["id"]
        if pid in CHECKS:
            cat, tech, text, note, ref = CHECKS[pid]
            checks.append({
                "property_id": pid,
                "quick_cmd": "./check %s --tier quick" % pid,
                "thorough_cmd": "./check %s --tier thorough" % pid,
                "evidence_file": "/verif/evidence/%s.json" % pid,
                "replay_cmd_template": "./check %s --replay {path}" % pid,
                "engine": "coq-model",
                "level_claimed": {"category": cat, "text": text, "design_ref": ref},
                "level_note": note,
                "technique": tech,
            })
        else:
            na.append({"property_id": pid,
                       "reason": PENDING.get(pid, "check not built yet in this session; the technique applies (see DESIGN.md §5) — not claimed until its check exists")})
    m = {
        "version": 1,
        "setup_cmd": "./setup.sh",
        "hooks": {
            "guard": "MAMMOTH_VERIF",
            "enable": "no source hooks: the checks observe /repo through its public and module-level entry points with PYTHONPATH=/repo; MAMMOTH_VERIF=1 is exported by ./check but nothing in /repo reads it",
            "baseline_off_cmd": "cd /repo && /venv/bin/python -m pytest -ra -q -p no:cacheprovider --timeout=900 --continue-on-collection-errors",
            "source_commits": SOURCE_COMMITS,
            "add_only": True,
        },
        "engines": [{
            "name": "coq-model",
            "path": "/verif/coq",
            "serves_properties": [c["property_id"] for c in checks],
            "kind_free_text": "Gallina model of mammoth (Model/), data tables regenerated from /repo on every run (Gen/), lemmas (Proofs/), one property file per property (Props/); correspondence harness in /verif/harness evaluates the model with vm_compute and compares with the implementation",
        }],
        "checks": checks,
        "notes": "See DESIGN.md. known_findings.txt / known_findings.json list repaired (fixed:) and recorded (known:) defects.",
        "not_applicable": na,
    }
    with open(os.path.join(VERIF, "MANIFEST.json"), "w") as f:
        json.dump(m, f, indent=1)
    print("MANIFEST.json: %d checks, %d not_applicable" % (len(checks), len(na)))


SOURCE_COMMITS = ["885c918 fix: string token regex backtracked exponentially", "7af9c40 fix: list level with more digits than int() accepts", "9fb343f fix: mc:AlternateContent without mc:Fallback", "7eb27cb fix: dangling w:numStyleLink", "0690070 fix: CDATA text dropped", "be64d21 fix: HYPERLINK field switches swallowed", "f6a5af7 fix: update_zip left stale bytes"]

if __name__ == "__main__":
    main()
