#!/usr/bin/env python3
"""Writes /verif/MANIFEST.json from the table below (kept in one place so it stays valid)."""
import json
import os

VERIF = os.path.dirname(os.path.dirname(os.path.abspath(__file__)))

BASE_NOTE = ("Trusted: Coq 8.16.1 kernel + vm_compute (no native_compute, no axioms declared; Print Assumptions of every "
             "property theorem is recorded in the evidence); tools/gen_tables.py (translator of /repo's data tables); the "
             "correspondence harness (generators, Python->Coq printers, canonicaliser). Modelled, not verified: CPython and the "
             "stdlib modules mammoth calls. ")

# id -> (category, technique, text, note, design_ref)
CHECKS = {
    "C04": ("proof",
            "Coq proof (structural induction over HTML forests) + in-kernel correspondence of the model with mammoth.html.collapse",
            "Theorems over all forests (no size bound): the code-shaped collapse equals the structural merge specification, "
            "merge happens iff the three freshness conditions hold, collapse is idempotent, and every original leaf keeps its "
            "order, multiplicity and a tag/attribute-compatible ancestor chain. The model is tied to the code by evaluating it in "
            "Coq on every forest up to a node bound and on random forests and comparing with mammoth.html.collapse.",
            BASE_NOTE + "Non-mutation of the Python input objects is observed by snapshot, not proved.",
            "DESIGN.md §5 C04"),
    "C14": ("proof",
            "Coq proof (structural induction over HTML forests) + in-kernel correspondence of the model with mammoth.html.strip_empty",
            "Theorems over all forests: a node is dropped iff it has no content (no non-empty text, no force-write marker, no childless "
            "void element), nothing empty is left at any depth, and every content item survives with its order and ancestor chain. "
            "Tied to the code by exhaustive small forests and random forests evaluated in Coq against mammoth.html.strip_empty.",
            BASE_NOTE + "Conversion-level clause (which elements carry force-write; ignore_empty_paragraphs) is covered by the document-level correspondence.",
            "DESIGN.md §5 C14"),
    "C02": ("proof",
            "Coq proof of the writer round trip (independent lexer recovers the written forest) + in-kernel correspondence with HtmlWriter",
            "Theorems over all forests with plain names: the escape table read from the source is exactly the four specials; escaped "
            "strings contain no raw < > quote and only the four entities; an independent strict reader recovers from write(forest) exactly "
            "the forest's events (balanced tags, self-closed void elements, double-quoted attribute values decoded to the originals); "
            "substituting strings changes no skeleton. The model writer is compared in Coq with HtmlWriter's actual output, which is also lexed by the Coq reader.",
            BASE_NOTE + "Substitution through derived strings end-to-end is tested, not proved.",
            "DESIGN.md §5 C02"),
    "C07": ("proof",
            "Coq proof of totality of the style-map reader and of a polynomial bound on the regex backtracking cost model + correspondence + timing ladder",
            "Theorems: every newline-free line tokenises (catch-all, no empty match), the parser never reads past END nor runs out of fuel, so every "
            "line is applied or reported; read_style_map of ANY text = mappings of readable lines + one warning per distinct unreadable line. "
            "The token regexes are regenerated from the source on every run and proved deterministic (vm_compute), from which a generic theorem bounds "
            "backtracking steps polynomially (linear per rule, quadratic for tokenise). Wall-clock is measured by a timing ladder on strings pumped from every regex loop.",
            BASE_NOTE + "The step counter is a cost model of a priority-order backtracking matcher (what CPython's sre is); sre's constants and optimisations are not modelled; time is measured, not proved.",
            "DESIGN.md §5 C07"),
}

PENDING = {}


def main():
    props = [json.loads(l) for l in open(os.path.join(VERIF, "properties.jsonl"))]
    checks, na = [], []
    for p in props:
        pid = p["id"]
        if pid in CHECKS:
            cat, tech, text, note, ref = CHECKS[pid]
            checks.append({
                "property_id": pid,
                "quick_cmd": "./check %s --tier quick" % pid,
                "thorough_cmd": "./check %s --tier thorough" % pid,
                "evidence_file": "/verif/evidence/%s.json" % pid,
                "replay_cmd_template": "./check %s --replay {path}" % pid,
                "engine": "coq-model",
                "level_claimed": {"category": cat, "text": text, "design_ref": ref},
                "level_note": note,
                "technique": tech,
            })
        else:
            na.append({"property_id": pid,
                       "reason": PENDING.get(pid, "check not built yet in this session; the technique applies (see DESIGN.md §5) — not claimed until its check exists")})
    m = {
        "version": 1,
        "setup_cmd": "./setup.sh",
        "hooks": {
            "guard": "MAMMOTH_VERIF",
            "enable": "no source hooks: the checks observe /repo through its public and module-level entry points with PYTHONPATH=/repo; MAMMOTH_VERIF=1 is exported by ./check but nothing in /repo reads it",
            "baseline_off_cmd": "cd /repo && /venv/bin/python -m pytest -ra -q -p no:cacheprovider --timeout=900 --continue-on-collection-errors",
            "source_commits": SOURCE_COMMITS,
            "add_only": True,
        },
        "engines": [{
            "name": "coq-model",
            "path": "/verif/coq",
            "serves_properties": [c["property_id"] for c in checks],
            "kind_free_text": "Gallina model of mammoth (Model/), data tables regenerated from /repo on every run (Gen/), lemmas (Proofs/), one property file per property (Props/); correspondence harness in /verif/harness evaluates the model with vm_compute and compares with the implementation",
        }],
        "checks": checks,
        "notes": "See DESIGN.md. known_findings.txt / known_findings.json list repaired (fixed:) and recorded (known:) defects.",
        "not_applicable": na,
    }
    with open(os.path.join(VERIF, "MANIFEST.json"), "w") as f:
        json.dump(m, f, indent=1)
    print("MANIFEST.json: %d checks, %d not_applicable" % (len(checks), len(na)))


SOURCE_COMMITS = ["885c918 fix: string token regex backtracked exponentially", "7af9c40 fix: list level with more digits than int() accepts"]

if __name__ == "__main__":
    main()
