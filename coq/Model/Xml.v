(* Model of mammoth/docx/xmlparser.py (the XmlElement tree after expat) and office_xml.py *)
From Mammoth Require Export Str.
Local Open Scope N_scope.

Inductive xml :=
| XElem (name : str) (attrs : list (str * str)) (children : list xml)
| XText (s : str).

(* Python dicts: insertion-ordered, assignment to an existing key replaces the value in place *)
Fixpoint dict_get {V} (k : str) (d : list (str * V)) : option V :=
  match d with [] => None | (k', v) :: d' => if str_eqb k k' then Some v else dict_get k d' end.
Fixpoint dict_set {V} (k : str) (v : V) (d : list (str * V)) : list (str * V) :=
  match d with
  | [] => [(k, v)]
  | (k', v') :: d' => if str_eqb k k' then (k, v) :: d' else (k', v') :: dict_set k v d'
  end.
Definition dict_of {V} (l : list (str * V)) : list (str * V) := fold_left (fun d kv => dict_set (fst kv) (snd kv) d) l [].

Definition xname (x : xml) : option str := match x with XElem n _ _ => Some n | XText _ => None end.
Definition xattrs (x : xml) : list (str * str) := match x with XElem _ a _ => a | XText _ => [] end.
Definition xchildren (x : xml) : list xml := match x with XElem _ _ c => c | XText _ => [] end.
Definition attr (k : str) (x : xml) : option str := dict_get k (xattrs x).

(* the null element: no attributes, no children *)
Definition xnull : xml := XElem [] [] [].

Fixpoint find_child_in (name : str) (cs : list xml) : option xml :=
  match cs with
  | [] => None
  | (XElem n a c) :: cs' => if str_eqb n name then Some (XElem n a c) else find_child_in name cs'
  | XText _ :: cs' => find_child_in name cs'
  end.
Definition find_child (name : str) (x : xml) : option xml := find_child_in name (xchildren x).
Definition find_child_or_null (name : str) (x : xml) : xml :=
  match find_child name x with Some c => c | None => xnull end.
Definition find_children (name : str) (x : xml) : list xml :=
  filter (fun c => match c with XElem n _ _ => str_eqb n name | XText _ => false end) (xchildren x).
Definition find_children_of (name : str) (xs : list xml) : list xml := flat_map (find_children name) xs.
Definition is_elem (x : xml) : bool := match x with XElem _ _ _ => true | XText _ => false end.

(* _inner_text *)
Fixpoint inner_text (x : xml) : str :=
  match x with
  | XText s => s
  | XElem _ _ cs => flat_map inner_text cs
  end.

Fixpoint xsize (x : xml) : nat :=
  match x with
  | XText _ => 1%nat
  | XElem _ _ cs => S (fold_right (fun c a => xsize c + a)%nat O cs)
  end.

Definition s_alternate_content : str := [109;99;58;65;108;116;101;114;110;97;116;101;67;111;110;116;101;110;116].
Definition s_fallback : str := [109;99;58;70;97;108;108;98;97;99;107].

(* office_xml._collapse_alternate_content: node.find_child_or_null("mc:Fallback").children —
   a missing fallback is empty content *)
Fixpoint collapse_alt (x : xml) : outcome (list xml) :=
  match x with
  | XText _ => Ok [x]
  | XElem n a cs =>
      if str_eqb n s_alternate_content then
        match find_child_in s_fallback cs with
        | Some f => Ok (xchildren f)
        | None => Ok []
        end
      else
        cs' <- (fix go (l : list xml) : outcome (list xml) :=
                  match l with
                  | [] => Ok []
                  | c :: l' => a <- collapse_alt c ;; b <- go l' ;; Ok (a ++ b)
                  end) cs ;;
        Ok [XElem n a cs']
  end.
(* office_xml.read: _collapse_alternate_content(root)[0] *)
Definition office_read (root : xml) : outcome xml :=
  r <- collapse_alt root ;; match r with x :: _ => Ok x | [] => Crash 21 end.
