(* Style mappings: document matchers (document_matchers.py), HTML paths (html_paths.py). *)
From Mammoth Require Export Html.
From Mammoth Require Import Unicode.
Local Open Scope N_scope.

Inductive smatch := SEq (v : str) | SPrefix (v : str).     (* equal_to / starts_with *)

(* documents._NumberingLevel: level_index is a STRING, is_ordered a bool *)
Record numlevel := mkLevel { lvl_index : str; lvl_ordered : bool }.

Inductive matcher :=
| MParagraph (sid : option str) (sname : option smatch) (num : option numlevel)
| MRun (sid : option str) (sname : option smatch)
| MTable (sid : option str) (sname : option smatch)
| MBold | MItalic | MUnderline | MStrike | MAllCaps | MSmallCaps
| MHighlight (color : option str)
| MCommentRef
| MBreak (bt : str).

(* html_paths: ignore | HtmlPath [HtmlPathElement tag] *)
Inductive hpath := PIgnore | PElems (l : list tag).

Record style := mkStyle { s_matcher : matcher; s_path : hpath }.

(* HtmlPath.wrap: reversed(elements) wraps from the inside out; generate_nodes is lazy, and
   `ignore.wrap` never calls it (the model's callers respect that). *)
Definition wrap_elems (l : list tag) (ns : list (node str)) : list (node str) :=
  fold_right (fun t acc => [Elem t acc]) ns l.

(* ---- attribute dictionaries as sorted association lists ---- *)
Fixpoint attrs_get (k : str) (d : list (str * str)) : option str :=
  match d with
  | [] => None
  | (k', v) :: d' => if str_eqb k k' then Some v else attrs_get k d'
  end.
Fixpoint attrs_set (k v : str) (d : list (str * str)) : list (str * str) :=
  match d with
  | [] => [(k, v)]
  | (k', v') :: d' =>
      if str_eqb k k' then (k, v) :: d'
      else if str_ltb k k' then (k, v) :: d
      else (k', v') :: attrs_set k v d'
  end.
(* dict.update(other) *)
Definition attrs_update (d other : list (str * str)) : list (str * str) :=
  fold_left (fun a kv => attrs_set (fst kv) (snd kv) a) other d.

(* ---- str.upper via the generated table ---- *)
Fixpoint lookup_upper (c : N) (t : list (N * str)) : option str :=
  match t with
  | [] => None
  | (k, v) :: t' => if N.eqb c k then Some v else if N.ltb c k then None else lookup_upper c t'
  end.
Definition upper_char (c : N) : str :=
  match lookup_upper c upper_table with Some u => u | None => [c] end.
Definition upper (s : str) : str := flat_map upper_char s.

(* StringMatcher.matches(other): operator(self.value, other) *)
Definition smatch_matches (m : smatch) (other : str) : bool :=
  match m with
  | SEq v => str_eqb (upper v) (upper other)
  | SPrefix v => starts_with (upper v) (upper other)
  end.

Definition level_eqb (a b : numlevel) : bool :=
  str_eqb (lvl_index a) (lvl_index b) && Bool.eqb (lvl_ordered a) (lvl_ordered b).

Definition smatch_eqb (a b : smatch) : bool :=
  match a, b with
  | SEq x, SEq y | SPrefix x, SPrefix y => str_eqb x y
  | _, _ => false
  end.
Definition matcher_eqb (a b : matcher) : bool :=
  match a, b with
  | MParagraph i n l, MParagraph i' n' l' => opt_eqb str_eqb i i' && opt_eqb smatch_eqb n n' && opt_eqb level_eqb l l'
  | MRun i n, MRun i' n' | MTable i n, MTable i' n' => opt_eqb str_eqb i i' && opt_eqb smatch_eqb n n'
  | MBold, MBold | MItalic, MItalic | MUnderline, MUnderline | MStrike, MStrike
  | MAllCaps, MAllCaps | MSmallCaps, MSmallCaps | MCommentRef, MCommentRef => true
  | MHighlight c, MHighlight c' => opt_eqb str_eqb c c'
  | MBreak b, MBreak b' => str_eqb b b'
  | _, _ => false
  end.
Definition hpath_eqb (a b : hpath) : bool :=
  match a, b with
  | PIgnore, PIgnore => true
  | PElems l, PElems l' => list_eqb tag_eqb l l'
  | _, _ => false
  end.
Definition style_eqb (a b : style) : bool :=
  matcher_eqb (s_matcher a) (s_matcher b) && hpath_eqb (s_path a) (s_path b).

(* ---- str.lower via the generated table ---- *)
Definition lower_char (c : N) : str :=
  match lookup_upper c lower_table with Some u => u | None => [c] end.
Definition lower (s : str) : str := flat_map lower_char s.
