(* Models of styles_xml.py, numbering_xml.py, relationships_xml.py, content_types_xml.py, uris.py, zips.py (paths) *)
From Mammoth Require Export Xml Styles.
From Mammoth Require Import ReaderTables.   (* Gen: image_content_types *)
Local Open Scope N_scope.

Definition w_ (s : str) : str := [119;58] ++ s.
Definition s_val : str := w_ [118;97;108].     (* w:val *)

(* ---------- styles ---------- *)
Record styles := mkStyles {
  st_para : list (str * option str);     (* style id -> name *)
  st_char : list (str * option str);
  st_table : list (str * option str);
  st_numbering : list (str * option str) (* style id -> numId *) }.
Definition styles_empty : styles := mkStyles [] [] [] [].

Definition s_style : str := w_ [115;116;121;108;101].
Definition s_styleId : str := w_ [115;116;121;108;101;73;100].
Definition s_type : str := w_ [116;121;112;101].
Definition s_name : str := w_ [110;97;109;101].
Definition s_pPr : str := w_ [112;80;114].
Definition s_numPr : str := w_ [110;117;109;80;114].
Definition s_numId : str := w_ [110;117;109;73;100].
Definition k_paragraph : str := [112;97;114;97;103;114;97;112;104].
Definition k_character : str := [99;104;97;114;97;99;116;101;114].
Definition k_table : str := [116;97;98;108;101].
Definition k_numbering : str := [110;117;109;98;101;114;105;110;103].

Fixpoint read_styles_aux (els : list xml) (s : styles) : outcome styles :=
  match els with
  | [] => Ok s
  | e :: els' =>
      match attr s_styleId e with
      | None => Crash 30                                  (* attributes["w:styleId"] *)
      | Some sid =>
          let name := attr s_val (find_child_or_null s_name e) in
          match attr s_type e with
          | None => Crash 31                              (* attributes["w:type"] *)
          | Some ty =>
              let s' :=
                if str_eqb ty k_numbering then
                  let num_id := attr s_val (find_child_or_null s_numId (find_child_or_null s_numPr (find_child_or_null s_pPr e))) in
                  mkStyles (st_para s) (st_char s) (st_table s) (dict_set sid num_id (st_numbering s))
                else if str_eqb ty k_paragraph then mkStyles (dict_set sid name (st_para s)) (st_char s) (st_table s) (st_numbering s)
                else if str_eqb ty k_character then mkStyles (st_para s) (dict_set sid name (st_char s)) (st_table s) (st_numbering s)
                else if str_eqb ty k_table then mkStyles (st_para s) (st_char s) (dict_set sid name (st_table s)) (st_numbering s)
                else s in
              read_styles_aux els' s'
          end
      end
  end.
Definition read_styles (root : xml) : outcome styles := read_styles_aux (find_children s_style root) styles_empty.

(* ---------- numbering ---------- *)
Record abs_level := mkAbsLevel { al_index : str; al_ordered : bool; al_pstyle : option str }.
Record abs_num := mkAbsNum { an_levels : list (str * abs_level); an_link : option str }.
Record numbering := mkNumbering {
  nm_abstract : list (str * abs_num);     (* keyed by abstractNumId; a missing id attribute is the key None *)
  nm_abstract_none : option abs_num;      (* the entry stored under the key None *)
  nm_nums : list (str * str);             (* numId -> abstractNumId *)
  nm_nums_none : option str;
  nm_styles : styles }.

Definition s_abstractNum : str := w_ [97;98;115;116;114;97;99;116;78;117;109].
Definition s_abstractNumId : str := w_ [97;98;115;116;114;97;99;116;78;117;109;73;100].
Definition s_lvl : str := w_ [108;118;108].
Definition s_ilvl : str := w_ [105;108;118;108].
Definition s_numFmt : str := w_ [110;117;109;70;109;116].
Definition s_pStyle : str := w_ [112;83;116;121;108;101].
Definition s_numStyleLink : str := w_ [110;117;109;83;116;121;108;101;76;105;110;107].
Definition s_num : str := w_ [110;117;109].
Definition k_bullet : str := [98;117;108;108;101;116].

Fixpoint read_levels (els : list xml) (d : list (str * abs_level)) : outcome (list (str * abs_level)) :=
  match els with
  | [] => Ok d
  | e :: els' =>
      match attr s_ilvl e with
      | None => Crash 32                                  (* attributes["w:ilvl"] *)
      | Some i =>
          let fmt := attr s_val (find_child_or_null s_numFmt e) in
          let ordered := negb (opt_eqb str_eqb fmt (Some k_bullet)) in
          let ps := attr s_val (find_child_or_null s_pStyle e) in
          read_levels els' (dict_set i (mkAbsLevel i ordered ps) d)
      end
  end.

Fixpoint read_abstract_nums (els : list xml) (d : list (str * abs_num)) (dn : option abs_num)
  : outcome (list (str * abs_num) * option abs_num) :=
  match els with
  | [] => Ok (d, dn)
  | e :: els' =>
      lv <- read_levels (find_children s_lvl e) [] ;;
      let an := mkAbsNum lv (attr s_val (find_child_or_null s_numStyleLink e)) in
      match attr s_abstractNumId e with
      | Some i => read_abstract_nums els' (dict_set i an d) dn
      | None => read_abstract_nums els' d (Some an)
      end
  end.

Fixpoint read_nums (els : list xml) (d : list (str * str)) (dn : option str) : outcome (list (str * str) * option str) :=
  match els with
  | [] => Ok (d, dn)
  | e :: els' =>
      match attr s_val (find_child_or_null s_abstractNumId e) with
      | None => Crash 33                                  (* find_child_or_null(...).attributes["w:val"] *)
      | Some a =>
          match attr s_numId e with
          | Some i => read_nums els' (dict_set i a d) dn
          | None => read_nums els' d (Some a)
          end
      end
  end.

Definition read_numbering (root : xml) (st : styles) : outcome numbering :=
  a <- read_abstract_nums (find_children s_abstractNum root) [] None ;;
  n <- read_nums (find_children s_num root) [] None ;;
  Ok (mkNumbering (fst a) (snd a) (fst n) (snd n) st).
Definition numbering_empty : numbering := mkNumbering [] None [] None styles_empty.

Definition to_level (al : option abs_level) : option numlevel :=
  match al with Some l => Some (mkLevel (al_index l) (al_ordered l)) | None => None end.

(* Numbering.find_level(num_id, level); num_id may be None when it comes from a numbering style
   without numId.  Recursion through numStyleLink on fuel; a missing numbering style resolves
   to no level. *)
Fixpoint find_level (fuel : nat) (nm : numbering) (num_id : option str) (level : str) : outcome (option numlevel) :=
  match fuel with
  | O => Crash 35                                          (* RecursionError: cyclic numStyleLink *)
  | S f =>
      let abs_id := match num_id with Some i => dict_get i (nm_nums nm) | None => nm_nums_none nm end in
      match abs_id with
      | None => Ok None
      | Some a =>
          match dict_get a (nm_abstract nm) with
          | None => Ok None
          | Some an =>
              match an_link an with
              | None => Ok (to_level (dict_get level (an_levels an)))
              | Some link =>
                  match dict_get link (st_numbering (nm_styles nm)) with
                  | None => Ok None
                  | Some num_id' => find_level f nm num_id' level
                  end
              end
          end
      end
  end.

(* _levels_by_paragraph_style_id: over abstract_nums.values() then levels.values(), later wins *)
Definition levels_by_pstyle (nm : numbering) : list (str * numlevel) :=
  let all := map snd (nm_abstract nm) ++ (match nm_abstract_none nm with Some a => [a] | None => [] end) in
  fold_left (fun d an =>
               fold_left (fun d' kv => match al_pstyle (snd kv) with
                                       | Some ps => dict_set ps (mkLevel (al_index (snd kv)) (al_ordered (snd kv))) d'
                                       | None => d' end)
                         (an_levels an) d) all [].
Definition find_level_by_pstyle (nm : numbering) (sid : str) : option numlevel := dict_get sid (levels_by_pstyle nm).

(* ---------- relationships ---------- *)
Record rel := mkRel { r_id : str; r_target : str; r_type : str }.
Definition s_Relationship : str := [114;101;108;97;116;105;111;110;115;104;105;112;115;58;82;101;108;97;116;105;111;110;115;104;105;112].
Definition s_Id : str := [73;100].
Definition s_Target : str := [84;97;114;103;101;116].
Definition s_Type : str := [84;121;112;101].
Fixpoint read_rels_aux (els : list xml) : outcome (list rel) :=
  match els with
  | [] => Ok []
  | e :: els' =>
      match attr s_Id e, attr s_Target e, attr s_Type e with
      | Some i, Some t, Some ty => r <- read_rels_aux els' ;; Ok (mkRel i t ty :: r)
      | _, _, _ => Crash 36
      end
  end.
Definition read_rels (root : xml) : outcome (list rel) := read_rels_aux (find_children s_Relationship root).
(* dict((id, target) ...): last wins *)
Definition rel_target (rels : list rel) (id : str) : option str :=
  fold_left (fun acc r => if str_eqb (r_id r) id then Some (r_target r) else acc) rels None.
Definition rel_targets_by_type (rels : list rel) (ty : str) : list str :=
  map r_target (filter (fun r => str_eqb (r_type r) ty) rels).

(* ---------- content types ---------- *)
Record ctypes := mkCt { ct_defaults : list (str * str); ct_overrides : list (str * str) }.
Definition s_Default : str := [99;111;110;116;101;110;116;45;116;121;112;101;115;58;68;101;102;97;117;108;116].
Definition s_Override : str := [99;111;110;116;101;110;116;45;116;121;112;101;115;58;79;118;101;114;114;105;100;101].
Definition s_Extension : str := [69;120;116;101;110;115;105;111;110].
Definition s_ContentType : str := [67;111;110;116;101;110;116;84;121;112;101].
Definition s_PartName : str := [80;97;114;116;78;97;109;101].
Fixpoint read_ct_pairs (k1 k2 : str) (f : str -> str) (els : list xml) (d : list (str * str)) : outcome (list (str * str)) :=
  match els with
  | [] => Ok d
  | e :: els' =>
      match attr k1 e, attr k2 e with
      | Some a, Some b => read_ct_pairs k1 k2 f els' (dict_set (f a) b d)
      | _, _ => Crash 37
      end
  end.
Definition read_ctypes (root : xml) : outcome ctypes :=
  d <- read_ct_pairs s_Extension s_ContentType (fun x => x) (find_children s_Default root) [] ;;
  o <- read_ct_pairs s_PartName s_ContentType (lstrip_char 47) (find_children s_Override root) [] ;;
  Ok (mkCt d o).
Definition ctypes_empty : ctypes := mkCt [] [].

(* str.lower() on ASCII is enough for the extension table lookup?  No: use the full table. *)
Definition find_content_type (ct : ctypes) (path : str) : option str :=
  match dict_get path (ct_overrides ct) with
  | Some t => Some t
  | None =>
      let ext := after_last 46 path in
      match dict_get ext (ct_defaults ct) with
      | Some t => Some t
      | None =>
          match dict_get (lower ext) image_content_types with
          | Some t => Some ([105;109;97;103;101;47] ++ t)
          | None => None
          end
      end
  end.

(* ---------- uris.py, zips.py ---------- *)
Definition uri_to_zip_entry_name (base uri : str) : str :=
  match uri with 47 :: r => r | _ => base ++ [47] ++ uri end.
Definition replace_fragment (uri fragment : str) : str :=
  (match break_at 35 uri with Some (a, _) => a | None => uri end) ++ [35] ++ fragment.

(* rsplit("/", 1) *)
Fixpoint split_path_aux (s : str) (cur : str) : option (str * str) :=
  match s with
  | [] => None
  | c :: r =>
      match split_path_aux r [] with
      | Some (d, b) => Some (c :: d, b)
      | None => if N.eqb c 47 then Some ([], r) else None
      end
  end.
Definition split_path (p : str) : str * str :=
  match split_path_aux p [] with Some (d, b) => (d, b) | None => ([], p) end.
Definition join_path (parts : list str) : str :=
  let ne := filter (fun p => match p with [] => false | _ => true end) parts in
  let rel := fold_left (fun acc p => match p with 47 :: _ => [p] | _ => acc ++ [p] end) ne [] in
  join [47] rel.
