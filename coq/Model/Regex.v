(* Python `re` semantics for the fragment mammoth uses: a priority-order backtracking matcher
   with a step counter (cost model).  Patterns are in a restricted normal form produced by the
   translator from re._parser.parse (fail-closed outside it). *)
From Mammoth Require Export Str.
From Mammoth Require Import Unicode.   (* Gen: re_space (category \s) *)
Local Open Scope N_scope.

(* character class.  CAny is `.` without DOTALL: anything except \n *)
Inductive cls :=
| CAny
| CSet (ranges : list (N * N)) (space : bool)      (* [..] with optional \s category *)
| CNot (ranges : list (N * N)) (space : bool).     (* [^..] / NOT_LITERAL *)

Definition in_ranges (c : N) (rs : list (N * N)) : bool :=
  existsb (fun r => N.leb (fst r) c && N.leb c (snd r)) rs.

Definition is_re_space (c : N) : bool := in_ranges c re_space.

Definition cls_match (k : cls) (c : N) : bool :=
  match k with
  | CAny => negb (N.eqb c 10)
  | CSet rs sp => in_ranges c rs || (sp && is_re_space c)
  | CNot rs sp => negb (in_ranges c rs || (sp && is_re_space c))
  end.

(* atoms; every alternative is a non-empty fixed sequence of classes *)
Inductive atom :=
| AAlt (alts : list (list cls))
| AStar (alts : list (list cls))
| APlus (alts : list (list cls))
| AOpt (alts : list (list cls)).
Definition rule := list atom.

Fixpoint match_seq (cs : list cls) (s : str) : option str :=
  match cs with
  | [] => Some s
  | k :: cs' => match s with
                | c :: s' => if cls_match k c then match_seq cs' s' else None
                | [] => None
                end
  end.

Definition res := (N * option str)%type.   (* steps, remainder after the first success *)

(* try the alternatives in priority order; the first whose continuation succeeds wins *)
Fixpoint try_alts (alts : list (list cls)) (k : str -> res) (s : str) : res :=
  match alts with
  | [] => (0, None)
  | a :: alts' =>
      match match_seq a s with
      | Some s' =>
          let (n, r) := k s' in
          match r with
          | Some _ => (n + 1, r)
          | None => let (m, r') := try_alts alts' k s in (n + m + 1, r')
          end
      | None => let (m, r') := try_alts alts' k s in (m + 1, r')
      end
  end.

(* greedy repetition: iterate first, fall back to the continuation *)
Fixpoint star_loop (fuel : nat) (alts : list (list cls)) (k : str -> res) (s : str) : res :=
  match fuel with
  | O => k s
  | S f =>
      let (n, r) := try_alts alts (star_loop f alts k) s in
      match r with
      | Some _ => (n, r)
      | None => let (m, r') := k s in (n + m, r')
      end
  end.

Definition m_atom (a : atom) (k : str -> res) (s : str) : res :=
  match a with
  | AAlt alts => try_alts alts k s
  | AStar alts => star_loop (length s) alts k s
  | APlus alts => try_alts alts (fun s' => star_loop (length s') alts k s') s
  | AOpt alts =>
      let (n, r) := try_alts alts k s in
      match r with Some _ => (n, r) | None => let (m, r') := k s in (n + m, r') end
  end.

Fixpoint m_atoms (r : rule) (k : str -> res) (s : str) : res :=
  match r with
  | [] => k s
  | a :: r' => m_atom a (m_atoms r' k) s
  end.

(* regex.match(value, index): steps and the remainder after the matched prefix *)
Definition bt_match (r : rule) (s : str) : res := m_atoms r (fun s' => (1, Some s')) s.

Definition re_match (r : rule) (s : str) : option str := snd (bt_match r s).
Definition re_steps (r : rule) (s : str) : N := fst (bt_match r s).

(* ---- determinism check (used by the complexity theorem) ----
   In every repeated alternation the alternatives' FIRST classes are pairwise disjoint, so at
   each position at most one alternative can start: no two ways to consume the same text. *)
Definition cls_disjoint_on (a b : cls) (probe : list N) : bool :=
  forallb (fun c => negb (cls_match a c && cls_match b c)) probe.

(* boundary probe: all endpoints of all ranges (+-1), the space table endpoints, 10, 0 and a big code point *)
Definition range_probes (rs : list (N * N)) : list N :=
  flat_map (fun r => [fst r - 1; fst r; fst r + 1; snd r - 1; snd r; snd r + 1]) rs.
Definition cls_probes (k : cls) : list N :=
  match k with
  | CAny => [9; 10; 11]
  | CSet rs sp | CNot rs sp => range_probes rs ++ (if sp then range_probes re_space else [])
  end.
Definition cls_disjoint (a b : cls) : bool :=
  cls_disjoint_on a b (0 :: 1114111 :: cls_probes a ++ cls_probes b).

Fixpoint pairwise {A} (f : A -> A -> bool) (l : list A) : bool :=
  match l with
  | [] => true
  | x :: l' => forallb (f x) l' && pairwise f l'
  end.

Definition first_cls (alt : list cls) : option cls := match alt with k :: _ => Some k | [] => None end.

Definition alts_det (alts : list (list cls)) : bool :=
  forallb (fun a => match a with [] => false | _ => true end) alts
  && pairwise (fun a b => match first_cls a, first_cls b with
                          | Some x, Some y => cls_disjoint x y
                          | _, _ => false
                          end) alts.

Definition atom_det (a : atom) : bool :=
  match a with
  | AAlt alts => forallb (fun a => match a with [] => false | _ => true end) alts
  | AStar alts | APlus alts | AOpt alts => alts_det alts
  end.
Definition rule_det (r : rule) : bool := forallb atom_det r.
