(* Model of mammoth/conversion.py (+ images.py, results.py): document tree -> HTML forest -> string *)
From Mammoth Require Export Documents Writer.
Local Open Scope N_scope.

(* ---------- matching (conversion._document_matcher_matches) ---------- *)
Inductive target :=
| TPara (sid sname : option str) (num : option numlevel)
| TRun (sid sname : option str)
| TTable (sid sname : option str)
| TBold | TItalic | TUnderline | TStrike | TAllCaps | TSmallCaps
| THighlight (color : str)
| TCommentRef
| TBreak (bt : str).

Definition sid_ok (m e : option str) : bool :=
  match m with None => true | Some i => match e with Some j => str_eqb i j | None => false end end.
Definition sname_ok (m : option smatch) (e : option str) : bool :=
  match m with None => true | Some sm => match e with Some n => smatch_matches sm n | None => false end end.
Definition num_ok (m e : option numlevel) : bool :=
  match m with None => true | Some l => match e with Some l' => level_eqb l l' | None => false end end.

Definition matches (m : matcher) (t : target) : bool :=
  match m, t with
  | MParagraph i n l, TPara ei en el => sid_ok i ei && sname_ok n en && num_ok l el
  | MRun i n, TRun ei en => sid_ok i ei && sname_ok n en
  | MTable i n, TTable ei en => sid_ok i ei && sname_ok n en
  | MBold, TBold | MItalic, TItalic | MUnderline, TUnderline | MStrike, TStrike
  | MAllCaps, TAllCaps | MSmallCaps, TSmallCaps | MCommentRef, TCommentRef => true
  | MHighlight c, THighlight ec => match c with None => true | Some x => str_eqb x ec end
  | MBreak b, TBreak eb => str_eqb b eb
  | _, _ => false
  end.

(* _find_style: the first style of the map whose matcher matches *)
Fixpoint find_style (sm : list style) (t : target) : option style :=
  match sm with
  | [] => None
  | s :: sm' => if matches (s_matcher s) t then Some s else find_style sm' t
  end.

(* ---------- converter state ---------- *)
Inductive img_conv :=
| ConvDataUri                      (* images.data_uri (default) *)
| ConvCounting (with_alt : bool)   (* harness family: reads the bytes; src = "img<k>.<subtype-ish>", data-len, optional alt *)
| ConvNoOpen                       (* harness family: never opens the image *)
| ConvFileWriter.                  (* cli.ImageWriter: copies the bytes to "<k>.<subtype>", src = that name *)

Record cstate := mkSt {
  st_msgs : list str;                       (* self._messages, in order of emission *)
  st_notes : list (str * str);              (* self._note_references *)
  st_comments : list (str * comment);       (* self._referenced_comments: (label, comment) *)
  st_imgs : N }.                            (* calls of the image converter so far *)

Record copts := mkOpts {
  o_style_map : list style;
  o_id_prefix : str;
  o_ignore_empty : bool;
  o_conv : img_conv }.

Definition add_msg (m : str) (st : cstate) : cstate :=
  mkSt (st_msgs st ++ [m]) (st_notes st) (st_comments st) (st_imgs st).

Definition M (A : Type) := cstate -> outcome (A * cstate).
Definition retM {A} (a : A) : M A := fun st => Ok (a, st).
Definition bindM {A B} (m : M A) (f : A -> M B) : M B :=
  fun st => match m st with Ok (a, st') => f a st' | LineError => LineError | Crash w => Crash w end.
Notation "x <~ e ;; k" := (bindM e (fun x => k)) (at level 61, e at next level, right associativity).

(* ---------- small pieces ---------- *)
Definition fresh_tag (name : str) : tag := mkTag name [] [] false None.
Definition coll_tag (name : str) (attrs : list (str * str)) : tag := mkTag name [] attrs true None.
Definition plain_tag (name : str) (attrs : list (str * str)) : tag := mkTag name [] attrs false None.

Definition html_id (o : copts) (suffix : str) : str := o_id_prefix o ++ suffix.
Definition referent_id (o : copts) (ty id : str) : str := html_id o (ty ++ [45] ++ id).
Definition reference_id (o : copts) (ty id : str) : str := html_id o (ty ++ [45;114;101;102;45] ++ id).

Definition fmt_opt (s : option str) : str := match s with Some x => x | None => [78;111;110;101] end.  (* "{0}".format(None) *)

Definition is_ignore (p : hpath) : bool := match p with PIgnore => true | _ => false end.
(* nested partial(path.wrap, nodes): paths listed innermost first *)
Definition apply_paths (paths : list hpath) (inner : list (node str)) : list (node str) :=
  fold_left (fun acc p => match p with PIgnore => [] | PElems l => wrap_elems l acc end) paths inner.

(* "Unrecognised {0} style: {1} (Style ID: {2})" *)
Definition unrecognised_msg (kind : str) (sname : option str) (sid : str) : str :=
  [85;110;114;101;99;111;103;110;105;115;101;100;32] ++ kind ++ [32;115;116;121;108;101;58;32]
  ++ fmt_opt sname ++ [32;40;83;116;121;108;101;32;73;68;58;32] ++ sid ++ [41].
Definition k_paragraph : str := [112;97;114;97;103;114;97;112;104].
Definition k_run : str := [114;117;110].

(* _find_html_path(element, type, default, warn_unrecognised) *)
Definition find_html_path (o : copts) (t : target) (default : hpath)
           (warn : option (str * option str * option str)) : M hpath :=
  fun st =>
    match find_style (o_style_map o) t with
    | Some s => Ok (s_path s, st)
    | None =>
        match warn with
        | Some (kind, Some sid, sname) => Ok (default, add_msg (unrecognised_msg kind sname sid) st)
        | _ => Ok (default, st)
        end
    end.

(* _find_style_for_run_property(type, default) *)
Definition prop_path (o : copts) (t : target) (default : option str) : hpath :=
  match find_style (o_style_map o) t with
  | Some s => s_path s
  | None => match default with Some d => PElems [coll_tag d []] | None => PElems [] end
  end.

(* ---------- base64 / data URI (images.data_uri) ---------- *)
Definition b64_char (n : N) : N :=
  if N.ltb n 26 then 65 + n else if N.ltb n 52 then 97 + (n - 26) else if N.ltb n 62 then 48 + (n - 52)
  else if N.eqb n 62 then 43 else 47.
Fixpoint b64 (bs : list N) : str :=
  match bs with
  | a :: b :: c :: r =>
      let n := a * 65536 + b * 256 + c in
      [b64_char (n / 262144); b64_char ((n / 4096) mod 64); b64_char ((n / 64) mod 64); b64_char (n mod 64)] ++ b64 r
  | [a; b] => let n := a * 65536 + b * 256 in
              [b64_char (n / 262144); b64_char ((n / 4096) mod 64); b64_char ((n / 64) mod 64); 61]
  | [a] => let n := a * 65536 in [b64_char (n / 262144); b64_char ((n / 4096) mod 64); 61; 61]
  | [] => []
  end.
Definition k_src : str := [115;114;99].
Definition k_alt : str := [97;108;116].
Definition data_uri (ctype : option str) (bytes : list N) : str :=
  [100;97;116;97;58] ++ fmt_opt ctype ++ [59;98;97;115;101;54;52;44] ++ b64 bytes.

(* content_type.partition("/")[2] *)
Definition subtype_of (ct : str) : str := match break_at 47 ct with Some (_, b) => b | None => [] end.

(* img_element(func)(image): alt first, then the converter's attributes override.
   Returns the attrs or the InvalidFileReferenceError message. *)
Definition conv_attrs (c : img_conv) (k : N) (alt ctype : option str) (src : img_src) : str + list (str * str) :=
  match c with
  | ConvDataUri =>
      match src with
      | ImgData bs => inr [(k_src, data_uri ctype bs)]
      | ImgError m => inl m
      end
  | ConvCounting with_alt =>
      match src with
      | ImgData bs =>
          inr ([([100;97;116;97;45;108;101;110], str_of_N (N.of_nat (length bs)));
                (k_src, [105;109;103] ++ str_of_N k ++ [46] ++ subtype_of (fmt_opt ctype))]
               ++ (if with_alt then [(k_alt, [99;117;115;116;111;109])] else []))
      | ImgError m => inl m
      end
  | ConvNoOpen => inr [(k_src, [110;111;45;111;112;101;110;45] ++ str_of_N k)]
  | ConvFileWriter =>
      match src with
      | ImgData _ => inr [(k_src, str_of_N k ++ [46] ++ subtype_of (fmt_opt ctype))]
      | ImgError m => inl m
      end
  end.

(* cli.ImageWriter advances its counter only after the image has been opened and copied; the
   harness's counting converters count at the start of the call *)
Definition counts_failed_calls (c : img_conv) : bool := match c with ConvFileWriter => false | _ => true end.

Definition truthy (s : option str) : bool := match s with Some (_ :: _) => true | _ => false end.

Definition visit_image (o : copts) (alt ctype : option str) (src : img_src) : M (list (node str)) :=
  fun st =>
    let k := st_imgs st + 1 in
    let st1 := mkSt (st_msgs st) (st_notes st) (st_comments st) k in
    match conv_attrs (o_conv o) k alt ctype src with
    | inl m => Ok ([], add_msg m (if counts_failed_calls (o_conv o) then st1 else st))
    | inr a =>
        let base := if truthy alt then [(k_alt, fmt_opt alt)] else [] in
        Ok ([Elem (plain_tag [105;109;103] (attrs_update base a)) []], st1)
    end.

(* ---------- the visitor ---------- *)
Definition up_arrow : str := [8593].
Definition note_ref_nodes (o : copts) (ty id : str) (number : N) : list (node str) :=
  [Elem (plain_tag [115;117;112] [])
     [Elem (plain_tag [97] (attrs_set [104;114;101;102] ([35] ++ referent_id o ty id)
                              (attrs_set [105;100] (reference_id o ty id) [])))
        [Text ([91] ++ str_of_N number ++ [93])]]].

Definition back_link (href : str) : node str :=
  Elem (coll_tag [112] [])
    [Text [32]; Elem (plain_tag [97] [([104;114;101;102], [35] ++ href)]) [Text up_arrow]].

Fixpoint find_comment (cid : str) (cs : list comment) (found : option comment) : option comment :=
  match cs with
  | [] => found
  | c :: cs' => find_comment cid cs' (if str_eqb (c_id c) cid then Some c else found)   (* dict(...): last wins *)
  end.
Fixpoint find_note (ty id : str) (ns : list note) (found : option note) : option note :=
  match ns with
  | [] => found
  | n :: ns' => find_note ty id ns' (if str_eqb (n_type n) ty && str_eqb (n_id n) id then Some n else found)
  end.

Definition s_line : str := [108;105;110;101].

Section Visit.
  Variable o : copts.
  Variable comments : list comment.

  Fixpoint visit (e : delem) (hdr : bool) {struct e} : M (list (node str)) :=
    let visit_all := (fix va (l : list delem) : M (list (node str)) :=
                        match l with
                        | [] => retM []
                        | c :: l' => a <~ visit c hdr ;; b <~ va l' ;; retM (a ++ b)
                        end) in
    let visit_all_h := (fun (h : bool) => fix va (l : list delem) : M (list (node str)) :=
                        match l with
                        | [] => retM []
                        | c :: l' => a <~ visit c h ;; b <~ va l' ;; retM (a ++ b)
                        end) in
    match e with
    | DText s => retM [Text s]
    | DTab => retM [Text [9]]
    | DParagraph cs sid sname num =>
        p <~ find_html_path o (TPara sid sname num) (PElems [fresh_tag [112]]) (Some (k_paragraph, sid, sname)) ;;
        match p with
        | PIgnore => retM []
        | PElems l =>
            content <~ visit_all cs ;;
            retM (wrap_elems l (if o_ignore_empty o then content else Force :: content))
        end
    | DRun cs sid sname bold italic underline strike allcaps smallcaps valign highlight =>
        let p_hl := match highlight with
                    | Some c => match find_style (o_style_map o) (THighlight c) with Some s => [s_path s] | None => [] end
                    | None => [] end in
        let p1 := p_hl
          ++ (if smallcaps then [prop_path o TSmallCaps None] else [])
          ++ (if allcaps then [prop_path o TAllCaps None] else [])
          ++ (if strike then [prop_path o TStrike (Some [115])] else [])
          ++ (if underline then [prop_path o TUnderline None] else [])
          ++ (if str_eqb valign s_subscript then [PElems [coll_tag [115;117;98] []]] else [])
          ++ (if str_eqb valign s_superscript then [PElems [coll_tag [115;117;112] []]] else [])
          ++ (if italic then [prop_path o TItalic (Some [101;109])] else [])
          ++ (if bold then [prop_path o TBold (Some [115;116;114;111;110;103])] else []) in
        rp <~ find_html_path o (TRun sid sname) (PElems []) (Some (k_run, sid, sname)) ;;
        let paths := p1 ++ [rp] in
        if existsb is_ignore paths then retM (apply_paths paths [])   (* children never generated *)
        else (content <~ visit_all cs ;; retM (apply_paths paths content))
    | DHyperlink cs target frame =>
        let href := match target with LHref h => h | LAnchor a => [35] ++ html_id o a end in
        let attrs := attrs_set [104;114;101;102] href [] in
        let attrs := match frame with Some f => attrs_set [116;97;114;103;101;116] f attrs | None => attrs end in
        content <~ visit_all cs ;;
        retM [Elem (coll_tag [97] attrs) content]
    | DCheckbox checked =>
        let attrs := attrs_set [116;121;112;101] [99;104;101;99;107;98;111;120] [] in
        let attrs := if checked then attrs_set [99;104;101;99;107;101;100] [99;104;101;99;107;101;100] attrs else attrs in
        retM [Elem (plain_tag [105;110;112;117;116] attrs) []]
    | DBookmark name => retM [Elem (coll_tag [97] [([105;100], html_id o name)]) [Force]]
    | DTable cs sid sname =>
        p <~ find_html_path o (TTable sid sname) (PElems [fresh_tag [116;97;98;108;101]]) None ;;
        match p with
        | PIgnore => retM []
        | PElems l =>
            (* body_index: the leading header rows are visited with is_table_header=True, the rest with False *)
            let is_head := fun c => match c with DTableRow _ true => true | _ => false end in
            hb <~ (fix vt (l : list delem) (inhead : bool) : M (list (node str) * list (node str)) :=
                     match l with
                     | [] => retM ([], [])
                     | c :: l' =>
                         let h := inhead && is_head c in
                         r <~ visit c h ;;
                         rest <~ vt l' h ;;
                         retM (if h then (r ++ fst rest, snd rest) else (fst rest, r ++ snd rest))
                     end) cs true ;;
            match cs with
            | c0 :: _ =>
                if is_head c0
                then retM (wrap_elems l [Force; Elem (plain_tag [116;104;101;97;100] []) (fst hb);
                                         Elem (plain_tag [116;98;111;100;121] []) (snd hb)])
                else retM (wrap_elems l (Force :: snd hb))
            | [] => retM (wrap_elems l [Force])
            end
        end
    | DTableRow cs _ =>
        content <~ visit_all cs ;;
        retM [Elem (plain_tag [116;114] []) (Force :: content)]
    | DTableCell cs colspan rowspan =>
        let name := if hdr then [116;104] else [116;100] in
        let attrs := if N.eqb colspan 1 then [] else attrs_set [99;111;108;115;112;97;110] (str_of_N colspan) [] in
        let attrs := if N.eqb rowspan 1 then attrs else attrs_set [114;111;119;115;112;97;110] (str_of_N rowspan) attrs in
        content <~ visit_all cs ;;
        retM [Elem (plain_tag name attrs) (Force :: content)]
    | DBreak bt =>
        match find_style (o_style_map o) (TBreak bt) with
        | Some s => retM (match s_path s with PIgnore => [] | PElems l => wrap_elems l [] end)
        | None => retM (if str_eqb bt s_line then [Elem (fresh_tag [98;114]) []] else [])
        end
    | DImage alt ctype src => visit_image o alt ctype src
    | DNoteRef ty id =>
        fun st =>
          let refs := st_notes st ++ [(ty, id)] in
          Ok (note_ref_nodes o ty id (N.of_nat (length refs)),
              mkSt (st_msgs st) refs (st_comments st) (st_imgs st))
    | DCommentRef cid =>
        match find_style (o_style_map o) TCommentRef with
        | None | Some {| s_path := PIgnore |} => retM []
        | Some {| s_path := PElems l |} =>
            fun st =>
              match find_comment cid comments None with
              | None => Crash 10                                   (* KeyError: self._comments[id] *)
              | Some c =>
                  let count := N.of_nat (length (st_comments st)) + 1 in
                  let label := [91] ++ (match c_initials c with Some i => i | None => [] end) ++ str_of_N count ++ [93] in
                  Ok (wrap_elems l
                        [Elem (plain_tag [97] (attrs_set [104;114;101;102] ([35] ++ referent_id o [99;111;109;109;101;110;116] cid)
                                                (attrs_set [105;100] (reference_id o [99;111;109;109;101;110;116] cid) [])))
                           [Text label]],
                      mkSt (st_msgs st) (st_notes st) (st_comments st ++ [(label, c)]) (st_imgs st))
              end
        end
    end.

  Fixpoint visit_list (l : list delem) (hdr : bool) : M (list (node str)) :=
    match l with
    | [] => retM []
    | c :: l' => a <~ visit c hdr ;; b <~ visit_list l' hdr ;; retM (a ++ b)
    end.

  (* visit_note *)
  Definition visit_note (n : note) : M (list (node str)) :=
    body <~ visit_list (n_body n) false ;;
    retM [Elem (plain_tag [108;105] [([105;100], referent_id o (n_type n) (n_id n))])
            (body ++ [back_link (reference_id o (n_type n) (n_id n))])].

  Fixpoint visit_notes (ns : list note) : M (list (node str)) :=
    match ns with
    | [] => retM []
    | n :: ns' => a <~ visit_note n ;; b <~ visit_notes ns' ;; retM (a ++ b)
    end.

  (* visit_comment((label, comment)) *)
  Definition k_comment : str := [99;111;109;109;101;110;116].
  Definition visit_comment (lc : str * comment) : M (list (node str)) :=
    let (label, c) := lc in
    body <~ visit_list (c_body c) false ;;
    retM [Elem (plain_tag [100;116] [([105;100], referent_id o k_comment (c_id c))])
            [Text ([67;111;109;109;101;110;116;32] ++ label)];
          Elem (plain_tag [100;100] []) (body ++ [back_link (reference_id o k_comment (c_id c))])].

  (* `for referenced_comment in self._referenced_comments` iterates a list that visit_comment may
     extend (a comment whose body refers to a comment); index i, fuel bounds a self-referential loop *)
  Fixpoint visit_comments (fuel : nat) (i : nat) : M (list (node str)) :=
    match fuel with
    | O => fun _ => Crash 11
    | S f => fun st =>
        match nth_error (st_comments st) i with
        | None => Ok ([], st)
        | Some lc => (a <~ visit_comment lc ;; b <~ visit_comments f (S i) ;; retM (a ++ b)) st
        end
    end.
End Visit.

Fixpoint resolve_notes (refs : list (str * str)) (ns : list note) : outcome (list note) :=
  match refs with
  | [] => Ok []
  | (ty, id) :: refs' =>
      match find_note ty id ns None with
      | None => Crash 12                                   (* KeyError in Notes.find_note *)
      | Some n => r <- resolve_notes refs' ns ;; Ok (n :: r)
      end
  end.

(* visit_document *)
Definition visit_document (o : copts) (d : document) : M (list (node str)) :=
  let cm := d_comments d in
  nodes <~ visit_list o cm (d_children d) false ;;
  fun st =>
    match resolve_notes (st_notes st) (d_notes d) with
    | Ok notes =>
        (nl <~ visit_notes o cm notes ;;
         cl <~ visit_comments o cm 1000 0 ;;
         retM (nodes ++ [Elem (plain_tag [111;108] []) nl; Elem (plain_tag [100;108] []) cl])) st
    | LineError => LineError
    | Crash w => Crash w
    end.

Definition init_state : cstate := mkSt [] [] [] 0.

(* convert_document_element_to_html(document, ...) with the HTML writer: (value, messages) *)
Definition convert_document_forest (o : copts) (d : document) : outcome (list (node str) * list str) :=
  match visit_document o d init_state with
  | Ok (nodes, st) => Ok (collapse (fun s => s) (strip_empty nodes), unique str_eqb (st_msgs st))
  | LineError => LineError
  | Crash w => Crash w
  end.

Definition convert_document_html (o : copts) (d : document) : outcome (str * list str) :=
  r <- convert_document_forest o d ;; Ok (write_html (fst r), snd r).
