(* Model of mammoth/html/nodes.py and mammoth/html/__init__.py (strip_empty, collapse). *)
From Mammoth Require Export Str.
From Mammoth Require Import HtmlTables.   (* Gen: void tag names, read from Element._VOID_TAG_NAMES *)
Local Open Scope N_scope.

(* Tag: tag_names is a non-empty list (tname = tag_names[0], talts = the rest);
   attributes is a dict, represented as an association list sorted by key, unique keys. *)
Record tag := mkTag {
  tname : str;
  talts : list str;
  tattrs : list (str * str);
  tcoll : bool;
  tsep : option str }.

Definition tnames (t : tag) : list str := tname t :: talts t.

Inductive node (A : Type) : Type :=
| Text (a : A)
| Elem (t : tag) (cs : list (node A))
| Force.
Arguments Text {A} a.
Arguments Elem {A} t cs.
Arguments Force {A}.

Definition attrs_eqb (a b : list (str * str)) : bool := list_eqb (pair_eqb str_eqb str_eqb) a b.

Definition tag_eqb (a b : tag) : bool :=
  str_eqb (tname a) (tname b) && list_eqb str_eqb (talts a) (talts b) && attrs_eqb (tattrs a) (tattrs b)
  && Bool.eqb (tcoll a) (tcoll b) && opt_eqb str_eqb (tsep a) (tsep b).

(* Element.is_void: `not self.children and self.tag_name in _VOID_TAG_NAMES` *)
Definition is_void {A} (t : tag) (cs : list (node A)) : bool :=
  match cs with [] => mem_str (tname t) void_tag_names | _ => false end.

(* ---------- strip_empty ---------- *)

Fixpoint strip_node (n : node str) : list (node str) :=
  match n with
  | Text [] => []
  | Text _ => [n]
  | Force => [n]
  | Elem t cs =>
      let cs' := flat_map strip_node cs in
      match cs' with
      | [] => if is_void t cs then [Elem t []] else []
      | _ => [Elem t cs']
      end
  end.
Definition strip_empty (ns : list (node str)) : list (node str) := flat_map strip_node ns.

(* ---------- collapse ---------- *)

(* _is_match(first, second): first.tag_name in second.tag_names and first.attributes == second.attributes *)
Definition is_match (f s : tag) : bool := mem_str (tname f) (tnames s) && attrs_eqb (tattrs f) (tattrs s).

Section Collapse.
  Context {A : Type} (mk : str -> A).

  (* `if node.separator: last.children.append(text(node.separator))` — None and "" are both falsy *)
  Definition sep_nodes (t : tag) : list (node A) :=
    match tsep t with Some (c :: s) => [Text (mk (c :: s))] | _ => [] end.

  (* Structural specification: add an already collapsed node to an accumulator. *)
  Fixpoint merge_into (acc : list (node A)) (cn : node A) {struct cn} : list (node A) :=
    match cn with
    | Elem nt ncs =>
        match unsnoc acc with
        | Some (init, Elem lt lcs) =>
            if tcoll nt && is_match lt nt
            then init ++ [Elem lt ((fix go (l a : list (node A)) {struct l} : list (node A) :=
                                      match l with [] => a | c :: l' => go l' (merge_into a c) end)
                                   ncs (lcs ++ sep_nodes nt))]
            else acc ++ [cn]
        | _ => acc ++ [cn]
        end
    | _ => acc ++ [cn]
    end.

  Definition merge_all (l a : list (node A)) : list (node A) := fold_left merge_into l a.

  Fixpoint collapse_node (n : node A) : node A :=
    match n with
    | Elem t cs => Elem t ((fix go (l a : list (node A)) {struct l} : list (node A) :=
                              match l with [] => a | c :: l' => go l' (merge_into a (collapse_node c)) end) cs [])
    | _ => n
    end.

  Definition collapse (ns : list (node A)) : list (node A) :=
    fold_left (fun a c => merge_into a (collapse_node c)) ns [].

  (* The code as written: _collapsing_add collapses the node it is given — including the
     children of an already collapsed node, which _try_collapse feeds back into it.  That
     recursion is not structural, so it runs on fuel; None = out of fuel. *)
  Fixpoint add_f (fuel : nat) (acc : list (node A)) (n : node A) {struct fuel} : option (list (node A)) :=
    match fuel with
    | O => None
    | S f =>
        (* collapsed_node = _collapse_node(node) *)
        let cn :=
          match n with
          | Elem t cs =>
              match fold_left (fun oa c => match oa with Some a => add_f f a c | None => None end) cs (Some []) with
              | Some cs' => Some (Elem t cs')
              | None => None
              end
          | _ => Some n
          end in
        match cn with
        | None => None
        | Some cn =>
            (* _try_collapse(collapsed, collapsed_node) *)
            match cn with
            | Elem nt ncs =>
                match unsnoc acc with
                | Some (init, Elem lt lcs) =>
                    if tcoll nt && is_match lt nt
                    then match fold_left (fun oa c => match oa with Some a => add_f f a c | None => None end)
                                         ncs (Some (lcs ++ sep_nodes nt)) with
                         | Some lcs' => Some (init ++ [Elem lt lcs'])
                         | None => None
                         end
                    else Some (acc ++ [cn])
                | _ => Some (acc ++ [cn])
                end
            | _ => Some (acc ++ [cn])
            end
        end
    end.

  Definition collapse_f (fuel : nat) (ns : list (node A)) : option (list (node A)) :=
    fold_left (fun oa c => match oa with Some a => add_f fuel a c | None => None end) ns (Some []).
End Collapse.

(* sizes, used for fuel *)
Fixpoint nsize {A} (n : node A) : nat :=
  match n with
  | Elem _ cs => S (fold_right (fun c a => nsize c + a)%nat O cs)
  | _ => 1%nat
  end.
Definition fsize {A} (ns : list (node A)) : nat := fold_right (fun c a => nsize c + a)%nat O ns.

Fixpoint node_eqb (n m : node str) : bool :=
  match n, m with
  | Text a, Text b => str_eqb a b
  | Force, Force => true
  | Elem t cs, Elem u ds =>
      tag_eqb t u && (fix go (l1 l2 : list (node str)) : bool :=
                        match l1, l2 with
                        | [], [] => true
                        | x :: l1', y :: l2' => node_eqb x y && go l1' l2'
                        | _, _ => false
                        end) cs ds
  | _, _ => false
  end.
Definition forest_eqb (a b : list (node str)) : bool := list_eqb node_eqb a b.
