(* Model of mammoth/styles/parser/tokeniser.py *)
From Mammoth Require Export Regex.
From Mammoth Require Import TokenRules.   (* Gen: token_rules : list (N * rule), read from the tokenise closure *)
Local Open Scope N_scope.

(* token types, numbered as in Gen/TokenRules.v:
   0 identifier 1 symbol 2 whitespace 3 string 4 unterminated string 5 integer 6 end 7 unknown *)
Definition T_IDENT := 0.
Definition T_SYMBOL := 1.
Definition T_WS := 2.
Definition T_STRING := 3.
Definition T_UNTERM := 4.
Definition T_INT := 5.
Definition T_END := 6.
Definition T_UNKNOWN := 7.

Record token := mkTok { ttype : N; tvalue : str }.

(* the prefix of s that was consumed to reach the suffix r *)
Definition consumed (s r : str) : str := firstn (length s - length r) s.

(* for token_type, regex in rules: match = regex.match(value, index); first match wins *)
Fixpoint first_rule (rules : list (N * rule)) (s : str) : option (N * str) :=
  match rules with
  | [] => None
  | (ty, r) :: rules' =>
      match re_match r s with
      | Some rest => Some (ty, rest)
      | None => first_rule rules' s
      end
  end.

(* while index < len(value): ...   fuel = len(value); an empty match would loop forever in
   Python: the model reports it as Crash 2.  No rule matching is `raise Exception`: Crash 1. *)
Fixpoint tokenise_fuel (fuel : nat) (s : str) : outcome (list token) :=
  match s with
  | [] => Ok [mkTok T_END []]
  | _ :: _ =>
      match fuel with
      | O => Crash 2
      | S f =>
          match first_rule token_rules s with
          | None => Crash 1
          | Some (ty, rest) =>
              if Nat.ltb (length rest) (length s)
              then ts <- tokenise_fuel f rest ;; Ok (mkTok ty (consumed s rest) :: ts)
              else Crash 2
          end
      end
  end.
Definition tokenise (s : str) : outcome (list token) := tokenise_fuel (length s) s.

(* total backtracking steps spent tokenising (cost model) *)
Fixpoint rule_steps (rules : list (N * rule)) (s : str) : N :=
  match rules with
  | [] => 0
  | (_, r) :: rules' =>
      match bt_match r s with
      | (n, Some _) => n
      | (n, None) => n + rule_steps rules' s
      end
  end.
Fixpoint tokenise_steps_fuel (fuel : nat) (s : str) : N :=
  match s, fuel with
  | [], _ => 0
  | _, O => 0
  | _ :: _, S f =>
      rule_steps token_rules s +
      match first_rule token_rules s with
      | Some (_, rest) => if Nat.ltb (length rest) (length s) then tokenise_steps_fuel f rest else 0
      | None => 0
      end
  end.
Definition tokenise_steps (s : str) : N := tokenise_steps_fuel (length s) s.
