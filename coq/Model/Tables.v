(* Model of body_xml.calculate_row_spans (the vMerge sweep), and the HTML table layout used to state C09. *)
From Mammoth Require Export Str.
Local Open Scope N_scope.

(* a cell as read from w:tc: gridSpan, vMerge-continuation flag, and an identity *)
Record icell := IC { ic_span : N; ic_cont : bool; ic_id : N }.
Record ocell := OC { oc_id : N; oc_colspan : N; oc_rowspan : N }.

Fixpoint alist_get (k : N) (d : list (N * N)) : option N :=
  match d with [] => None | (k', v) :: d' => if N.eqb k k' then Some v else alist_get k d' end.
Fixpoint alist_set (k v : N) (d : list (N * N)) : list (N * N) :=
  match d with
  | [] => [(k, v)]
  | (k', v') :: d' => if N.eqb k k' then (k, v) :: d' else (k', v') :: alist_set k v d'
  end.
Definition alist_bump (k : N) (d : list (N * N)) : list (N * N) :=
  match alist_get k d with Some v => alist_set k (v + 1) d | None => d end.

(* for cell in row.children: if cell._vmerge and cell_index in columns: columns[cell_index].rowspan += 1
   else: columns[cell_index] = cell; cell._vmerge = False.   columns: grid column -> owning cell id;
   spans: cell id -> rowspan.  Returns the cells that stay (their _vmerge ended False). *)
Fixpoint sweep_row (cells : list icell) (col : N) (columns spans : list (N * N))
  : list (N * N) * list (N * N) * list icell :=
  match cells with
  | [] => (columns, spans, [])
  | c :: cs =>
      match (if ic_cont c then alist_get col columns else None) with
      | Some owner =>
          sweep_row cs (col + ic_span c) columns (alist_bump owner spans)
      | None =>
          let '(cols', spans', kept) := sweep_row cs (col + ic_span c) (alist_set col (ic_id c) columns)
                                                 (alist_set (ic_id c) 1 spans) in
          (cols', spans', c :: kept)
      end
  end.

Fixpoint sweep_rows (rows : list (list icell)) (columns spans : list (N * N))
  : list (N * N) * list (list icell) :=
  match rows with
  | [] => (spans, [])
  | r :: rows' =>
      let '(cols', spans', kept) := sweep_row r 0 columns spans in
      let (spans'', rest) := sweep_rows rows' cols' spans' in
      (spans'', kept :: rest)
  end.

Definition row_spans (rows : list (list icell)) : list (list ocell) :=
  let (spans, kept) := sweep_rows rows [] [] in
  map (map (fun c => OC (ic_id c) (ic_span c) (match alist_get (ic_id c) spans with Some v => v | None => 1 end))) kept.

(* ---------- HTML table layout (the forming-a-table algorithm, restricted to what is needed) ----------
   carry: for each grid column, (rows still covered from above, owner).  A cell goes to the first
   column that is free; it covers colspan columns (all must be free and inside the table) for
   rowspan rows.  Result: for every row, the owner of every column (None = gap). *)
Fixpoint place (carry : list (N * N)) (cells : list ocell) (pend pid prs : N)
  : option (list (option N) * list (N * N)) :=
  (* walks the grid columns left to right; pend = columns the current cell still has to cover *)
  match carry with
  | [] => if N.eqb pend 0 then match cells with [] => Some ([], []) | _ => None end   (* a cell overflows the table *)
          else None
  | (lft, owner) :: carry' =>
      if N.ltb 0 pend then
        if N.eqb lft 0
        then match place carry' cells (pend - 1) pid prs with
             | Some (g, c') => Some (Some pid :: g, (prs - 1, pid) :: c')
             | None => None
             end
        else None                                                       (* overlap with a row-span from above *)
      else if N.ltb 0 lft then
        match place carry' cells 0 0 0 with
        | Some (g, c') => Some (Some owner :: g, (lft - 1, owner) :: c')
        | None => None
        end
      else
        match cells with
        | [] => match place carry' [] 0 0 0 with
                | Some (g, c') => Some (None :: g, (0, 0) :: c')         (* gap *)
                | None => None
                end
        | c :: cells' =>
            if N.ltb 0 (oc_colspan c) && N.ltb 0 (oc_rowspan c)
            then match place carry' cells' (oc_colspan c - 1) (oc_id c) (oc_rowspan c) with
                 | Some (g, c') => Some (Some (oc_id c) :: g, (oc_rowspan c - 1, oc_id c) :: c')
                 | None => None
                 end
            else None
        end
  end.

Fixpoint layout (rows : list (list ocell)) (carry : list (N * N)) : option (list (list (option N))) :=
  match rows with
  | [] => Some []
  | r :: rows' =>
      match place carry r 0 0 0 with
      | Some (g, carry') => match layout rows' carry' with Some gs => Some (g :: gs) | None => None end
      | None => None
      end
  end.
Definition html_layout (W : nat) (rows : list (list ocell)) : option (list (list (option N))) :=
  layout rows (repeat (0, 0) W).

(* ---------- what the document says ----------
   a cell covers ic_span columns; a continuation cell belongs to whatever owns the position
   directly above its first column *)
Fixpoint doc_row (cells : list icell) (above : list (option N)) : list (option N) :=
  match cells with
  | [] => []
  | c :: cs =>
      let w := N.to_nat (ic_span c) in
      let owner := if ic_cont c then match above with o :: _ => o | [] => Some (ic_id c) end else Some (ic_id c) in
      repeat owner w ++ doc_row cs (skipn w above)
  end.
Fixpoint doc_grid (rows : list (list icell)) (above : list (option N)) : list (list (option N)) :=
  match rows with
  | [] => []
  | r :: rows' => let g := doc_row r above in g :: doc_grid rows' g
  end.

(* well-formed tiling encoding: every row is W wide with positive spans; a continuation cell has,
   in the previous row, a cell starting at the same column with the same span (`starts`: the
   (start column, span) pairs of the previous row); the first row has no continuation; ids distinct *)
Fixpoint row_starts (cells : list icell) (col : N) : list (N * N) :=
  match cells with [] => [] | c :: cs => (col, ic_span c) :: row_starts cs (col + ic_span c) end.
Fixpoint row_width (cells : list icell) : N :=
  match cells with [] => 0 | c :: cs => ic_span c + row_width cs end.
Fixpoint wf_row (cells : list icell) (col : N) (prev : list (N * N)) : bool :=
  match cells with
  | [] => true
  | c :: cs =>
      N.ltb 0 (ic_span c)
      && (if ic_cont c then existsb (fun p => N.eqb (fst p) col && N.eqb (snd p) (ic_span c)) prev else true)
      && wf_row cs (col + ic_span c) prev
  end.
Fixpoint wf_rows (W : N) (rows : list (list icell)) (prev : list (N * N)) : bool :=
  match rows with
  | [] => true
  | r :: rows' => N.eqb (row_width r) W && wf_row r 0 prev && wf_rows W rows' (row_starts r 0)
  end.
Fixpoint nodup_N (l : list N) : bool :=
  match l with [] => true | x :: l' => negb (existsb (N.eqb x) l') && nodup_N l' end.
Definition wf_tiling (W : N) (rows : list (list icell)) : bool :=
  wf_rows W rows [] && nodup_N (map ic_id (concat rows)).
