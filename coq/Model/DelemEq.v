(* Boolean equality on document elements (used by the correspondence checks). *)
From Mammoth Require Export Documents.
Local Open Scope N_scope.

Definition img_src_eqb (a b : img_src) : bool :=
  match a, b with
  | ImgData x, ImgData y => list_eqb N.eqb x y
  | ImgError x, ImgError y => str_eqb x y
  | _, _ => false
  end.
Definition target_eqb (a b : link_target) : bool :=
  match a, b with LHref x, LHref y | LAnchor x, LAnchor y => str_eqb x y | _, _ => false end.
Fixpoint delem_eqb (a b : delem) {struct a} : bool :=
  let all := (fix go (l1 l2 : list delem) : bool :=
                match l1, l2 with
                | [], [] => true
                | x :: l1', y :: l2' => delem_eqb x y && go l1' l2'
                | _, _ => false
                end) in
  match a, b with
  | DParagraph cs i n l, DParagraph cs' i' n' l' => all cs cs' && opt_eqb str_eqb i i' && opt_eqb str_eqb n n' && opt_eqb level_eqb l l'
  | DRun cs i n b1 b2 b3 b4 b5 b6 v h, DRun cs' i' n' c1 c2 c3 c4 c5 c6 v' h' =>
      all cs cs' && opt_eqb str_eqb i i' && opt_eqb str_eqb n n' && Bool.eqb b1 c1 && Bool.eqb b2 c2 && Bool.eqb b3 c3
      && Bool.eqb b4 c4 && Bool.eqb b5 c5 && Bool.eqb b6 c6 && str_eqb v v' && opt_eqb str_eqb h h'
  | DText s, DText s' => str_eqb s s'
  | DHyperlink cs t f, DHyperlink cs' t' f' => all cs cs' && target_eqb t t' && opt_eqb str_eqb f f'
  | DCheckbox c, DCheckbox c' => Bool.eqb c c'
  | DTable cs i n, DTable cs' i' n' => all cs cs' && opt_eqb str_eqb i i' && opt_eqb str_eqb n n'
  | DTableRow cs h, DTableRow cs' h' => all cs cs' && Bool.eqb h h'
  | DTableCell cs c r, DTableCell cs' c' r' => all cs cs' && N.eqb c c' && N.eqb r r'
  | DBreak t, DBreak t' => str_eqb t t'
  | DTab, DTab => true
  | DImage a c s, DImage a' c' s' => opt_eqb str_eqb a a' && opt_eqb str_eqb c c' && img_src_eqb s s'
  | DBookmark n, DBookmark n' => str_eqb n n'
  | DNoteRef t i, DNoteRef t' i' => str_eqb t t' && str_eqb i i'
  | DCommentRef i, DCommentRef i' => str_eqb i i'
  | _, _ => false
  end.
