(* Model of mammoth/writers/html.py and the _NodeWriter of mammoth/html/__init__.py *)
From Mammoth Require Export Html.
From Mammoth Require Import Escape.   (* Gen: escape_table read from _escape_html *)
Local Open Scope N_scope.

Fixpoint lookup_N {B} (c : N) (t : list (N * B)) : option B :=
  match t with
  | [] => None
  | (k, v) :: t' => if N.eqb c k then Some v else lookup_N c t'
  end.

Definition escape_char (c : N) : str :=
  match lookup_N c escape_table with Some r => r | None => [c] end.

(* xml.sax.saxutils.escape applies str.replace per special character; on the generated
   table (no image contains a later-replaced character except via '&' which goes first)
   this is the character-wise map.  Compared with the implementation on every run. *)
Definition escape (s : str) : str := flat_map escape_char s.

(* ' key="value"' for key in sorted(attributes) — attrs are kept sorted by key *)
Definition attr_string (attrs : list (str * str)) : str :=
  flat_map (fun kv => [32] ++ fst kv ++ [61; 34] ++ escape (snd kv) ++ [34]) attrs.

Fixpoint write_node (n : node str) : str :=
  match n with
  | Text s => escape s
  | Force => []
  | Elem t cs =>
      if is_void t cs
      then [60] ++ tname t ++ attr_string (tattrs t) ++ [32; 47; 62]
      else [60] ++ tname t ++ attr_string (tattrs t) ++ [62]
           ++ flat_map write_node cs
           ++ [60; 47] ++ tname t ++ [62]
  end.
Definition write_html (ns : list (node str)) : str := flat_map write_node ns.

(* text content of a forest *)
Fixpoint node_text (n : node str) : str :=
  match n with
  | Text s => s
  | Force => []
  | Elem _ cs => flat_map node_text cs
  end.
Definition forest_text (ns : list (node str)) : str := flat_map node_text ns.
