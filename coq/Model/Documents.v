(* Model of mammoth/documents.py: the document element tree the converter walks.
   Fields the converter never reads (alignment, indent, font, font_size) are not modelled. *)
From Mammoth Require Export Styles.
Local Open Scope N_scope.

Inductive img_src :=
| ImgData (bytes : list N)        (* open() yields these bytes *)
| ImgError (msg : str).           (* open() raises InvalidFileReferenceError(msg) *)

Inductive link_target := LHref (h : str) | LAnchor (a : str).

Inductive delem :=
| DParagraph (cs : list delem) (sid sname : option str) (num : option numlevel)
| DRun (cs : list delem) (sid sname : option str)
       (bold italic underline strike allcaps smallcaps : bool) (valign : str) (highlight : option str)
| DText (s : str)
| DHyperlink (cs : list delem) (target : link_target) (frame : option str)
| DCheckbox (checked : bool)
| DTable (cs : list delem) (sid sname : option str)
| DTableRow (cs : list delem) (is_header : bool)
| DTableCell (cs : list delem) (colspan rowspan : N)
| DBreak (bt : str)
| DTab
| DImage (alt : option str) (ctype : option str) (src : img_src)
| DBookmark (name : str)
| DNoteRef (ntype nid : str)
| DCommentRef (cid : str).

Record note := mkNote { n_type : str; n_id : str; n_body : list delem }.
Record comment := mkComment { c_id : str; c_body : list delem; c_author : option str; c_initials : option str }.
Record document := mkDoc { d_children : list delem; d_notes : list note; d_comments : list comment }.

Definition s_baseline : str := [98;97;115;101;108;105;110;101].
Definition s_superscript : str := [115;117;112;101;114;115;99;114;105;112;116].
Definition s_subscript : str := [115;117;98;115;99;114;105;112;116].
