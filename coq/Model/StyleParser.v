(* Model of mammoth/styles/parser: token_iterator.py, token_parser.py, document_matcher_parser.py,
   html_path_parser.py, style_mapping_parser.py, __init__.py (read_style_mapping). *)
From Mammoth Require Export Tokeniser Styles.
From Mammoth Require Import Unicode.
Local Open Scope N_scope.

(* TokenIterator: the remaining tokens.  tokens[index] past the end is IndexError -> Crash 3 *)
Definition toks := list token.
Definition P (A : Type) := toks -> outcome (A * toks).
Definition ret {A} (a : A) : P A := fun ts => Ok (a, ts).
Definition bindP {A B} (p : P A) (f : A -> P B) : P B :=
  fun ts => match p ts with Ok (a, ts') => f a ts' | LineError => LineError | Crash w => Crash w end.
Notation "x <-- e ;;; k" := (bindP e (fun x => k)) (at level 61, e at next level, right associativity).
Definition failP {A} : P A := fun _ => LineError.

Definition tok_is (ty : N) (v : option str) (t : token) : bool :=
  N.eqb (ttype t) ty && match v with None => true | Some x => str_eqb (tvalue t) x end.

(* is_next *)
Definition is_next (ty : N) (v : option str) : P bool :=
  fun ts => match ts with t :: _ => Ok (tok_is ty v t, ts) | [] => Crash 3 end.
(* try_skip *)
Definition try_skip (ty : N) (v : option str) : P bool :=
  fun ts => match ts with
            | t :: ts' => if tok_is ty v t then Ok (true, ts') else Ok (false, ts)
            | [] => Crash 3 end.
(* skip *)
Definition skip (ty : N) (v : option str) : P unit :=
  fun ts => match ts with
            | t :: ts' => if tok_is ty v t then Ok (tt, ts') else LineError
            | [] => Crash 3 end.
(* next_value(token_type) *)
Definition next_value (ty : option N) : P str :=
  fun ts => match ts with
            | t :: ts' => match ty with
                          | None => Ok (tvalue t, ts')
                          | Some y => if N.eqb (ttype t) y then Ok (tvalue t, ts') else LineError
                          end
            | [] => Crash 3 end.
Definition peek_type : P N :=
  fun ts => match ts with t :: _ => Ok (ttype t, ts) | [] => Crash 3 end.
(* try_skip_many: all or nothing *)
Fixpoint try_skip_many_aux (pats : list (N * option str)) (ts : toks) : outcome (option toks) :=
  match pats with
  | [] => Ok (Some ts)
  | (ty, v) :: pats' =>
      match ts with
      | t :: ts' => if tok_is ty v t then try_skip_many_aux pats' ts' else Ok None
      | [] => Crash 3
      end
  end.
Definition try_skip_many (pats : list (N * option str)) : P bool :=
  fun ts => match try_skip_many_aux pats ts with
            | Ok (Some ts') => Ok (true, ts')
            | Ok None => Ok (false, ts)
            | LineError => LineError
            | Crash w => Crash w
            end.

(* ---- token_parser.py ---- *)
(* _ESCAPE_SEQUENCE_REGEX.sub: backslash + any char except newline *)
Fixpoint decode_escapes (s : str) : str :=
  match s with
  | [] => []
  | c :: r =>
      if N.eqb c 92 then
        match r with
        | [] => [c]
        | d :: r' =>
            if N.eqb d 10 then c :: decode_escapes r
            else (if N.eqb d 110 then 10 else if N.eqb d 114 then 13 else if N.eqb d 116 then 9 else d) :: decode_escapes r'
        end
      else c :: decode_escapes r
  end.

Definition parse_identifier : P str := v <-- next_value (Some T_IDENT) ;;; ret (decode_escapes v).
(* value[1:-1] *)
Definition strip_quotes (v : str) : str := removelast (tl v).
Definition parse_string : P str := v <-- next_value (Some T_STRING) ;;; ret (decode_escapes (strip_quotes v)).
Definition try_parse_class_name : P (option str) :=
  b <-- try_skip T_SYMBOL (Some [46]) ;;; if b then (i <-- parse_identifier ;;; ret (Some i)) else ret None.

(* ---- document_matcher_parser.py ---- *)
Definition s_style_name : str := [115;116;121;108;101;45;110;97;109;101].
Definition parse_string_matcher : P smatch :=
  b <-- try_skip T_SYMBOL (Some [61]) ;;;
  if b then (v <-- parse_string ;;; ret (SEq v))
  else b2 <-- try_skip T_SYMBOL (Some [94;61]) ;;;
       if b2 then (v <-- parse_string ;;; ret (SPrefix v))
       else (_ <-- next_value None ;;; failP).   (* raise LineParseError(... tokens.next_value()) *)

Definition parse_style_name : P (option smatch) :=
  b <-- try_skip T_SYMBOL (Some [91]) ;;;
  if b then
    _ <-- skip T_IDENT (Some s_style_name) ;;;
    m <-- parse_string_matcher ;;;
    _ <-- skip T_SYMBOL (Some [93]) ;;;
    ret (Some m)
  else ret None.

Definition s_ordered_list : str := [111;114;100;101;114;101;100;45;108;105;115;116].
Definition s_unordered_list : str := [117;110;111;114;100;101;114;101;100;45;108;105;115;116].
Definition parse_list_type : P bool :=
  v <-- next_value (Some T_IDENT) ;;;
  if str_eqb v s_ordered_list then ret true
  else if str_eqb v s_unordered_list then ret false
  else failP.

(* _parse_level: int(digits) - 1, rendered by str(): "-1" for 0.  int() of more than
   int_max_str_digits digits raises ValueError, which _parse_level turns into LineParseError *)
Definition level_string (digits : str) : outcome str :=
  if N.ltb int_max_str_digits (N.of_nat (length digits)) then LineError
  else let n := N_of_digits digits in
       Ok (if N.eqb n 0 then [45; 49] else str_of_N (n - 1)).

Definition parse_numbering : P (option numlevel) :=
  b <-- try_skip T_SYMBOL (Some [58]) ;;;
  if b then
    o <-- parse_list_type ;;;
    _ <-- skip T_SYMBOL (Some [40]) ;;;
    d <-- next_value (Some T_INT) ;;;
    (fun ts => match level_string d with
               | Ok l => (_ <-- skip T_SYMBOL (Some [41]) ;;; ret (Some (mkLevel l o))) ts
               | LineError => LineError
               | Crash w => Crash w
               end)
  else ret None.

Definition s_color : str := [99;111;108;111;114].
Definition parse_highlight : P matcher :=
  b <-- try_skip T_SYMBOL (Some [91]) ;;;
  if b then
    _ <-- skip T_IDENT (Some s_color) ;;;
    _ <-- skip T_SYMBOL (Some [61]) ;;;
    c <-- parse_string ;;;
    _ <-- skip T_SYMBOL (Some [93]) ;;;
    ret (MHighlight (Some c))
  else ret (MHighlight None).

Definition s_type : str := [116;121;112;101].
Definition s_line : str := [108;105;110;101].
Definition s_page : str := [112;97;103;101].
Definition s_column : str := [99;111;108;117;109;110].
Definition parse_break : P matcher :=
  _ <-- skip T_SYMBOL (Some [91]) ;;;
  _ <-- skip T_IDENT (Some s_type) ;;;
  _ <-- skip T_SYMBOL (Some [61]) ;;;
  t <-- parse_string ;;;
  _ <-- skip T_SYMBOL (Some [93]) ;;;
  if str_eqb t s_line then ret (MBreak s_line)
  else if str_eqb t s_page then ret (MBreak s_page)
  else if str_eqb t s_column then ret (MBreak s_column)
  else failP.

Definition kw_p : str := [112].
Definition kw_r : str := [114].
Definition kw_table : str := [116;97;98;108;101].
Definition kw_b : str := [98].
Definition kw_i : str := [105].
Definition kw_u : str := [117].
Definition kw_strike : str := [115;116;114;105;107;101].
Definition kw_all_caps : str := [97;108;108;45;99;97;112;115].
Definition kw_small_caps : str := [115;109;97;108;108;45;99;97;112;115].
Definition kw_highlight : str := [104;105;103;104;108;105;103;104;116].
Definition kw_comment_reference : str := [99;111;109;109;101;110;116;45;114;101;102;101;114;101;110;99;101].
Definition kw_br : str := [98;114].

Definition parse_document_matcher : P matcher :=
  b <-- try_skip T_IDENT (Some kw_p) ;;;
  if b then (i <-- try_parse_class_name ;;; n <-- parse_style_name ;;; l <-- parse_numbering ;;; ret (MParagraph i n l)) else
  b <-- try_skip T_IDENT (Some kw_r) ;;;
  if b then (i <-- try_parse_class_name ;;; n <-- parse_style_name ;;; ret (MRun i n)) else
  b <-- try_skip T_IDENT (Some kw_table) ;;;
  if b then (i <-- try_parse_class_name ;;; n <-- parse_style_name ;;; ret (MTable i n)) else
  b <-- try_skip T_IDENT (Some kw_b) ;;; if b then ret MBold else
  b <-- try_skip T_IDENT (Some kw_i) ;;; if b then ret MItalic else
  b <-- try_skip T_IDENT (Some kw_u) ;;; if b then ret MUnderline else
  b <-- try_skip T_IDENT (Some kw_strike) ;;; if b then ret MStrike else
  b <-- try_skip T_IDENT (Some kw_all_caps) ;;; if b then ret MAllCaps else
  b <-- try_skip T_IDENT (Some kw_small_caps) ;;; if b then ret MSmallCaps else
  b <-- try_skip T_IDENT (Some kw_highlight) ;;; if b then parse_highlight else
  b <-- try_skip T_IDENT (Some kw_comment_reference) ;;; if b then ret MCommentRef else
  b <-- try_skip T_IDENT (Some kw_br) ;;; if b then parse_break else
  (_ <-- next_value (Some T_IDENT) ;;; failP).

(* ---- html_path_parser.py ---- *)
Definition s_class : str := [99;108;97;115;115].
Definition s_fresh : str := [102;114;101;115;104].
Definition s_separator : str := [115;101;112;97;114;97;116;111;114].

(* _parse_tag_names: identifier ('|' identifier)*   — fuel: each round consumes two tokens *)
Fixpoint parse_more_tag_names (fuel : nat) (acc : list str) : P (list str) :=
  match fuel with
  | O => fun _ => Crash 5
  | S f =>
      b <-- try_skip T_SYMBOL (Some [124]) ;;;
      if b then (i <-- parse_identifier ;;; parse_more_tag_names f (acc ++ [i])) else ret acc
  end.
Definition parse_tag_names : P (list str) :=
  fun ts => (i <-- parse_identifier ;;; parse_more_tag_names (length ts) [i]) ts.

(* _AttributeOrClassName(name, value, append) *)
Definition parse_attribute : P (str * str * bool) :=
  _ <-- skip T_SYMBOL (Some [91]) ;;;
  n <-- parse_identifier ;;;
  _ <-- skip T_SYMBOL (Some [61]) ;;;
  v <-- parse_string ;;;
  _ <-- skip T_SYMBOL (Some [93]) ;;;
  ret (n, v, false).
Definition parse_class_name : P (str * str * bool) :=
  _ <-- skip T_SYMBOL (Some [46]) ;;;
  c <-- parse_identifier ;;;
  ret (s_class, c, true).

Fixpoint parse_attr_or_class_names (fuel : nat) (acc : list (str * str * bool)) : P (list (str * str * bool)) :=
  match fuel with
  | O => fun _ => Crash 5
  | S f =>
      b <-- is_next T_SYMBOL (Some [91]) ;;;
      if b then (a <-- parse_attribute ;;; parse_attr_or_class_names f (acc ++ [a])) else
      b2 <-- is_next T_SYMBOL (Some [46]) ;;;
      if b2 then (a <-- parse_class_name ;;; parse_attr_or_class_names f (acc ++ [a])) else
      ret acc
  end.

(* the loop in _parse_element that builds the attributes dict *)
Definition add_attr (d : list (str * str)) (a : str * str * bool) : list (str * str) :=
  let '(n, v, app) := a in
  match (if app then attrs_get n d else None) with
  | Some (c :: old) => attrs_set n ((c :: old) ++ [32] ++ v) d     (* attributes.get(name) truthy *)
  | _ => attrs_set n v d
  end.

Definition parse_is_fresh : P bool := try_skip_many [(T_SYMBOL, Some [58]); (T_IDENT, Some s_fresh)].
Definition parse_separator : P (option str) :=
  b <-- try_skip_many [(T_SYMBOL, Some [58]); (T_IDENT, Some s_separator)] ;;;
  if b then
    _ <-- skip T_SYMBOL (Some [40]) ;;;
    v <-- parse_string ;;;
    _ <-- skip T_SYMBOL (Some [41]) ;;;
    ret (Some v)
  else ret None.

(* html_paths.element(names, attributes, fresh, separator): html.tag(names, attrs, collapsible = not fresh, separator) *)
Definition mk_path_tag (names : list str) (attrs : list (str * str)) (fresh : bool) (sep : option str) : tag :=
  mkTag (hd [] names) (tl names) attrs (negb fresh) sep.

Definition parse_element : P tag :=
  fun ts =>
    (names <-- parse_tag_names ;;;
     al <-- (fun ts' => parse_attr_or_class_names (length ts') [] ts') ;;;
     fresh <-- parse_is_fresh ;;;
     sep <-- parse_separator ;;;
     ret (mk_path_tag names (fold_left add_attr al []) fresh sep)) ts.

Fixpoint parse_more_elements (fuel : nat) (acc : list tag) : P (list tag) :=
  match fuel with
  | O => fun _ => Crash 5
  | S f =>
      b <-- try_skip_many [(T_WS, None); (T_SYMBOL, Some [62])] ;;;
      if b then (_ <-- skip T_WS None ;;; e <-- parse_element ;;; parse_more_elements f (acc ++ [e])) else ret acc
  end.

Definition parse_html_path_elements : P (list tag) :=
  fun ts =>
    (ty <-- peek_type ;;;
     if N.eqb ty T_IDENT then (e <-- parse_element ;;; parse_more_elements (length ts) [e]) else ret []) ts.

Definition parse_html_path : P hpath :=
  b <-- try_skip T_SYMBOL (Some [33]) ;;;
  if b then ret PIgnore else (l <-- parse_html_path_elements ;;; ret (PElems l)).

(* ---- style_mapping_parser.py ---- *)
Definition parse_style_mapping : P style :=
  m <-- parse_document_matcher ;;;
  _ <-- skip T_WS None ;;;
  _ <-- skip T_SYMBOL (Some [61;62]) ;;;
  _ <-- try_skip T_WS None ;;;
  p <-- parse_html_path ;;;
  _ <-- skip T_END None ;;;
  ret (mkStyle m p).

(* read_style_mapping(string): tokenise + parse; LineParseError becomes a warning *)
Definition read_style_mapping (line : str) : outcome (option style) :=
  match tokenise line with
  | Ok ts => match parse_style_mapping ts with
             | Ok (st, _) => Ok (Some st)
             | LineError => Ok None
             | Crash w => Crash w
             end
  | LineError => Ok None
  | Crash w => Crash w
  end.
