(* Model of mammoth/options.py: _read_style_map, read_options (style-map part), results.Result plumbing *)
From Mammoth Require Export StyleParser.
From Mammoth Require Import Unicode DefaultStyleMap.
Local Open Scope N_scope.

Definition is_strip_space (c : N) : bool := in_ranges c strip_space.
Definition py_strip (s : str) : str := strip_with is_strip_space s.

(* _get_line + filter(None, ...): stripped, non-empty, not starting with '#' *)
Definition get_line (l : str) : option str :=
  let l' := py_strip l in
  match l' with
  | [] => None
  | c :: _ => if N.eqb c 35 then None else Some l'
  end.
Fixpoint filter_map {A B} (f : A -> option B) (l : list A) : list B :=
  match l with
  | [] => []
  | x :: l' => match f x with Some y => y :: filter_map f l' | None => filter_map f l' end
  end.
Definition style_map_lines (text : str) : list str := filter_map get_line (split_on 10 text).

Definition warn_prefix : str :=
  [68;105;100;32;110;111;116;32;117;110;100;101;114;115;116;97;110;100;32;116;104;105;115;32;115;116;121;108;101;32;109;97;112;112;105;110;103;44;32;115;111;32;105;103;110;111;114;101;100;32;105;116;58;32].

(* results.combine(map(read_style_mapping, lines)).map(filter(None)) : (styles, unique messages) *)
Fixpoint read_lines (ls : list str) : outcome (list style * list str) :=
  match ls with
  | [] => Ok ([], [])
  | l :: ls' =>
      r <- read_style_mapping l ;;
      rest <- read_lines ls' ;;
      match r with
      | Some st => Ok (st :: fst rest, snd rest)
      | None => Ok (fst rest, (warn_prefix ++ l) :: snd rest)
      end
  end.
Definition read_style_map (text : str) : outcome (list style * list str) :=
  r <- read_lines (style_map_lines text) ;; Ok (fst r, unique str_eqb (snd r)).

(* read_options: custom ++ embedded (++ default), messages of both, unique *)
Definition read_options_style_map (custom embedded : str) (include_default : bool)
  : outcome (list style * list str) :=
  c <- read_style_map custom ;;
  e <- read_style_map embedded ;;
  Ok (fst c ++ fst e ++ (if include_default then default_style_map else []),
      unique str_eqb (snd c ++ snd e)).
