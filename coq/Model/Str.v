(* Strings as lists of Unicode code points, and the few Python str operations the model needs. *)
From Coq Require Export List NArith Bool.
Export ListNotations.
Local Open Scope N_scope.

Definition str := list N.

Fixpoint str_eqb (a b : str) : bool :=
  match a, b with
  | [], [] => true
  | x :: a', y :: b' => N.eqb x y && str_eqb a' b'
  | _, _ => false
  end.

(* Python's str < on code points *)
Fixpoint str_ltb (a b : str) : bool :=
  match a, b with
  | [], [] => false
  | [], _ :: _ => true
  | _ :: _, [] => false
  | x :: a', y :: b' => if N.ltb x y then true else if N.eqb x y then str_ltb a' b' else false
  end.

Definition opt_eqb {A} (eqb : A -> A -> bool) (a b : option A) : bool :=
  match a, b with
  | None, None => true
  | Some x, Some y => eqb x y
  | _, _ => false
  end.

Fixpoint list_eqb {A} (eqb : A -> A -> bool) (a b : list A) : bool :=
  match a, b with
  | [], [] => true
  | x :: a', y :: b' => eqb x y && list_eqb eqb a' b'
  | _, _ => false
  end.

Definition pair_eqb {A B} (ea : A -> A -> bool) (eb : B -> B -> bool) (p q : A * B) : bool :=
  ea (fst p) (fst q) && eb (snd p) (snd q).

Definition mem_str (s : str) (l : list str) : bool := existsb (str_eqb s) l.

Fixpoint starts_with (p s : str) : bool :=
  match p, s with
  | [], _ => true
  | x :: p', y :: s' => N.eqb x y && starts_with p' s'
  | _ :: _, [] => false
  end.

Fixpoint unsnoc {A} (l : list A) : option (list A * A) :=
  match l with
  | [] => None
  | x :: l' => match unsnoc l' with
               | None => Some ([], x)
               | Some (i, y) => Some (x :: i, y)
               end
  end.

(* str.split(sep) for a one-character separator *)
Fixpoint split_on_aux (c : N) (s : str) (cur : str) : list str :=
  match s with
  | [] => [rev cur]
  | x :: s' => if N.eqb x c then rev cur :: split_on_aux c s' [] else split_on_aux c s' (x :: cur)
  end.
Definition split_on (c : N) (s : str) : list str := split_on_aux c s [].

Fixpoint drop_while (f : N -> bool) (s : str) : str :=
  match s with
  | [] => []
  | x :: s' => if f x then drop_while f s' else s
  end.

Definition strip_with (f : N -> bool) (s : str) : str :=
  rev (drop_while f (rev (drop_while f s))).

Definition lstrip_char (c : N) (s : str) : str := drop_while (N.eqb c) s.

(* s.find(c) : index of first c, as a split *)
Fixpoint break_at (c : N) (s : str) : option (str * str) :=
  match s with
  | [] => None
  | x :: s' => if N.eqb x c then Some ([], s')
               else match break_at c s' with
                    | Some (a, b) => Some (x :: a, b)
                    | None => None
                    end
  end.

(* s.rpartition(c)[2] : the part after the last c, or the whole string *)
Fixpoint after_last (c : N) (s : str) : str :=
  match s with
  | [] => []
  | x :: s' => if N.eqb x c
               then (if existsb (N.eqb c) s' then after_last c s' else s')
               else (if existsb (N.eqb c) s' then after_last c s' else s)
  end.

Fixpoint join (sep : str) (l : list str) : str :=
  match l with
  | [] => []
  | [x] => x
  | x :: l' => x ++ sep ++ join sep l'
  end.

(* decimal rendering of a natural number, str(n) *)
Fixpoint dec_digits (fuel : nat) (n : N) (acc : str) : str :=
  match fuel with
  | O => acc
  | S f => let d := 48 + N.modulo n 10 in
           let q := N.div n 10 in
           if N.eqb q 0 then d :: acc else dec_digits f q (d :: acc)
  end.
Definition str_of_N (n : N) : str := dec_digits (S (N.to_nat (N.log2 n))) n [].

Definition is_digit (c : N) : bool := N.leb 48 c && N.leb c 57.

(* int(s) for a string of ASCII digits (the only way the model calls it) *)
Definition N_of_digits (s : str) : N := fold_left (fun a c => a * 10 + (c - 48)) s 0.

(* the unique-preserving-order list operation of mammoth.lists.unique *)
Fixpoint unique_aux {A} (eqb : A -> A -> bool) (seen : list A) (l : list A) : list A :=
  match l with
  | [] => []
  | x :: l' => if existsb (eqb x) seen then unique_aux eqb seen l'
               else x :: unique_aux eqb (x :: seen) l'
  end.
Definition unique {A} (eqb : A -> A -> bool) (l : list A) : list A := unique_aux eqb [] l.

(* outcome of a Python computation: every partial operation is visible *)
Inductive outcome (A : Type) : Type :=
| Ok (a : A)
| LineError            (* LineParseError: caught by read_style_mapping *)
| Crash (why : N).     (* any other exception escaping the public API *)
Arguments Ok {A} a.
Arguments LineError {A}.
Arguments Crash {A} why.

Definition obind {A B} (x : outcome A) (f : A -> outcome B) : outcome B :=
  match x with Ok a => f a | LineError => LineError | Crash w => Crash w end.
Notation "x <- e ;; k" := (obind e (fun x => k)) (at level 61, e at next level, right associativity).
