(* GENERATED from ListsFacts.v.in by tools/strlit.py — edit the .in file *)
(* C08 — PROOF that the collapsed forest of consecutive default-style-map paragraph blocks has exactly the
   events of the stack machine of ListsSpec.
   Invariant ([spine st F E]): after a prefix of the blocks, with machine stack [st], the collapsed forest [F]
   ends in a chain  list > li > list > li > ...  of the types in [st] (outermost first), the innermost li's
   children do not end in a ul / ol element, and [E] is the event sequence of [F] with that chain left open:
   fevents F = E ++ closes st.
   [116;101;120;116] literals are expanded by tools/strlit.py. *)
From Mammoth Require Import Html Styles MiscSpec ListsSpec HtmlCollapseSpec HtmlCollapse StrFacts.
From Coq Require Import Lia.
Local Open Scope N_scope.

Local Notation C := (collapse idm).

(* ---------- events ---------- *)

Lemma fevents_app (a b : list (node str)) : fevents (a ++ b) = fevents a ++ fevents b.
Proof. unfold fevents. apply flat_map_app. Qed.

Lemma fevents_one t (cs : list (node str)) :
  fevents [Elem t cs] = EOpen (tname t) :: fevents cs ++ [EClose (tname t)].
Proof. unfold fevents. cbn [flat_map events]. rewrite app_nil_r. reflexivity. Qed.

Lemma closes_cons o l : closes (o :: l) = closes l ++ [EClose [108;105]; EClose (lname o)].
Proof. unfold closes. cbn [rev]. rewrite flat_map_app. reflexivity. Qed.

Ltac norm := repeat (rewrite <- app_assoc || rewrite <- app_comm_cons); cbn [app].

(* ---------- the node of a list item at depth S n ---------- *)

Fixpoint inode (n : nat) (o : bool) (c : list (node str)) : node str :=
  match n with
  | O => Elem (list_tag o) [Elem li_fresh c]
  | S n' => Elem ulol [Elem li_open [inode n' o c]]
  end.

Lemma block_nodes_item n o c : block_nodes (BItem (S n) o c) = [inode n o c].
Proof.
  unfold block_nodes, wrap_elems. induction n as [|n IH].
  - reflexivity.
  - change (list_path (S (S n)) o) with (ulol :: li_open :: list_path (S n) o).
    cbn [fold_right]. rewrite IH. reflexivity.
Qed.

Lemma collapse_single (x : node str) : C [x] = [collapse_node idm x].
Proof. unfold collapse. cbn [fold_left]. destruct (collapse_node idm x); reflexivity. Qed.

Lemma collapse_inode n o c : collapse_node idm (inode n o c) = inode n o (C c).
Proof.
  induction n as [|n IH]; cbn [inode].
  - rewrite collapse_node_Elem, collapse_single, collapse_node_Elem. reflexivity.
  - rewrite collapse_node_Elem, collapse_single, collapse_node_Elem, collapse_single, IH. reflexivity.
Qed.

(* ---------- content: no top-level ul / ol, before and after collapsing ---------- *)

Definition notail (F : list (node str)) : Prop :=
  forall init t cs, F = init ++ [Elem t cs] -> is_list_name (tname t) = false.

Lemma content_ok_app a b : content_ok (a ++ b) = content_ok a && content_ok b.
Proof. unfold content_ok. apply forallb_app. Qed.

Lemma merge_into_content_ok acc cn :
  content_ok acc = true -> content_ok [cn] = true -> content_ok (merge_into idm acc cn) = true.
Proof.
  intros Ha Hc. destruct cn as [a|nt ncs|].
  - rewrite merge_into_Text, content_ok_app, Ha. exact Hc.
  - rewrite merge_into_Elem.
    destruct (unsnoc acc) as [[init [a|lt lcs|]]|] eqn:Hu; try (rewrite content_ok_app, Ha; exact Hc).
    destruct (tcoll nt && is_match lt nt); try (rewrite content_ok_app, Ha; exact Hc).
    apply unsnoc_Some in Hu. subst acc. rewrite content_ok_app in Ha |- *. exact Ha.
  - rewrite merge_into_Force, content_ok_app, Ha. exact Hc.
Qed.

Lemma collapse_content_ok c : content_ok c = true -> content_ok (C c) = true.
Proof.
  rewrite collapse_unfold.
  assert (G : forall l acc, content_ok acc = true -> content_ok l = true ->
                            content_ok (fold_left (cstep idm) l acc) = true).
  { induction l as [|x l IH]; intros acc Ha Hl; cbn [fold_left].
    - exact Ha.
    - change (x :: l) with ([x] ++ l) in Hl. rewrite content_ok_app in Hl.
      apply andb_true_iff in Hl. destruct Hl as [Hx Hl].
      apply IH; [|exact Hl]. unfold cstep. apply merge_into_content_ok; [exact Ha|].
      destruct x as [a|t cs|]; exact Hx. }
  intros H. apply G; [reflexivity | exact H].
Qed.

Lemma content_ok_notail F : content_ok F = true -> notail F.
Proof.
  intros H init t cs ->. rewrite content_ok_app in H. apply andb_true_iff in H. destruct H as [_ H].
  unfold content_ok in H. cbn [forallb] in H. rewrite andb_true_r in H. apply negb_true_iff in H. exact H.
Qed.

(* ---------- the invariant ---------- *)

Fixpoint spine (st : list bool) (F : list (node str)) (E : list ev) : Prop :=
  match st with
  | [] => notail F /\ E = fevents F
  | o :: rest =>
      exists init t lis lt cs Ecs,
        F = init ++ [Elem t (lis ++ [Elem lt cs])]
        /\ tname t = lname o /\ tattrs t = []
        /\ tname lt = [108;105] /\ tattrs lt = []
        /\ spine rest cs Ecs
        /\ E = fevents init ++ EOpen (lname o) :: fevents lis ++ EOpen [108;105] :: Ecs
  end.

Lemma spine_events st : forall F E, spine st F E -> fevents F = E ++ closes st.
Proof.
  induction st as [|o rest IH]; intros F E H.
  - destruct H as [_ ->]. unfold closes. cbn [rev flat_map]. rewrite app_nil_r. reflexivity.
  - destruct H as (init & t & lis & lt & cs & Ecs & -> & Ht & _ & Hlt & _ & Hs & ->).
    apply IH in Hs.
    rewrite fevents_app, fevents_one, fevents_app, fevents_one, Ht, Hlt, Hs, closes_cons.
    norm. reflexivity.
Qed.

(* ---------- a list element is not merged into anything that is not called ul / ol ---------- *)

Lemma merge_notail F n o cc : notail F -> merge_into idm F (inode n o cc) = F ++ [inode n o cc].
Proof.
  intros HF. apply merge_into_refuse. intros init l ->.
  destruct l as [a|lt lcs|]; [reflexivity| |reflexivity].
  specialize (HF _ _ _ eq_refl).
  assert (Hm : forall nt, (forall s, In s (tnames nt) -> is_list_name s = true) -> is_match lt nt = false).
  { intros nt Hn. destruct (is_match lt nt) eqn:Hm; [|reflexivity].
    apply is_match_iff in Hm. destruct Hm as [Hin _]. apply Hn in Hin. congruence. }
  destruct n as [|n]; cbn [inode]; unfold mergeable; rewrite Hm; try apply andb_false_r.
  - intros s [<-|[]]. destruct o; reflexivity.
  - intros s [<-|[<-|[]]]; reflexivity.
Qed.

(* ---------- a freshly appended item ---------- *)

Lemma fresh_spine o cc : notail cc -> forall n init,
  spine (repeat false n ++ [o]) (init ++ [inode n o cc])
        (fevents init ++ opens (repeat false n ++ [o]) ++ fevents cc).
Proof.
  intros Hcc. induction n as [|n IH]; intros init; cbn [repeat app inode].
  - exists init, (list_tag o), [], li_fresh, cc, (fevents cc).
    split; [reflexivity|]. split; [destruct o; reflexivity|]. split; [reflexivity|].
    split; [reflexivity|]. split; [reflexivity|]. split; [split; [exact Hcc|reflexivity]|].
    reflexivity.
  - exists init, ulol, [], li_open, [inode n o cc], (opens (repeat false n ++ [o]) ++ fevents cc).
    split; [reflexivity|]. split; [reflexivity|]. split; [reflexivity|].
    split; [reflexivity|]. split; [reflexivity|]. split; [exact (IH [])|].
    reflexivity.
Qed.

(* ---------- the stack machine's step, by recursion on the stack ---------- *)

Definition kof (st : list bool) (d : nat) (o : bool) : nat :=
  if Nat.leb d (length st) then (if Bool.eqb (nth (d - 1) st false) o then d else (d - 1)%nat) else length st.

Lemma step_item st d o c :
  step st (BItem d o c) =
  let k := kof st d o in
  if Nat.eqb k d
  then (closes (skipn k st) ++ [EClose [108;105]; EOpen [108;105]] ++ content_events c, firstn k st)
  else (closes (skipn k st) ++ opens (repeat false (d - k - 1) ++ [o]) ++ content_events c,
        firstn k st ++ repeat false (d - k - 1) ++ [o]).
Proof. reflexivity. Qed.

Lemma step_nil n o c :
  step [] (BItem (S n) o c) = (opens (repeat false n ++ [o]) ++ content_events c, repeat false n ++ [o]).
Proof.
  rewrite step_item. change (kof [] (S n) o) with O. cbv zeta. cbn [Nat.eqb skipn firstn].
  replace (S n - 0 - 1)%nat with n by lia. reflexivity.
Qed.

Lemma step_one o1 rest o c :
  step (o1 :: rest) (BItem 1 o c) =
  if Bool.eqb o1 o
  then (closes rest ++ [EClose [108;105]; EOpen [108;105]] ++ content_events c, [o1])
  else (closes (o1 :: rest) ++ opens [o] ++ content_events c, [o]).
Proof.
  rewrite step_item. unfold kof. cbn [length Nat.leb Nat.sub nth].
  destruct (Bool.eqb o1 o); reflexivity.
Qed.

Lemma kof_cons o1 rest n o : kof (o1 :: rest) (S (S n)) o = S (kof rest (S n) o).
Proof.
  unfold kof. change (length (o1 :: rest)) with (S (length rest)).
  change (Nat.leb (S (S n)) (S (length rest))) with (Nat.leb (S n) (length rest)).
  replace (S (S n) - 1)%nat with (S n) by lia. replace (S n - 1)%nat with n by lia. cbn [nth].
  destruct (Nat.leb (S n) (length rest)); [|reflexivity].
  destruct (Bool.eqb (nth n rest false) o); reflexivity.
Qed.

Lemma step_deep o1 rest n o c :
  step (o1 :: rest) (BItem (S (S n)) o c) =
  (fst (step rest (BItem (S n) o c)), o1 :: snd (step rest (BItem (S n) o c))).
Proof.
  rewrite !step_item, kof_cons. cbv zeta. set (k := kof rest (S n) o).
  cbn [Nat.eqb skipn firstn]. replace (S (S n) - S k - 1)%nat with (S n - k - 1)%nat by lia.
  destruct (Nat.eqb k (S n)); reflexivity.
Qed.

(* ---------- one block ---------- *)

Lemma plain_step t c st F E :
  tcoll t = false -> is_list_name (tname t) = false -> spine st F E ->
  spine [] (merge_into idm F (Elem t (C c)))
        (E ++ closes st ++ [EOpen (tname t)] ++ content_events c ++ [EClose (tname t)]).
Proof.
  intros Ht Hn Hs. rewrite merge_into_refuse.
  2:{ intros i l _. destruct l; unfold mergeable; rewrite ?Ht; reflexivity. }
  split.
  - intros i t' cs' Heq. apply app_inj_tail in Heq. destruct Heq as [_ Heq].
    injection Heq as <- _. exact Hn.
  - rewrite fevents_app, fevents_one, (spine_events _ _ _ Hs). unfold content_events. norm. reflexivity.
Qed.

Lemma item_step n : forall o c st F E,
  content_ok c = true -> spine st F E ->
  spine (snd (step st (BItem (S n) o c))) (merge_into idm F (inode n o (C c)))
        (E ++ fst (step st (BItem (S n) o c))).
Proof.
  assert (Hnil : forall n o c F E, content_ok c = true -> spine [] F E ->
            spine (snd (step [] (BItem (S n) o c))) (merge_into idm F (inode n o (C c)))
                  (E ++ fst (step [] (BItem (S n) o c)))).
  { intros n' o c F E Hc [HF ->]. rewrite step_nil. cbn [fst snd]. rewrite merge_notail by exact HF.
    apply fresh_spine. apply content_ok_notail, collapse_content_ok, Hc. }
  induction n as [|n IHn]; intros o c st F E Hc Hs; (destruct st as [|o1 rest]; [apply Hnil; assumption|]).
  - assert (Hcc : notail (C c)) by (apply content_ok_notail, collapse_content_ok, Hc).
    pose proof (spine_events _ _ _ Hs) as HE.
    rewrite step_one. destruct (Bool.eqb o1 o) eqn:Ho; cbn [fst snd].
    + apply eqb_prop in Ho. subst o1.
      destruct Hs as (init & t & lis & lt & cs & Ecs & -> & Ht & Ha & Hlt & Hla & Hs & ->).
      cbn [inode]. rewrite merge_into_merge.
      2:{ unfold is_match, tnames. rewrite Ht, Ha. destruct o; reflexivity. }
      change (sep_nodes idm (list_tag o)) with (@nil (node str)). rewrite app_nil_r.
      cbn [merge_all fold_left].
      rewrite (merge_into_refuse idm (lis ++ [Elem lt cs]) (Elem li_fresh (C c)))
        by (intros i l _; destruct l; reflexivity).
      exists init, t, (lis ++ [Elem lt cs]), li_fresh, (C c), (fevents (C c)).
      split; [reflexivity|]. split; [exact Ht|]. split; [exact Ha|].
      split; [reflexivity|]. split; [reflexivity|]. split; [split; [exact Hcc|reflexivity]|].
      rewrite fevents_app, fevents_one, Hlt, (spine_events _ _ _ Hs). unfold content_events.
      norm. reflexivity.
    + rewrite merge_into_refuse.
      2:{ destruct Hs as (init & t & lis & lt & cs & Ecs & -> & Ht & Ha & _).
          intros i l Heq. apply app_inj_tail in Heq. destruct Heq as [_ <-].
          cbn [inode]. unfold mergeable, is_match, tnames. rewrite Ht.
          destruct o1, o; try discriminate Ho; reflexivity. }
      rewrite app_assoc, <- HE. exact (fresh_spine o (C c) Hcc O F).
  - rewrite step_deep. cbn [fst snd].
    destruct Hs as (init & t & lis & lt & cs & Ecs & -> & Ht & Ha & Hlt & Hla & Hs & ->).
    cbn [inode]. rewrite merge_into_merge.
    2:{ unfold is_match, tnames. rewrite Ht, Ha. destruct o1; reflexivity. }
    change (sep_nodes idm ulol) with (@nil (node str)). rewrite app_nil_r.
    cbn [merge_all fold_left]. rewrite merge_into_merge.
    2:{ unfold is_match, tnames. rewrite Hlt, Hla. reflexivity. }
    change (sep_nodes idm li_open) with (@nil (node str)). rewrite app_nil_r.
    cbn [merge_all fold_left].
    exists init, t, lis, lt, (merge_into idm cs (inode n o (C c))), (Ecs ++ fst (step rest (BItem (S n) o c))).
    split; [reflexivity|]. split; [exact Ht|]. split; [exact Ha|].
    split; [exact Hlt|]. split; [exact Hla|]. split; [apply IHn; assumption|].
    norm. reflexivity.
Qed.

(* ---------- all blocks ---------- *)

Lemma run_main bs : forall st F E,
  forallb block_ok bs = true -> spine st F E ->
  fevents (fold_left (cstep idm) (flat_map block_nodes bs) F) = E ++ run_blocks st bs.
Proof.
  induction bs as [|b bs IH]; intros st F E Hok Hs.
  - cbn [flat_map fold_left run_blocks]. apply spine_events. exact Hs.
  - cbn [forallb] in Hok. apply andb_true_iff in Hok. destruct Hok as [Hb Hok].
    cbn [flat_map run_blocks]. rewrite fold_left_app.
    destruct (step st b) as [e st'] eqn:Hstep. rewrite app_assoc. apply IH; [exact Hok|].
    destruct b as [t c|d o c].
    + cbn [block_nodes fold_left]. unfold cstep. rewrite collapse_node_Elem.
      cbn [step] in Hstep. injection Hstep as <- <-.
      cbn [block_ok] in Hb. apply andb_true_iff in Hb. destruct Hb as [Hb1 Hb2].
      apply negb_true_iff in Hb1, Hb2. apply plain_step; assumption.
    + cbn [block_ok] in Hb. apply andb_true_iff in Hb. destruct Hb as [Hd Hc].
      destruct d as [|n]; [discriminate Hd|].
      rewrite block_nodes_item. cbn [fold_left]. unfold cstep. rewrite collapse_inode.
      pose proof (item_step n o c st F E Hc Hs) as G. rewrite Hstep in G. exact G.
Qed.

(* consecutive paragraph blocks of the default style map nest exactly as the stack machine says:
   an item at depth d sits inside d lists, continues the open list of its own type at that depth or opens a new one,
   implicit intermediate levels are bulleted lists with an empty item, any non-list block closes every open list *)
Theorem default_lists_nest (bs : list block) :
  forallb block_ok bs = true ->
  fevents (collapse (fun s => s) (flat_map block_nodes bs)) = spec_events bs.
Proof.
  intros Hok. unfold spec_events. change (fun s : str => s) with idm. rewrite collapse_unfold.
  rewrite (run_main bs [] [] [] Hok); [reflexivity|].
  split; [|reflexivity]. intros i t cs Heq. destruct i; discriminate Heq.
Qed.

Print Assumptions default_lists_nest.
