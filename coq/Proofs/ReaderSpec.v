(* GENERATED from ReaderSpec.v.in by tools/strlit.py — edit the .in file *)
(* Definitions used to STATE the reader / DOM theorems (C13, C10, C11, C16, C05). *)
From Mammoth Require Import Api Dom ReaderTables.
Local Open Scope N_scope.

(* the shape of the first instruction regex: \s* HYPERLINK_"  ( k* )  "   *)
Definition lit_of (a : atom) : option N :=
  match a with
  | AAlt [[CSet [(x, y)] false]] => if N.eqb x y then Some x else None
  | _ => None
  end.
Fixpoint lits_of (r : rule) : option str :=
  match r with
  | [] => Some []
  | a :: r' => match lit_of a, lits_of r' with Some c, Some s => Some (c :: s) | _, _ => None end
  end.
Definition href_shape (r : rule * rule * rule) : option (cls * str * cls) :=
  match r with
  | (AStar [[wsk]] :: lits, [AStar [[k]]], [q]) =>
      match lits_of lits, lit_of q with
      | Some (c :: s), Some 34 => if cls_match wsk c || cls_match k 34 then None else Some (wsk, c :: s, k)
      | _, _ => None
      end
  | _ => None
  end.

(* every crash the model can report when converting, by cause (numbers are the model's Crash codes):
   30 31 w:style without styleId/type · 32 w:lvl without ilvl · 33 w:num without abstractNumId value ·
   35 cyclic numStyleLink · 36 37 relationship / content-type entry without its required attributes ·
   50 unbalanced w:fldChar · 51 52 55 non-numeric w:sym char / gridSpan · 53 unresolved relationship id ·
   54 image part missing from the package · 57 reference or note/comment without w:id ·
   60 61 62 63 64 not XML / missing entry / no main document / no body / style map not text ·
   10 12 comment / note id that does not resolve · 11 self-referential comments
   (59, the reader model's fuel running out, is NOT a cause: Proofs/FuelFacts body_read_all_fuel) *)
Definition domain_codes : list N :=
  [30; 31; 32; 33; 35; 36; 37; 50; 51; 52; 53; 54; 55; 57; 60; 61; 62; 63; 64; 10; 11; 12].
