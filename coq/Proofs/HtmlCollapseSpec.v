(* Definitions used to STATE the collapse theorems (no proofs here). *)
From Mammoth Require Import Html.
From Coq Require Import Relations.
Local Open Scope N_scope.

Section Defs.
  Context {A : Type}.

  (* the three conditions of the property, for a pair (earlier sibling, later sibling) *)
  Definition mergeable (l n : node A) : bool :=
    match l, n with
    | Elem lt _, Elem nt _ => tcoll nt && is_match lt nt
    | _, _ => false
    end.

  (* normal form: no adjacent mergeable pair at any depth *)
  Fixpoint nf_node (n : node A) : bool :=
    match n with
    | Elem _ cs =>
        (fix go (l : list (node A)) : bool :=
           match l with
           | [] => true
           | x :: l' => nf_node x && match l' with y :: _ => negb (mergeable x y) | [] => true end && go l'
           end) cs
    | _ => true
    end.
  Fixpoint nf_forest (l : list (node A)) : bool :=
    match l with
    | [] => true
    | x :: l' => nf_node x && match l' with y :: _ => negb (mergeable x y) | [] => true end && nf_forest l'
    end.

  (* leaves with their ancestor chains (outermost first) *)
  Inductive leaf := LText (a : A) | LForce.
  Fixpoint leaves_node (anc : list tag) (n : node A) : list (list tag * leaf) :=
    match n with
    | Text a => [(anc, LText a)]
    | Force => [(anc, LForce)]
    | Elem t cs => flat_map (leaves_node (anc ++ [t])) cs
    end.
  Definition leaves (ns : list (node A)) : list (list tag * leaf) := flat_map (leaves_node []) ns.

  Fixpoint no_sep_node (n : node A) : bool :=
    match n with
    | Elem t cs => match tsep t with Some (_ :: _) => false | _ => true end && forallb no_sep_node cs
    | _ => true
    end.
End Defs.

(* legal match steps, closed reflexively and transitively *)
Definition match_step (l n : tag) : Prop := is_match l n = true.
Definition match_star : tag -> tag -> Prop := clos_refl_trans tag match_step.

(* original leaves are inl, separator leaves are inr *)
Definition is_orig {B C} (p : list tag * @leaf (B + C)) : bool :=
  match snd p with LText (inr _) => false | _ => true end.
Fixpoint all_inl {B C} (n : node (B + C)) : bool :=
  match n with
  | Text (inl _) => true
  | Text (inr _) => false
  | Force => true
  | Elem _ cs => forallb all_inl cs
  end.
