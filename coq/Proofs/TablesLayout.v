(* HTML layout of the specified cells reproduces the document grid on well-formed tilings. *)
From Mammoth Require Import Tables TablesSpec.
From Coq Require Import Lia.
Local Open Scope N_scope.
Local Arguments N.add : simpl never.
Local Arguments N.sub : simpl never.
Local Arguments N.ltb : simpl never.
Local Arguments N.eqb : simpl never.

(* the grid columns col, col+1, ..., col+n-1 *)
Fixpoint Ncols (col : N) (n : nat) : list N :=
  match n with O => [] | S n' => col :: Ncols (col + 1) n' end.

Lemma Ncols_length col n : length (Ncols col n) = n.
Proof. revert col. induction n as [|n IH]; simpl; intros col; auto. Qed.

Lemma Ncols_app col a b : Ncols col (a + b) = Ncols col a ++ Ncols (col + N.of_nat a) b.
Proof.
  revert col. induction a as [|a IH]; intros col.
  - simpl. f_equal. lia.
  - change (S a + b)%nat with (S (a + b)). simpl Ncols. simpl app. f_equal. rewrite IH. do 2 f_equal. lia.
Qed.

Lemma In_Ncols col n j : In j (Ncols col n) -> col <= j < col + N.of_nat n.
Proof.
  revert col. induction n as [|n IH]; simpl; intros col H; [contradiction|].
  destruct H as [H|H]; [lia|]. apply IH in H. lia.
Qed.

Lemma map_const_repeat {A B} (f : A -> B) v (l : list A) :
  (forall j, In j l -> f j = v) -> map f l = repeat v (length l).
Proof.
  induction l as [|x l IH]; simpl; intros H; auto. rewrite H by auto. f_equal. apply IH. auto.
Qed.

Lemma map_const_repeat_n {A B} (f : A -> B) v (l : list A) n :
  length l = n -> (forall j, In j l -> f j = v) -> map f l = repeat v n.
Proof. intros <-. apply map_const_repeat. Qed.

Lemma skipn_app_exact {A} (l1 l2 : list A) n : n = length l1 -> skipn n (l1 ++ l2) = l2.
Proof. intros ->. induction l1; simpl; auto. Qed.

(* ---------- place ---------- *)
Lemma place_pend0 carry cells pid prs : place carry cells 0 pid prs = place carry cells 0 0 0.
Proof. destruct carry as [|[lft o] carry]; reflexivity. Qed.

Lemma place_covered seg : forall rest cells,
  Forall (fun p => 0 < fst p) seg ->
  place (seg ++ rest) cells 0 0 0 =
  match place rest cells 0 0 0 with
  | Some (g, c') => Some (map (fun p => Some (snd p)) seg ++ g, map (fun p => (fst p - 1, snd p)) seg ++ c')
  | None => None
  end.
Proof.
  induction seg as [|[lft o] seg IH]; intros rest cells HF.
  - simpl. destruct (place rest cells 0 0 0) as [[g c']|]; auto.
  - inversion HF as [|? ? Hl HF']; subst. simpl in Hl.
    cbn [place app map fst snd]. rewrite N.ltb_irrefl.
    assert (N.ltb 0 lft = true) as -> by (now apply N.ltb_lt).
    rewrite (IH rest cells HF').
    destruct (place rest cells 0 0 0) as [[g c']|]; auto.
Qed.

Lemma place_pending seg : forall rest cells pid prs,
  Forall (fun p => fst p = 0) seg ->
  place (seg ++ rest) cells (N.of_nat (length seg)) pid prs =
  match place rest cells 0 0 0 with
  | Some (g, c') => Some (map (fun _ => Some pid) seg ++ g, map (fun _ => (prs - 1, pid)) seg ++ c')
  | None => None
  end.
Proof.
  induction seg as [|[lft o] seg IH]; intros rest cells pid prs HF.
  - simpl. rewrite place_pend0. destruct (place rest cells 0 0 0) as [[g c']|]; auto.
  - inversion HF as [|? ? Hl HF']; subst. simpl in Hl. subst lft.
    simpl length. simpl app. cbn [place].
    assert (N.ltb 0 (N.of_nat (S (length seg))) = true) as -> by (apply N.ltb_lt; lia).
    rewrite N.eqb_refl.
    replace (N.of_nat (S (length seg)) - 1) with (N.of_nat (length seg)) by lia.
    rewrite (IH rest cells pid prs HF').
    destruct (place rest cells 0 0 0) as [[g c']|]; auto.
Qed.

Lemma place_cell p seg rest c cells :
  fst p = 0 -> Forall (fun p => fst p = 0) seg ->
  0 < oc_rowspan c -> oc_colspan c = N.of_nat (S (length seg)) ->
  place (p :: seg ++ rest) (c :: cells) 0 0 0 =
  match place rest cells 0 0 0 with
  | Some (g, c') => Some (Some (oc_id c) :: map (fun _ => Some (oc_id c)) seg ++ g,
                          (oc_rowspan c - 1, oc_id c) :: map (fun _ => (oc_rowspan c - 1, oc_id c)) seg ++ c')
  | None => None
  end.
Proof.
  intros Hp HF Hrs Hcs. destruct p as [lft o]. simpl in Hp. subst lft.
  cbn [place]. rewrite N.ltb_irrefl.
  assert (N.ltb 0 (oc_colspan c) = true) as -> by (apply N.ltb_lt; lia).
  assert (N.ltb 0 (oc_rowspan c) = true) as -> by (now apply N.ltb_lt).
  simpl andb. cbv iota.
  replace (oc_colspan c - 1) with (N.of_nat (length seg)) by lia.
  rewrite (place_pending seg rest cells (oc_id c) (oc_rowspan c) HF).
  destruct (place rest cells 0 0 0) as [[g c']|]; auto.
Qed.

(* ---------- one row ---------- *)
Section Row.
Variables (lft own lft' own' : N -> N) (after : list (list icell)).

Lemma place_row cells : forall col,
  all_pos cells ->
  (forall c x j, In (c, x) (positioned cells col) -> ic_cont x = true -> c <= j < c + ic_span x ->
                 0 < lft j /\ lft' j = lft j - 1 /\ own' j = own j) ->
  (forall c x j, In (c, x) (positioned cells col) -> ic_cont x = false -> c <= j < c + ic_span x ->
                 lft j = 0 /\ lft' j = ext after c (ic_span x) /\ own' j = ic_id x) ->
  place (map (fun j => (lft j, own j)) (Ncols col (N.to_nat (row_width cells))))
        (spec_row cells col after) 0 0 0
  = Some (map (fun j => Some (own' j)) (Ncols col (N.to_nat (row_width cells))),
          map (fun j => (lft' j, own' j)) (Ncols col (N.to_nat (row_width cells)))).
Proof.
  induction cells as [|y cs IH]; intros col Hp HC HN.
  - reflexivity.
  - assert (0 < ic_span y) as Hsy by (apply Hp; now left).
    pose proof (fun x Hx => Hp x (or_intror Hx)) as Hp'.
    assert (IHcs := IH (col + ic_span y) Hp'
               (fun c x j Hin => HC c x j (or_intror Hin))
               (fun c x j Hin => HN c x j (or_intror Hin))).
    clear IH.
    simpl row_width. rewrite N2Nat.inj_add, Ncols_app, N2Nat.id, !map_app.
    assert (forall j, In j (Ncols col (N.to_nat (ic_span y))) -> col <= j < col + ic_span y) as Hrange.
    { intros j Hj. apply In_Ncols in Hj. lia. }
    simpl spec_row. destruct (ic_cont y) eqn:Ec.
    + rewrite place_covered.
      * rewrite IHcs. rewrite !map_map. simpl. f_equal. f_equal.
        -- f_equal. apply map_ext_in. intros j Hj.
           destruct (HC col y j (or_introl eq_refl) Ec (Hrange j Hj)) as [_ [_ H3]]. now rewrite H3.
        -- f_equal. apply map_ext_in. intros j Hj.
           destruct (HC col y j (or_introl eq_refl) Ec (Hrange j Hj)) as [_ [H2 H3]]. now rewrite H2, H3.
      * apply Forall_forall. intros p Hpi. apply in_map_iff in Hpi. destruct Hpi as [j [<- Hj]].
        simpl. destruct (HC col y j (or_introl eq_refl) Ec (Hrange j Hj)) as [H1 _]. exact H1.
    + destruct (N.to_nat (ic_span y)) as [|n] eqn:En; [lia|].
      simpl Ncols. simpl map at 1. simpl app.
      rewrite place_cell.
      * rewrite IHcs. simpl oc_id. simpl oc_rowspan. rewrite !map_map.
        assert (forall j, In j (col :: Ncols (col + 1) n) ->
                  lft' j = 1 + ext after col (ic_span y) - 1 /\ own' j = ic_id y) as Hj'.
        { intros j Hj. destruct (HN col y j (or_introl eq_refl) Ec) as [_ [H2 H3]].
          - apply Hrange. exact Hj.
          - split; auto. lia. }
        destruct (Hj' col (or_introl eq_refl)) as [Hl0 Ho0].
        simpl. rewrite Hl0, Ho0. f_equal. f_equal.
        -- f_equal. f_equal. apply map_ext_in. intros j Hj.
           destruct (Hj' j (or_intror Hj)) as [_ H3]. now rewrite H3.
        -- f_equal. f_equal. apply map_ext_in. intros j Hj.
           destruct (Hj' j (or_intror Hj)) as [H2 H3]. now rewrite H2, H3.
      * simpl. destruct (HN col y col (or_introl eq_refl) Ec) as [H1 _]; [lia|exact H1].
      * apply Forall_forall. intros p Hpi. apply in_map_iff in Hpi. destruct Hpi as [j [<- Hj]].
        simpl. destruct (HN col y j (or_introl eq_refl) Ec) as [H1 _]; auto.
        apply Hrange. right. exact Hj.
      * simpl. lia.
      * simpl. rewrite map_length, Ncols_length. lia.
Qed.

Lemma doc_row_own cells : forall col,
  all_pos cells ->
  (forall c x j, In (c, x) (positioned cells col) -> c <= j < c + ic_span x ->
                 own' j = if ic_cont x then own c else ic_id x) ->
  doc_row cells (map (fun j => Some (own j)) (Ncols col (N.to_nat (row_width cells))))
  = map (fun j => Some (own' j)) (Ncols col (N.to_nat (row_width cells))).
Proof.
  induction cells as [|y cs IH]; intros col Hp HO.
  - reflexivity.
  - assert (0 < ic_span y) as Hsy by (apply Hp; now left).
    pose proof (fun x Hx => Hp x (or_intror Hx)) as Hp'.
    assert (IHcs := IH (col + ic_span y) Hp' (fun c x j Hin => HO c x j (or_intror Hin))).
    clear IH.
    simpl row_width. rewrite N2Nat.inj_add, Ncols_app, N2Nat.id, !map_app.
    assert (forall j, In j (Ncols col (N.to_nat (ic_span y))) -> col <= j < col + ic_span y) as Hrange.
    { intros j Hj. apply In_Ncols in Hj. lia. }
    cbn [doc_row]. rewrite skipn_app_exact by (now rewrite map_length, Ncols_length).
    rewrite IHcs. f_equal.
    symmetry. apply map_const_repeat_n; [apply Ncols_length|]. intros j Hj.
    rewrite (HO col y j (or_introl eq_refl) (Hrange j Hj)).
    destruct (ic_cont y); auto.
    destruct (N.to_nat (ic_span y)) as [|n] eqn:En; [lia|]. reflexivity.
Qed.
End Row.

Lemma doc_row_nocont cells : forall a b,
  (forall x, In x cells -> ic_cont x = false) -> doc_row cells a = doc_row cells b.
Proof.
  induction cells as [|y cs IH]; simpl; intros a b H; auto.
  rewrite (H y) by auto. f_equal. apply IH. auto.
Qed.

(* ---------- all rows ---------- *)
Lemma layout_spec W rows : forall prev (lft own : N -> N),
  wf_rows W rows prev = true ->
  (forall c s j, In (c, s) prev -> c <= j < c + s -> lft j = ext rows c s /\ own j = own c) ->
  (forall j, j < W -> lft j = 0 \/ exists c s, In (c, s) prev /\ c <= j < c + s) ->
  layout (spec_rows rows) (map (fun j => (lft j, own j)) (Ncols 0 (N.to_nat W)))
  = Some (doc_grid rows (map (fun j => Some (own j)) (Ncols 0 (N.to_nat W)))).
Proof.
  induction rows as [|r rows IH]; intros prev lft own Hwf H1 H2.
  - reflexivity.
  - simpl in Hwf.
    apply andb_true_iff in Hwf. destruct Hwf as [Hwf Hwf'].
    apply andb_true_iff in Hwf. destruct Hwf as [HW Hwr]. apply N.eqb_eq in HW.
    pose proof (wf_row_all_pos _ _ _ Hwr) as Hp.
    set (lft' := fun j => match cell_at r 0 j with Some (c, x) => ext rows c (ic_span x) | None => 0 end).
    set (own' := fun j => match cell_at r 0 j with
                          | Some (c, x) => if ic_cont x then own c else ic_id x | None => 0 end).
    assert (forall c x j, In (c, x) (positioned r 0) -> c <= j < c + ic_span x ->
              lft' j = ext rows c (ic_span x) /\ own' j = if ic_cont x then own c else ic_id x) as Hat.
    { intros c x j Hx Hj. unfold lft', own'. rewrite (cell_at_positioned _ _ _ _ _ Hx Hj). auto. }
    cbn [spec_rows layout doc_grid]. rewrite <- HW.
    rewrite (place_row lft own lft' own' rows r 0 Hp).
    + rewrite (doc_row_own own own' r 0 Hp) by (intros c x j Hx Hj; apply (Hat c x j Hx Hj)).
      rewrite HW.
      rewrite (IH (row_starts r 0) lft' own' Hwf'); auto.
      * intros c s j Hs Hj. apply In_row_starts in Hs. destruct Hs as [x [Hx Hsx]]. subst s.
        assert (0 < ic_span x) as Hsx by (apply Hp; eapply positioned_In; eauto).
        destruct (Hat c x j Hx Hj) as [Ha Hb]. destruct (Hat c x c Hx) as [_ Hc]; [lia|].
        split; auto. congruence.
      * intros j Hj. right. destruct (positioned_cover r 0 j) as [c [x [Hx Hc]]]; [lia|].
        exists c, (ic_span x). split; auto. apply In_row_starts. eauto.
    + intros c x j Hx Hc Hj.
      destruct (wf_row_spec _ _ _ Hwr _ _ Hx) as [Hsx Hprev]. specialize (Hprev Hc).
      destruct (H1 c (ic_span x) j Hprev Hj) as [Hl Ho].
      assert (has_cont r 0 c (ic_span x) = true) as Hhc by (apply has_cont_spec; eauto).
      simpl in Hl. rewrite Hhc in Hl.
      destruct (Hat c x j Hx Hj) as [Ha Hb]. rewrite Hc in Hb.
      destruct (H1 c (ic_span x) c Hprev) as [_ Hoc]; [lia|].
      repeat split; try lia; try congruence.
    + intros c x j Hx Hc Hj.
      destruct (Hat c x j Hx Hj) as [Ha Hb]. rewrite Hc in Hb.
      repeat split; auto.
      pose proof (positioned_bounds _ _ _ _ Hx) as Hb'.
      destruct (H2 j) as [Hz|[c' [s' [Hin' Hj']]]]; [lia|exact Hz|].
      destruct (H1 c' s' j Hin' Hj') as [Hl _]. simpl in Hl.
      destruct (has_cont r 0 c' s') eqn:Ehc; [|exact Hl].
      exfalso. apply has_cont_spec in Ehc. destruct Ehc as [x' [Hx' [Hc' Hs']]]. subst s'.
      destruct (positioned_unique r 0 c x c' x' j Hx Hx' Hj Hj') as [_ Heq]. congruence.
Qed.

Lemma wf_row_nil_nocont cells : forall col,
  wf_row cells col [] = true -> forall x, In x cells -> ic_cont x = false.
Proof.
  induction cells as [|y cs IH]; simpl; intros col H x Hx; [contradiction|].
  apply andb_true_iff in H. destruct H as [H Hrest].
  apply andb_true_iff in H. destruct H as [Hpos Hcont].
  destruct Hx as [->|Hx]; [|eapply IH; eauto].
  destruct (ic_cont x); auto.
Qed.

Lemma doc_grid_first W rows a b : wf_rows W rows [] = true -> doc_grid rows a = doc_grid rows b.
Proof.
  destruct rows as [|r rows]; simpl; intros Hwf; auto.
  apply andb_true_iff in Hwf. destruct Hwf as [Hwf _].
  apply andb_true_iff in Hwf. destruct Hwf as [_ Hwr].
  rewrite (doc_row_nocont r a b (wf_row_nil_nocont r 0 Hwr)). reflexivity.
Qed.

Theorem layout_spec_rows W rows :
  wf_rows W rows [] = true ->
  html_layout (N.to_nat W) (spec_rows rows) = Some (doc_grid rows []).
Proof.
  intros Hwf. unfold html_layout.
  rewrite <- (Ncols_length 0 (N.to_nat W)) at 1.
  rewrite <- (map_const_repeat (fun j : N => ((fun _ => 0) j, (fun _ => 0) j)) (0, 0)
                (Ncols 0 (N.to_nat W))) by reflexivity.
  rewrite (layout_spec W rows [] (fun _ => 0) (fun _ => 0) Hwf).
  - f_equal. eapply doc_grid_first; eauto.
  - intros c s j [].
  - intros j Hj. left. reflexivity.
Qed.
