(* Theorems about the regex cost model and the tokeniser (C07). *)
From Mammoth Require Import Regex Tokeniser TokenRules RegexSpec.
From Mammoth Require Import Unicode.
From Coq Require Import Arith Lia.
Local Open Scope N_scope.

(* ================================================================== *)
(* 1. Soundness of the probe-based disjointness test                   *)
(* ================================================================== *)

(* every class is (the negation of) membership in a list of ranges *)
Definition cls_ranges (k : cls) : list (N * N) :=
  match k with
  | CAny => [(10, 10)]
  | CSet rs sp | CNot rs sp => rs ++ (if sp then re_space else [])
  end.
Definition cls_neg (k : cls) : bool :=
  match k with CSet _ _ => false | _ => true end.

Lemma in_ranges_app (c : N) (rs1 rs2 : list (N * N)) :
  in_ranges c (rs1 ++ rs2) = in_ranges c rs1 || in_ranges c rs2.
Proof. unfold in_ranges. apply existsb_app. Qed.

Lemma in_ranges_nil (c : N) : in_ranges c [] = false.
Proof. reflexivity. Qed.

Lemma in_ranges_sp (c : N) (rs : list (N * N)) (sp : bool) :
  in_ranges c (rs ++ (if sp then re_space else [])) = in_ranges c rs || (sp && is_re_space c).
Proof.
  rewrite in_ranges_app. unfold is_re_space. destruct sp.
  - reflexivity.
  - rewrite in_ranges_nil. reflexivity.
Qed.

Lemma cls_match_ranges (k : cls) (c : N) :
  cls_match k c = xorb (cls_neg k) (in_ranges c (cls_ranges k)).
Proof.
  destruct k as [|rs sp|rs sp]; cbn [cls_match cls_neg cls_ranges].
  - unfold in_ranges. cbn [existsb fst snd].
    destruct (N.eqb_spec c 10) as [He|He], (N.leb_spec 10 c) as [H1|H1], (N.leb_spec c 10) as [H2|H2];
      try reflexivity; lia.
  - rewrite in_ranges_sp. symmetry. apply xorb_false_l.
  - rewrite in_ranges_sp. symmetry. apply xorb_true_l.
Qed.

Lemma in_ranges_same (c p : N) (rs : list (N * N)) :
  (forall r, In r rs -> (fst r <= c <-> fst r <= p) /\ (c <= snd r <-> p <= snd r)) ->
  in_ranges c rs = in_ranges p rs.
Proof.
  unfold in_ranges. induction rs as [|r rs IH]; intros H; cbn [existsb].
  - reflexivity.
  - rewrite IH by (intros r' Hr'; apply H; right; exact Hr').
    destruct (H r (or_introl eq_refl)) as [H1 H2]. f_equal.
    apply Bool.eq_iff_eq_true. rewrite !andb_true_iff, !N.leb_le. tauto.
Qed.

Lemma range_probes_in (r : N * N) (rs : list (N * N)) :
  In r rs -> In (fst r) (range_probes rs) /\ In (snd r + 1) (range_probes rs).
Proof.
  intros H. unfold range_probes.
  split; apply in_flat_map; exists r; (split; [exact H|]); cbn [In].
  - right. left. reflexivity.
  - do 5 right. left. reflexivity.
Qed.

Lemma cls_ranges_probes (k : cls) (r : N * N) :
  In r (cls_ranges k) -> In (fst r) (cls_probes k) /\ In (snd r + 1) (cls_probes k).
Proof.
  destruct k as [|rs sp|rs sp]; cbn [cls_ranges cls_probes]; intros H.
  - destruct H as [H|[]]. subst r. cbn [fst snd In]. split.
    + right. left. reflexivity.
    + right. right. left. reflexivity.
  - apply in_app_or in H. destruct H as [H|H].
    + apply range_probes_in in H. destruct H as [H1 H2].
      split; apply in_or_app; left; assumption.
    + destruct sp; [|destruct H].
      apply range_probes_in in H. destruct H as [H1 H2].
      split; apply in_or_app; right; assumption.
  - apply in_app_or in H. destruct H as [H|H].
    + apply range_probes_in in H. destruct H as [H1 H2].
      split; apply in_or_app; left; assumption.
    + destruct sp; [|destruct H].
      apply range_probes_in in H. destruct H as [H1 H2].
      split; apply in_or_app; right; assumption.
Qed.

(* c and the largest probe below it are indistinguishable for the class *)
Lemma cls_match_floor (k : cls) (c p : N) :
  p <= c -> (forall q, In q (cls_probes k) -> q <= c -> q <= p) ->
  cls_match k c = cls_match k p.
Proof.
  intros Hpc Hmax. rewrite !cls_match_ranges. f_equal. apply in_ranges_same.
  intros r Hr. destruct (cls_ranges_probes k r Hr) as [H1 H2].
  split; split; intros H.
  - apply Hmax; assumption.
  - lia.
  - lia.
  - destruct (N.le_gt_cases c (snd r)) as [Hle|Hgt]; [exact Hle|].
    assert (Hs : snd r + 1 <= p) by (apply Hmax; [exact H2 | lia]). lia.
Qed.

Lemma max_below (c : N) (ps : list N) :
  (forall q, In q ps -> c < q) \/
  (exists p, In p ps /\ p <= c /\ forall q, In q ps -> q <= c -> q <= p).
Proof.
  induction ps as [|x ps IH].
  - left. intros q [].
  - destruct IH as [Hall | [p [Hin [Hpc Hmax]]]].
    + destruct (N.le_gt_cases x c) as [Hx|Hx].
      * right. exists x. split; [left; reflexivity|]. split; [exact Hx|].
        intros q [Hq|Hq] Hqc; [subst; lia|]. specialize (Hall q Hq). lia.
      * left. intros q [Hq|Hq]; [subst; exact Hx | apply Hall; exact Hq].
    + destruct (N.le_gt_cases x c) as [Hx|Hx].
      * destruct (N.le_gt_cases x p) as [Hxp|Hxp].
        -- right. exists p. split; [right; exact Hin|]. split; [exact Hpc|].
           intros q [Hq|Hq] Hqc; [subst; exact Hxp | apply Hmax; assumption].
        -- right. exists x. split; [left; reflexivity|]. split; [exact Hx|].
           intros q [Hq|Hq] Hqc; [subst; lia|].
           specialize (Hmax q Hq Hqc). lia.
      * right. exists p. split; [right; exact Hin|]. split; [exact Hpc|].
        intros q [Hq|Hq] Hqc; [subst; lia | apply Hmax; assumption].
Qed.

(* the probe-based disjointness test is sound *)
Theorem cls_disjoint_sound (a b : cls) :
  cls_disjoint a b = true -> forall c, cls_match a c && cls_match b c = false.
Proof.
  intros H c. unfold cls_disjoint, cls_disjoint_on in H. rewrite forallb_forall in H.
  remember (0 :: 1114111 :: cls_probes a ++ cls_probes b) as probes eqn:Hprobes.
  destruct (max_below c probes) as [Hall | [p [Hin [Hpc Hmax]]]].
  - exfalso. assert (H0 : c < 0) by (apply Hall; subst probes; left; reflexivity). lia.
  - specialize (H p Hin). apply negb_true_iff in H.
    rewrite (cls_match_floor a c p), (cls_match_floor b c p); try assumption.
    + intros q Hq Hqc. apply Hmax; [|exact Hqc]. subst probes.
      right. right. apply in_or_app. right. exact Hq.
    + intros q Hq Hqc. apply Hmax; [|exact Hqc]. subst probes.
      right. right. apply in_or_app. left. exact Hq.
Qed.

(* ================================================================== *)
(* 2. Successful matches return suffixes                               *)
(* ================================================================== *)

Definition is_suffix (r s : str) : Prop := exists pre, s = pre ++ r.
Definition sfx (k : str -> res) : Prop := forall s r, snd (k s) = Some r -> is_suffix r s.

Lemma is_suffix_length (r s : str) : is_suffix r s -> (length r <= length s)%nat.
Proof. intros [pre H]. subst s. rewrite app_length. lia. Qed.

Lemma match_seq_app (cs : list cls) :
  forall s s', match_seq cs s = Some s' -> exists pre, s = pre ++ s' /\ length pre = length cs.
Proof.
  induction cs as [|k cs IH]; intros s s' H; cbn [match_seq] in H.
  - injection H as H. subst. exists []. split; reflexivity.
  - destruct s as [|c s0]; [discriminate|].
    destruct (cls_match k c); [|discriminate].
    destruct (IH _ _ H) as [pre [Hs Hl]]. exists (c :: pre). split.
    + rewrite Hs. reflexivity.
    + cbn [length]. rewrite Hl. reflexivity.
Qed.

Lemma match_seq_length (cs : list cls) (s s' : str) :
  match_seq cs s = Some s' -> (length s' <= length s)%nat.
Proof.
  intros H. apply match_seq_app in H. destruct H as [pre [Hs _]]. subst s.
  rewrite app_length. lia.
Qed.

Lemma try_alts_snd (alts : list (list cls)) (k : str -> res) (s r : str) :
  snd (try_alts alts k s) = Some r ->
  exists a s', In a alts /\ match_seq a s = Some s' /\ snd (k s') = Some r.
Proof.
  induction alts as [|a alts IH]; cbn [try_alts]; intros H.
  - discriminate.
  - destruct (match_seq a s) as [s'|] eqn:Hm.
    + destruct (k s') as [n [r0|]] eqn:Hk.
      * cbn [snd] in H. exists a, s'. rewrite Hk. split; [left; reflexivity|]. split; [exact Hm|exact H].
      * destruct (try_alts alts k s) as [m r'] eqn:Ht. cbn [snd] in H, IH.
        destruct (IH H) as [a' [s'' [Hin [Hm' Hk']]]]. exists a', s''.
        split; [right; exact Hin|]. split; assumption.
    + destruct (try_alts alts k s) as [m r'] eqn:Ht. cbn [snd] in H, IH.
      destruct (IH H) as [a' [s'' [Hin [Hm' Hk']]]]. exists a', s''.
      split; [right; exact Hin|]. split; assumption.
Qed.

Lemma try_alts_sfx (alts : list (list cls)) (k : str -> res) : sfx k -> sfx (try_alts alts k).
Proof.
  intros Hk s r H. apply try_alts_snd in H. destruct H as [a [s' [_ [Hm Hks]]]].
  apply match_seq_app in Hm. destruct Hm as [pre [Hs _]].
  apply Hk in Hks. destruct Hks as [pre' Hs']. exists (pre ++ pre').
  rewrite <- app_assoc, <- Hs'. exact Hs.
Qed.

Lemma star_loop_sfx (alts : list (list cls)) (k : str -> res) :
  sfx k -> forall f, sfx (star_loop f alts k).
Proof.
  intros Hk f. induction f as [|f IH]; intros s r H; cbn [star_loop] in H.
  - apply Hk. exact H.
  - destruct (try_alts alts (star_loop f alts k) s) as [n [r0|]] eqn:Ht.
    + cbn [snd] in H. apply (try_alts_sfx alts _ IH s r). rewrite Ht. exact H.
    + destruct (k s) as [m r'] eqn:Hks. cbn [snd] in H. apply Hk. rewrite Hks. exact H.
Qed.

Lemma m_atom_sfx (a : atom) (k : str -> res) : sfx k -> sfx (m_atom a k).
Proof.
  intros Hk s r H. destruct a as [alts|alts|alts|alts]; cbn [m_atom] in H.
  - apply (try_alts_sfx alts k Hk). exact H.
  - apply (star_loop_sfx alts k Hk (length s)). exact H.
  - refine (try_alts_sfx alts _ _ s r H).
    intros s1 r1 H1. apply (star_loop_sfx alts k Hk (length s1)). exact H1.
  - destruct (try_alts alts k s) as [n [r0|]] eqn:Ht.
    + cbn [snd] in H. apply (try_alts_sfx alts k Hk). rewrite Ht. exact H.
    + destruct (k s) as [m r'] eqn:Hks. cbn [snd] in H. apply Hk. rewrite Hks. exact H.
Qed.

Lemma m_atoms_sfx (r : rule) (k : str -> res) : sfx k -> sfx (m_atoms r k).
Proof.
  intros Hk. induction r as [|a r IH]; cbn [m_atoms].
  - exact Hk.
  - apply m_atom_sfx. exact IH.
Qed.

Definition k_final : str -> res := fun s' => (1, Some s').

Lemma k_final_sfx : sfx k_final.
Proof. intros s r H. cbn in H. injection H as H. subst. exists []. reflexivity. Qed.

(* a successful match returns a suffix of its input *)
Theorem re_match_suffix (r : rule) (s rest : str) :
  re_match r s = Some rest -> exists pre, s = pre ++ rest.
Proof.
  intros H. unfold re_match, bt_match in H.
  exact (m_atoms_sfx r k_final k_final_sfx s rest H).
Qed.

Theorem re_match_nonempty (r : rule) (s rest : str) :
  rule_nonempty r = true -> re_match r s = Some rest -> (length rest < length s)%nat.
Proof.
  intros Hne Hm. unfold re_match, bt_match in Hm. fold k_final in Hm.
  assert (Hgen : forall alts k, sfx k ->
            forallb (fun a : list cls => match a with [] => false | _ => true end) alts = true ->
            snd (try_alts alts k s) = Some rest -> (length rest < length s)%nat).
  { intros alts k Hk Hall Hsnd.
    apply try_alts_snd in Hsnd. destruct Hsnd as [a [s' [Hin [Hms Hks]]]].
    rewrite forallb_forall in Hall. specialize (Hall a Hin).
    destruct a as [|x a]; [discriminate|].
    apply match_seq_app in Hms. destruct Hms as [pre [Hs Hl]].
    apply Hk in Hks. apply is_suffix_length in Hks.
    subst s. rewrite app_length. cbn [length] in Hl. lia. }
  destruct r as [|[alts|alts|alts|alts] r']; cbn [rule_nonempty] in Hne; try discriminate;
    cbn [m_atoms m_atom] in Hm.
  - apply (Hgen alts (m_atoms r' k_final)); [|exact Hne|exact Hm].
    apply m_atoms_sfx. exact k_final_sfx.
  - refine (Hgen alts _ _ Hne Hm).
    intros s1 r1 H1. refine (star_loop_sfx alts _ _ (length s1) s1 r1 H1).
    apply m_atoms_sfx. exact k_final_sfx.
Qed.

(* ================================================================== *)
(* 3. The complexity theorem                                           *)
(* ================================================================== *)

(* [k] costs at most [K] on every string of length at most [n] *)
Definition kbound (k : str -> res) (K n : N) : Prop :=
  forall s', N.of_nat (length s') <= n -> fst (k s') <= K.

Lemma try_alts_bound (alts : list (list cls)) (k : str -> res) (K n : N) (s : str) :
  kbound k K n -> N.of_nat (length s) <= n ->
  fst (try_alts alts k s) <= N.of_nat (length alts) * (1 + K).
Proof.
  intros Hk Hs. induction alts as [|a alts IH]; cbn [try_alts length].
  - cbn. lia.
  - rewrite Nat2N.inj_succ, N.mul_succ_l.
    destruct (try_alts alts k s) as [m r'] eqn:Ht. cbn [fst] in IH.
    destruct (match_seq a s) as [s'|] eqn:Hm.
    + assert (Hks : fst (k s') <= K).
      { apply Hk. apply match_seq_length in Hm. lia. }
      destruct (k s') as [n0 [r0|]]; cbn [fst] in *; lia.
    + cbn [fst]. lia.
Qed.

Lemma try_alts_none_all (alts : list (list cls)) (k : str -> res) (s : str) :
  (forall a, In a alts -> match_seq a s = None) ->
  try_alts alts k s = (N.of_nat (length alts), None).
Proof.
  induction alts as [|a alts IH]; intros H; cbn [try_alts length].
  - reflexivity.
  - rewrite (H a (or_introl eq_refl)).
    rewrite IH by (intros a' Ha'; apply H; right; exact Ha').
    f_equal. lia.
Qed.

Lemma alts_det_cons (a : list cls) (alts : list (list cls)) :
  alts_det (a :: alts) = true ->
  alts_det alts = true /\
  forall s s', match_seq a s = Some s' -> forall a', In a' alts -> match_seq a' s = None.
Proof.
  unfold alts_det. cbn [forallb pairwise]. intros H.
  apply andb_true_iff in H. destruct H as [H1 H2].
  apply andb_true_iff in H1. destruct H1 as [Ha Halts].
  apply andb_true_iff in H2. destruct H2 as [Hdis Hpw].
  split.
  - rewrite Halts, Hpw. reflexivity.
  - intros s s' Hm a' Ha'. rewrite forallb_forall in Hdis. specialize (Hdis a' Ha').
    destruct a as [|x a0]; [discriminate|]. destruct a' as [|y a0']; [discriminate|].
    cbn [first_cls] in Hdis. cbn [match_seq] in Hm |- *.
    destruct s as [|c s0]; [reflexivity|].
    destruct (cls_match x c) eqn:Hx; [|discriminate].
    pose proof (cls_disjoint_sound x y Hdis c) as Hxy. rewrite Hx in Hxy. cbn [andb] in Hxy.
    rewrite Hxy. reflexivity.
Qed.

Lemma try_alts_det_bound (alts : list (list cls)) (k : str -> res) (K n : N) (s : str) :
  alts_det alts = true -> kbound k K n -> N.of_nat (length s) <= n ->
  fst (try_alts alts k s) <= N.of_nat (length alts) + K.
Proof.
  intros Hdet Hk Hs. induction alts as [|a alts IH]; cbn [try_alts length].
  - cbn. lia.
  - apply alts_det_cons in Hdet. destruct Hdet as [Hdet Hexcl].
    rewrite Nat2N.inj_succ.
    destruct (match_seq a s) as [s'|] eqn:Hm.
    + rewrite (try_alts_none_all alts k s (Hexcl s s' Hm)).
      assert (Hks : fst (k s') <= K).
      { apply Hk. apply match_seq_length in Hm. lia. }
      destruct (k s') as [n0 [r0|]]; cbn [fst] in *; lia.
    + specialize (IH Hdet).
      destruct (try_alts alts k s) as [m r'] eqn:Ht. cbn [fst] in *. lia.
Qed.

Lemma star_loop_bound (alts : list (list cls)) (k : str -> res) (K n : N) :
  alts_det alts = true -> kbound k K n ->
  forall f, kbound (star_loop f alts k) (N.of_nat f * (N.of_nat (length alts) + K) + K) n.
Proof.
  intros Hdet Hk f. induction f as [|f IH]; intros s Hs; cbn [star_loop].
  - cbn [N.of_nat]. rewrite N.mul_0_l, N.add_0_l. apply Hk. exact Hs.
  - rewrite Nat2N.inj_succ, N.mul_succ_l.
    pose proof (try_alts_det_bound alts _ _ n s Hdet IH Hs) as Ht.
    pose proof (Hk s Hs) as Hks.
    destruct (try_alts alts (star_loop f alts k) s) as [n0 [r0|]]; cbn [fst] in *.
    + lia.
    + destruct (k s) as [m r']. cbn [fst] in *. lia.
Qed.

Lemma star_bound_arith (L n A B : N) :
  L <= n -> L * (A + B) + B <= (n + 1) * (A + B + 1).
Proof.
  intros H. assert (H1 : L * (A + B) <= n * (A + B)) by (apply N.mul_le_mono_r; exact H).
  nia.
Qed.

Definition atom_bound (a : atom) (B n : N) : N :=
  match a with
  | AAlt alts => N.of_nat (length alts) * (1 + B)
  | AStar alts => (n + 1) * (N.of_nat (length alts) + B + 1)
  | APlus alts => N.of_nat (length alts) * (1 + (n + 1) * (N.of_nat (length alts) + B + 1))
  | AOpt alts => N.of_nat (length alts) * (1 + B) + B
  end.

Lemma bound_cons (a : atom) (r : rule) (n : N) : bound (a :: r) n = atom_bound a (bound r n) n.
Proof. destruct a; reflexivity. Qed.

Lemma star_len_bound (alts : list (list cls)) (k : str -> res) (B n : N) :
  alts_det alts = true -> kbound k B n ->
  kbound (fun s' => star_loop (length s') alts k s') ((n + 1) * (N.of_nat (length alts) + B + 1)) n.
Proof.
  intros Hdet Hk s Hs.
  pose proof (star_loop_bound alts k B n Hdet Hk (length s) s Hs) as H.
  pose proof (star_bound_arith (N.of_nat (length s)) n (N.of_nat (length alts)) B Hs) as H2.
  lia.
Qed.

Lemma m_atom_bound (a : atom) (k : str -> res) (B n : N) :
  atom_det a = true -> kbound k B n -> kbound (m_atom a k) (atom_bound a B n) n.
Proof.
  intros Hdet Hk s Hs. destruct a as [alts|alts|alts|alts]; cbn [atom_det] in Hdet;
    cbn [m_atom atom_bound].
  - apply (try_alts_bound alts k B n s Hk Hs).
  - apply (star_len_bound alts k B n Hdet Hk s Hs).
  - apply (try_alts_bound alts _ _ n s (star_len_bound alts k B n Hdet Hk) Hs).
  - pose proof (try_alts_bound alts k B n s Hk Hs) as Ht.
    pose proof (Hk s Hs) as Hks.
    destruct (try_alts alts k s) as [n0 [r0|]]; cbn [fst] in *.
    + lia.
    + destruct (k s) as [m r']. cbn [fst] in *. lia.
Qed.

Lemma m_atoms_bound (r : rule) (n : N) :
  rule_det r = true -> kbound (m_atoms r k_final) (bound r n) n.
Proof.
  induction r as [|a r IH]; intros Hdet.
  - intros s Hs. cbn. lia.
  - unfold rule_det in Hdet. cbn [forallb] in Hdet. apply andb_true_iff in Hdet.
    destruct Hdet as [Ha Hr]. rewrite bound_cons. cbn [m_atoms].
    apply m_atom_bound; [exact Ha|]. apply IH. exact Hr.
Qed.

(* THE complexity theorem of the cost model: for a deterministic rule the number of backtracking
   steps is bounded by `bound`, a polynomial in the input length whose degree is the number of
   repetitions in the rule. *)
Theorem det_match_bound (r : rule) (s : str) :
  rule_det r = true -> re_steps r s <= bound r (N.of_nat (length s)).
Proof.
  intros Hdet. unfold re_steps, bt_match. fold k_final.
  apply (m_atoms_bound r (N.of_nat (length s)) Hdet s). lia.
Qed.

Lemma pow_ge_1 (n : N) (k : N) : 1 <= (n + 1) ^ k.
Proof.
  assert (H : (n + 1) ^ k <> 0) by (apply N.pow_nonzero; lia). lia.
Qed.

Theorem bound_poly (r : rule) :
  exists c, forall n, bound r n <= c * (n + 1) ^ N.of_nat (stars r).
Proof.
  induction r as [|a r [c IH]].
  - exists 1. intros n. cbn. lia.
  - destruct a as [alts|alts|alts|alts]; unfold stars; cbn [filter length]; fold (stars r).
    + exists (N.of_nat (length alts) * (1 + c)). intros n. cbn [bound].
      specialize (IH n). pose proof (pow_ge_1 n (N.of_nat (stars r))) as HP.
      remember ((n + 1) ^ N.of_nat (stars r)) as P. remember (N.of_nat (length alts)) as A.
      remember (bound r n) as B. nia.
    + exists (N.of_nat (length alts) + c + 1). intros n. cbn [bound].
      rewrite Nat2N.inj_succ, N.pow_succ_r'.
      specialize (IH n). pose proof (pow_ge_1 n (N.of_nat (stars r))) as HP.
      remember ((n + 1) ^ N.of_nat (stars r)) as P. remember (N.of_nat (length alts)) as A.
      remember (bound r n) as B.
      assert (H1 : A + B + 1 <= (A + c + 1) * P) by nia.
      apply (N.mul_le_mono_l _ _ (n + 1)) in H1. lia.
    + exists (N.of_nat (length alts) * (N.of_nat (length alts) + c + 2)). intros n. cbn [bound].
      rewrite Nat2N.inj_succ, N.pow_succ_r'.
      specialize (IH n). pose proof (pow_ge_1 n (N.of_nat (stars r))) as HP.
      remember ((n + 1) ^ N.of_nat (stars r)) as P. remember (N.of_nat (length alts)) as A.
      remember (bound r n) as B.
      assert (H1 : A + B + 1 <= (A + c + 1) * P) by nia.
      apply (N.mul_le_mono_l _ _ (n + 1)) in H1.
      assert (H2 : 1 <= (n + 1) * P) by nia.
      remember ((n + 1) * (A + B + 1)) as X. remember ((n + 1) * P) as Q.
      assert (H3 : 1 + X <= (A + c + 2) * Q) by nia.
      apply (N.mul_le_mono_l _ _ A) in H3. lia.
    + exists (N.of_nat (length alts) * (1 + c) + c). intros n. cbn [bound].
      specialize (IH n). pose proof (pow_ge_1 n (N.of_nat (stars r))) as HP.
      remember ((n + 1) ^ N.of_nat (stars r)) as P. remember (N.of_nat (length alts)) as A.
      remember (bound r n) as B. nia.
Qed.

(* ================================================================== *)
(* 4. The generated token rules (facts by computation)                 *)
(* ================================================================== *)

(* the generated token rules: deterministic, never match the empty string, end with a catch-all,
   at most one repetition each *)
Theorem token_rules_deterministic : forallb (fun p => rule_det (snd p)) token_rules = true.
Proof. vm_compute. reflexivity. Qed.
Theorem token_rules_nonempty : forallb (fun p => rule_nonempty (snd p)) token_rules = true.
Proof. vm_compute. reflexivity. Qed.
Theorem token_rules_catch_all : existsb (fun p => is_any_rule (snd p)) token_rules = true.
Proof. vm_compute. reflexivity. Qed.
Theorem token_rules_one_star : forallb (fun p => Nat.leb (stars (snd p)) 1) token_rules = true.
Proof. vm_compute. reflexivity. Qed.
(* no rule produces the END token type *)
Lemma token_rules_no_end : forallb (fun p => negb (N.eqb (fst p) T_END)) token_rules = true.
Proof. vm_compute. reflexivity. Qed.

(* ================================================================== *)
(* 5. Linear / quadratic cost of tokenising                            *)
(* ================================================================== *)

Lemma rule_linear (r : rule) :
  rule_det r = true -> (stars r <= 1)%nat ->
  exists c, forall s, re_steps r s <= c * (N.of_nat (length s) + 1).
Proof.
  intros Hdet Hst. destruct (bound_poly r) as [c Hc]. exists c. intros s.
  pose proof (det_match_bound r s Hdet) as H1. specialize (Hc (N.of_nat (length s))).
  remember (N.of_nat (length s)) as n.
  assert (HP : (n + 1) ^ N.of_nat (stars r) <= n + 1).
  { destruct (stars r) as [|[|k]]; [| |lia].
    - cbn [N.of_nat]. rewrite N.pow_0_r. lia.
    - change (N.of_nat 1) with 1. rewrite N.pow_1_r. lia. }
  apply (N.mul_le_mono_l _ _ c) in HP. lia.
Qed.

Lemma rules_linear (rules : list (N * rule)) :
  forallb (fun p => rule_det (snd p)) rules = true ->
  forallb (fun p => Nat.leb (stars (snd p)) 1) rules = true ->
  exists c, forall s, Forall (fun p => re_steps (snd p) s <= c * (N.of_nat (length s) + 1)) rules
                   /\ rule_steps rules s <= c * (N.of_nat (length s) + 1).
Proof.
  induction rules as [|[ty r] rules IH]; cbn [forallb snd]; intros Hdet Hst.
  - exists 0. intros s. split; [constructor|]. cbn. lia.
  - apply andb_true_iff in Hdet. destruct Hdet as [Hd Hdet].
    apply andb_true_iff in Hst. destruct Hst as [Hs Hst].
    apply Nat.leb_le in Hs.
    destruct (IH Hdet Hst) as [c' Hc']. destruct (rule_linear r Hd Hs) as [c Hc].
    exists (c + c'). intros s. destruct (Hc' s) as [Hall Hrs]. specialize (Hc s).
    remember (N.of_nat (length s) + 1) as n1.
    rewrite N.mul_add_distr_r. split.
    + constructor.
      * cbn [snd]. lia.
      * eapply Forall_impl; [|exact Hall]. intros p Hp. cbn beta in Hp. lia.
    + cbn [rule_steps]. unfold re_steps in Hc.
      destruct (bt_match r s) as [n0 [r0|]]; cbn [fst] in Hc; lia.
Qed.

(* each token rule is linear on the cost model; tokenising is at most quadratic *)
Theorem token_rule_steps_linear :
  exists c, forall ty r s, In (ty, r) token_rules ->
    re_steps r s <= c * (N.of_nat (length s) + 1).
Proof.
  destruct (rules_linear token_rules token_rules_deterministic token_rules_one_star) as [c Hc].
  exists c. intros ty r s Hin. destruct (Hc s) as [Hall _].
  rewrite Forall_forall in Hall. exact (Hall (ty, r) Hin).
Qed.

Lemma tokenise_steps_fuel_S (f : nat) (c : N) (s0 : str) :
  tokenise_steps_fuel (S f) (c :: s0) =
  rule_steps token_rules (c :: s0) +
  match first_rule token_rules (c :: s0) with
  | Some (_, rest) =>
      if Nat.ltb (length rest) (length (c :: s0)) then tokenise_steps_fuel f rest else 0
  | None => 0
  end.
Proof. reflexivity. Qed.

Lemma tokenise_steps_fuel_bound (C n : N) :
  (forall s, N.of_nat (length s) <= n -> rule_steps token_rules s <= C) ->
  forall f s, N.of_nat (length s) <= n ->
    tokenise_steps_fuel f s <= N.of_nat (length s) * C.
Proof.
  intros HC f. induction f as [|f IH]; intros s Hs.
  - destruct s; cbn [tokenise_steps_fuel]; lia.
  - destruct s as [|c s0]; [cbn [tokenise_steps_fuel]; lia|].
    rewrite tokenise_steps_fuel_S. specialize (HC (c :: s0) Hs).
    destruct (first_rule token_rules (c :: s0)) as [[ty rest]|].
    + destruct (Nat.ltb (length rest) (length (c :: s0))) eqn:Hlt.
      * apply Nat.ltb_lt in Hlt.
        assert (Hr : N.of_nat (length rest) <= n) by lia.
        specialize (IH rest Hr).
        assert (Hm : (N.of_nat (length rest) + 1) * C <= N.of_nat (length (c :: s0)) * C).
        { apply N.mul_le_mono_r. lia. }
        rewrite N.mul_add_distr_r, N.mul_1_l in Hm. lia.
      * assert (Hm : 1 * C <= N.of_nat (length (c :: s0)) * C).
        { apply N.mul_le_mono_r. cbn [length]. lia. }
        lia.
    + assert (Hm : 1 * C <= N.of_nat (length (c :: s0)) * C).
      { apply N.mul_le_mono_r. cbn [length]. lia. }
      lia.
Qed.

Theorem tokenise_steps_quadratic :
  exists c, forall s,
    tokenise_steps s <= c * (N.of_nat (length s) + 1) * (N.of_nat (length s) + 1).
Proof.
  destruct (rules_linear token_rules token_rules_deterministic token_rules_one_star) as [c Hc].
  exists c. intros s. unfold tokenise_steps.
  remember (N.of_nat (length s)) as n eqn:Hn.
  assert (HC : forall s', N.of_nat (length s') <= n -> rule_steps token_rules s' <= c * (n + 1)).
  { intros s' Hs'. destruct (Hc s') as [_ H].
    assert (Hm : c * (N.of_nat (length s') + 1) <= c * (n + 1)) by (apply N.mul_le_mono_l; lia).
    lia. }
  pose proof (tokenise_steps_fuel_bound (c * (n + 1)) n HC (length s) s) as H.
  rewrite <- Hn in H. specialize (H (N.le_refl n)).
  assert (Hm : n * (c * (n + 1)) <= (n + 1) * (c * (n + 1))) by (apply N.mul_le_mono_r; lia).
  rewrite (N.mul_comm (c * (n + 1)) (n + 1)). lia.
Qed.

(* ================================================================== *)
(* 6. Totality, shape and concatenation of the tokeniser               *)
(* ================================================================== *)

Lemma is_any_rule_eq (r : rule) : is_any_rule r = true -> r = [AAlt [[CAny]]].
Proof.
  intros H.
  destruct r as [|a r]; [discriminate|]. destruct r; [|destruct a as [[|[|[| |] [|]] [|]]| | |]; discriminate].
  destruct a as [alts|alts|alts|alts]; try discriminate.
  destruct alts as [|alt alts]; [discriminate|].
  destruct alts; [|destruct alt as [|[| |] [|]]; discriminate].
  destruct alt as [|k alt]; [discriminate|].
  destruct alt; [|destruct k; discriminate].
  destruct k; try discriminate. reflexivity.
Qed.

Lemma re_match_any (c : N) (s0 : str) : c <> 10 -> re_match [AAlt [[CAny]]] (c :: s0) = Some s0.
Proof.
  intros Hc. unfold re_match, bt_match. cbn [m_atoms m_atom try_alts match_seq cls_match].
  apply N.eqb_neq in Hc. rewrite Hc. reflexivity.
Qed.

Lemma first_rule_any (rules : list (N * rule)) (c : N) (s0 : str) :
  existsb (fun p => is_any_rule (snd p)) rules = true -> c <> 10 ->
  first_rule rules (c :: s0) <> None.
Proof.
  intros Hex Hc. induction rules as [|[ty r] rules IH]; cbn [existsb snd first_rule] in *.
  - discriminate.
  - destruct (re_match r (c :: s0)) as [rest|] eqn:Hm; [discriminate|].
    apply orb_true_iff in Hex. destruct Hex as [Hany|Hex]; [|exact (IH Hex)].
    apply is_any_rule_eq in Hany. subst r. rewrite (re_match_any c s0 Hc) in Hm. discriminate.
Qed.

Lemma first_rule_some (rules : list (N * rule)) (s : str) (ty : N) (rest : str) :
  first_rule rules s = Some (ty, rest) -> exists r, In (ty, r) rules /\ re_match r s = Some rest.
Proof.
  induction rules as [|[ty0 r0] rules IH]; cbn [first_rule]; intros H.
  - discriminate.
  - destruct (re_match r0 s) as [rest0|] eqn:Hm.
    + injection H as H1 H2. subst. exists r0. split; [left; reflexivity|exact Hm].
    + destruct (IH H) as [r [Hin Hr]]. exists r. split; [right; exact Hin|exact Hr].
Qed.

Lemma tokenise_fuel_nil (fuel : nat) : tokenise_fuel fuel [] = Ok [mkTok T_END []].
Proof. destruct fuel; reflexivity. Qed.

Lemma tokenise_fuel_O (c : N) (s0 : str) : tokenise_fuel O (c :: s0) = Crash 2.
Proof. reflexivity. Qed.

Lemma tokenise_fuel_S (f : nat) (c : N) (s0 : str) :
  tokenise_fuel (S f) (c :: s0) =
  match first_rule token_rules (c :: s0) with
  | None => Crash 1
  | Some (ty, rest) =>
      if Nat.ltb (length rest) (length (c :: s0))
      then ts <- tokenise_fuel f rest ;; Ok (mkTok ty (consumed (c :: s0) rest) :: ts)
      else Crash 2
  end.
Proof. reflexivity. Qed.

(* facts about a successful first_rule on the generated token rules *)
Lemma first_rule_token_rules (s : str) (ty : N) (rest : str) :
  first_rule token_rules s = Some (ty, rest) ->
  ty <> T_END /\ (length rest < length s)%nat /\ exists pre, s = pre ++ rest.
Proof.
  intros H. apply first_rule_some in H. destruct H as [r [Hin Hm]].
  pose proof token_rules_no_end as Hend. pose proof token_rules_nonempty as Hne.
  rewrite forallb_forall in Hend, Hne.
  specialize (Hend _ Hin). specialize (Hne _ Hin). cbn [fst snd] in Hend, Hne.
  split; [|split].
  - apply negb_true_iff in Hend. apply N.eqb_neq in Hend. exact Hend.
  - exact (re_match_nonempty r s rest Hne Hm).
  - exact (re_match_suffix r s rest Hm).
Qed.

Lemma no_newline_suffix (pre rest : str) : no_newline (pre ++ rest) -> no_newline rest.
Proof. unfold no_newline. intros H Hin. apply H. apply in_or_app. right. exact Hin. Qed.

Lemma tokenise_fuel_total :
  forall fuel s, (length s <= fuel)%nat -> no_newline s -> exists ts, tokenise_fuel fuel s = Ok ts.
Proof.
  induction fuel as [|f IH]; intros s Hl Hn.
  - destruct s as [|c s0]; [|cbn [length] in Hl; lia].
    eexists. reflexivity.
  - destruct s as [|c s0]; [eexists; reflexivity|].
    rewrite tokenise_fuel_S.
    assert (Hc : c <> 10).
    { intros Hc. apply Hn. left. exact Hc. }
    pose proof (first_rule_any token_rules c s0 token_rules_catch_all Hc) as Hsome.
    destruct (first_rule token_rules (c :: s0)) as [[ty rest]|] eqn:Hfr; [|congruence].
    destruct (first_rule_token_rules _ _ _ Hfr) as [_ [Hlt [pre Hpre]]].
    assert (Hltb : Nat.ltb (length rest) (length (c :: s0)) = true) by (apply Nat.ltb_lt; exact Hlt).
    rewrite Hltb.
    assert (Hrest : no_newline rest).
    { apply (no_newline_suffix pre). rewrite <- Hpre. exact Hn. }
    assert (Hlr : (length rest <= f)%nat) by lia.
    destruct (IH rest Hlr Hrest) as [ts Hts]. rewrite Hts. cbn [obind].
    eexists. reflexivity.
Qed.

(* totality: a line without newline always tokenises (never "Should be impossible", never an empty match) *)
Theorem tokenise_total (s : str) : no_newline s -> exists ts, tokenise s = Ok ts.
Proof. intros H. unfold tokenise. apply tokenise_fuel_total; [lia|exact H]. Qed.

(* one successful step of the tokeniser loop *)
Lemma tokenise_fuel_step (fuel : nat) (c : N) (s0 : str) (ts : list token) :
  tokenise_fuel fuel (c :: s0) = Ok ts ->
  exists f ty rest ts0,
    fuel = S f /\ first_rule token_rules (c :: s0) = Some (ty, rest) /\
    tokenise_fuel f rest = Ok ts0 /\ ts = mkTok ty (consumed (c :: s0) rest) :: ts0.
Proof.
  intros H. destruct fuel as [|f]; [rewrite tokenise_fuel_O in H; discriminate|].
  rewrite tokenise_fuel_S in H.
  destruct (first_rule token_rules (c :: s0)) as [[ty rest]|] eqn:Hfr; [|discriminate].
  destruct (Nat.ltb (length rest) (length (c :: s0))); [|discriminate].
  destruct (tokenise_fuel f rest) as [ts0| |w] eqn:Hts; cbn [obind] in H; try discriminate.
  injection H as H. exists f, ty, rest, ts0.
  split; [reflexivity|]. split; [reflexivity|]. split; [exact Hts|]. symmetry. exact H.
Qed.

Lemma tokenise_fuel_shape :
  forall fuel s ts, tokenise_fuel fuel s = Ok ts ->
  exists pre, ts = pre ++ [mkTok T_END []] /\ Forall (fun t => ttype t <> T_END) pre.
Proof.
  induction fuel as [|f IH]; intros s ts H.
  - destruct s as [|c s0]; [|rewrite tokenise_fuel_O in H; discriminate].
    rewrite tokenise_fuel_nil in H. injection H as H. subst ts. exists []. split; [reflexivity|constructor].
  - destruct s as [|c s0].
    + rewrite tokenise_fuel_nil in H. injection H as H. subst ts. exists []. split; [reflexivity|constructor].
    + apply tokenise_fuel_step in H.
      destruct H as [f' [ty [rest [ts0 [Hf [Hfr [Hts Heq]]]]]]]. injection Hf as Hf. subst f'.
      destruct (IH rest ts0 Hts) as [pre [Hpre Hall]].
      destruct (first_rule_token_rules _ _ _ Hfr) as [Hty _].
      exists (mkTok ty (consumed (c :: s0) rest) :: pre). split.
      * rewrite Heq, Hpre. reflexivity.
      * constructor; [exact Hty|exact Hall].
Qed.

(* shape of the token list: END exactly once, at the end *)
Theorem tokenise_shape (s : str) (ts : list token) :
  tokenise s = Ok ts ->
  exists pre, ts = pre ++ [mkTok T_END []] /\ Forall (fun t => ttype t <> T_END) pre.
Proof. unfold tokenise. apply tokenise_fuel_shape. Qed.

Lemma consumed_app (pre rest : str) : consumed (pre ++ rest) rest = pre.
Proof.
  unfold consumed. rewrite app_length.
  replace (length pre + length rest - length rest)%nat with (length pre) by lia.
  rewrite firstn_app, firstn_all, Nat.sub_diag. cbn [firstn]. apply app_nil_r.
Qed.

Lemma tokenise_fuel_concat :
  forall fuel s ts, tokenise_fuel fuel s = Ok ts -> flat_map tvalue ts = s.
Proof.
  induction fuel as [|f IH]; intros s ts H.
  - destruct s as [|c s0]; [|rewrite tokenise_fuel_O in H; discriminate].
    rewrite tokenise_fuel_nil in H. injection H as H. subst ts. reflexivity.
  - destruct s as [|c s0].
    + rewrite tokenise_fuel_nil in H. injection H as H. subst ts. reflexivity.
    + apply tokenise_fuel_step in H.
      destruct H as [f' [ty [rest [ts0 [Hf [Hfr [Hts Heq]]]]]]]. injection Hf as Hf. subst f'.
      destruct (first_rule_token_rules _ _ _ Hfr) as [_ [_ [pre Hpre]]].
      rewrite Heq. cbn [flat_map tvalue]. rewrite (IH rest ts0 Hts).
      rewrite Hpre at 1. rewrite consumed_app. symmetry. exact Hpre.
Qed.

(* the concatenation of the token values is the input *)
Theorem tokenise_concat (s : str) (ts : list token) :
  tokenise s = Ok ts -> flat_map tvalue ts = s.
Proof. unfold tokenise. apply tokenise_fuel_concat. Qed.
