(* Theorems about the HTML writer (C02, C01).  Statements fixed. *)
From Mammoth Require Import Html Writer Escape WriterSpec.
From Coq Require Import Lia.
Local Open Scope N_scope.

(* the generated table is exactly the four specials with their entities *)
Theorem escape_table_spec : escape_table = [(34, e_quot); (38, e_amp); (60, e_lt); (62, e_gt)].
Proof. reflexivity. Qed.

Theorem escape_app (a b : str) : escape (a ++ b) = escape a ++ escape b.
Proof. unfold escape. apply flat_map_app. Qed.

(* ---------- escape_char, case by case ---------- *)

Lemma escape_char_cases (c : N) :
  (c = 34 /\ escape_char c = e_quot) \/
  (c = 38 /\ escape_char c = e_amp) \/
  (c = 60 /\ escape_char c = e_lt) \/
  (c = 62 /\ escape_char c = e_gt) \/
  (c <> 34 /\ c <> 38 /\ c <> 60 /\ c <> 62 /\ escape_char c = [c]).
Proof.
  unfold escape_char. rewrite escape_table_spec. unfold lookup_N.
  destruct (N.eqb_spec c 34) as [E34|N34]; [left; split; [exact E34|reflexivity]|right].
  destruct (N.eqb_spec c 38) as [E38|N38]; [left; split; [exact E38|reflexivity]|right].
  destruct (N.eqb_spec c 60) as [E60|N60]; [left; split; [exact E60|reflexivity]|right].
  destruct (N.eqb_spec c 62) as [E62|N62]; [left; split; [exact E62|reflexivity]|right].
  repeat split; assumption.
Qed.

Lemma escape_cons (c : N) (s : str) : escape (c :: s) = escape_char c ++ escape s.
Proof. reflexivity. Qed.

Lemma escape_nil : escape [] = [].
Proof. reflexivity. Qed.

Lemma escape_char_no_specials (c d : N) : In d (escape_char c) -> d <> 60 /\ d <> 62 /\ d <> 34.
Proof.
  intros Hin.
  destruct (escape_char_cases c) as [[_ E]|[[_ E]|[[_ E]|[[_ E]|[N34 [N38 [N60 [N62 E]]]]]]]];
    rewrite E in Hin.
  - unfold e_quot in Hin. simpl in Hin.
    repeat (destruct Hin as [Hin|Hin]; [subst d; repeat split; discriminate|]). contradiction.
  - unfold e_amp in Hin. simpl in Hin.
    repeat (destruct Hin as [Hin|Hin]; [subst d; repeat split; discriminate|]). contradiction.
  - unfold e_lt in Hin. simpl in Hin.
    repeat (destruct Hin as [Hin|Hin]; [subst d; repeat split; discriminate|]). contradiction.
  - unfold e_gt in Hin. simpl in Hin.
    repeat (destruct Hin as [Hin|Hin]; [subst d; repeat split; discriminate|]). contradiction.
  - simpl in Hin. destruct Hin as [Hin|Hin]; [|contradiction]. subst d. repeat split; assumption.
Qed.

Theorem escape_no_specials (s : str) (c : N) : In c (escape s) -> c <> 60 /\ c <> 62 /\ c <> 34.
Proof.
  induction s as [|x s IH]; intros Hin.
  - simpl in Hin. contradiction.
  - rewrite escape_cons in Hin. apply in_app_or in Hin. destruct Hin as [Hin|Hin].
    + exact (escape_char_no_specials x c Hin).
    + exact (IH Hin).
Qed.

(* ---------- ent_prefix, characterised ---------- *)

Lemma ent_prefix_amp (r : str) : ent_prefix (e_amp ++ r) = Some (38, r).
Proof. reflexivity. Qed.
Lemma ent_prefix_lt (r : str) : ent_prefix (e_lt ++ r) = Some (60, r).
Proof. reflexivity. Qed.
Lemma ent_prefix_gt (r : str) : ent_prefix (e_gt ++ r) = Some (62, r).
Proof. reflexivity. Qed.
Lemma ent_prefix_quot (r : str) : ent_prefix (e_quot ++ r) = Some (34, r).
Proof. reflexivity. Qed.
Lemma ent_prefix_other (c : N) (r : str) : c <> 38 -> ent_prefix (c :: r) = None.
Proof.
  intros Hc. unfold ent_prefix, e_amp, e_lt, e_gt, e_quot.
  assert (E : forall p s, starts_with (38 :: p) (c :: s) = false).
  { intros p s. cbn [starts_with]. destruct (N.eqb_spec 38 c) as [E|_]; [congruence|reflexivity]. }
  rewrite !E. reflexivity.
Qed.

(* one step of the fuelled decoders over an escaped character *)
Lemma amps_ok_fuel_S (f : nat) (c : N) (r : str) :
  amps_ok_fuel (S f) (c :: r) =
  match ent_prefix (c :: r) with
  | Some (_, r') => amps_ok_fuel f r'
  | None => negb (N.eqb c 38) && amps_ok_fuel f r
  end.
Proof. reflexivity. Qed.

Lemma decode_fuel_S (f : nat) (c : N) (r : str) :
  decode_fuel (S f) (c :: r) =
  match ent_prefix (c :: r) with
  | Some (d, r') => d :: decode_fuel f r'
  | None => c :: decode_fuel f r
  end.
Proof. reflexivity. Qed.

Lemma amps_ok_fuel_nil (f : nat) : amps_ok_fuel f [] = true.
Proof. destruct f; reflexivity. Qed.

Lemma decode_fuel_nil (f : nat) : decode_fuel f [] = [].
Proof. destruct f; reflexivity. Qed.

Lemma amps_step_ent (e x : str) (d : N) (f : nat) :
  ent_prefix (e ++ x) = Some (d, x) -> e <> [] ->
  amps_ok_fuel (S f) (e ++ x) = amps_ok_fuel f x.
Proof.
  intros Hp He. destruct e as [|c e]; [congruence|].
  simpl app in *. rewrite amps_ok_fuel_S. rewrite Hp. reflexivity.
Qed.

Lemma decode_step_ent (e x : str) (d : N) (f : nat) :
  ent_prefix (e ++ x) = Some (d, x) -> e <> [] ->
  decode_fuel (S f) (e ++ x) = d :: decode_fuel f x.
Proof.
  intros Hp He. destruct e as [|c e]; [congruence|].
  simpl app in *. rewrite decode_fuel_S. rewrite Hp. reflexivity.
Qed.

Lemma amps_step_char (c : N) (x : str) (f : nat) :
  amps_ok_fuel (S f) (escape_char c ++ x) = amps_ok_fuel f x.
Proof.
  destruct (escape_char_cases c) as [[_ E]|[[_ E]|[[_ E]|[[_ E]|[_ [N38 [_ [_ E]]]]]]]];
    rewrite E.
  - apply (amps_step_ent e_quot x 34 f (ent_prefix_quot x)). discriminate.
  - apply (amps_step_ent e_amp x 38 f (ent_prefix_amp x)). discriminate.
  - apply (amps_step_ent e_lt x 60 f (ent_prefix_lt x)). discriminate.
  - apply (amps_step_ent e_gt x 62 f (ent_prefix_gt x)). discriminate.
  - simpl app. rewrite amps_ok_fuel_S. rewrite (ent_prefix_other c x N38).
    destruct (N.eqb_spec c 38) as [E38|_]; [contradiction|]. reflexivity.
Qed.

Lemma decode_step_char (c : N) (x : str) (f : nat) :
  decode_fuel (S f) (escape_char c ++ x) = c :: decode_fuel f x.
Proof.
  destruct (escape_char_cases c) as [[C E]|[[C E]|[[C E]|[[C E]|[_ [N38 [_ [_ E]]]]]]]];
    rewrite E.
  - rewrite C. apply (decode_step_ent e_quot x 34 f (ent_prefix_quot x)). discriminate.
  - rewrite C. apply (decode_step_ent e_amp x 38 f (ent_prefix_amp x)). discriminate.
  - rewrite C. apply (decode_step_ent e_lt x 60 f (ent_prefix_lt x)). discriminate.
  - rewrite C. apply (decode_step_ent e_gt x 62 f (ent_prefix_gt x)). discriminate.
  - simpl app. rewrite decode_fuel_S. rewrite (ent_prefix_other c x N38). reflexivity.
Qed.

Lemma amps_ok_fuel_escape (s r : str) (f : nat) :
  amps_ok_fuel (length s + f) (escape s ++ r) = amps_ok_fuel f r.
Proof.
  induction s as [|c s IH].
  - reflexivity.
  - rewrite escape_cons. rewrite <- app_assoc. simpl length. simpl plus.
    rewrite amps_step_char. exact IH.
Qed.

Lemma decode_fuel_escape (s r : str) (f : nat) :
  decode_fuel (length s + f) (escape s ++ r) = s ++ decode_fuel f r.
Proof.
  induction s as [|c s IH].
  - reflexivity.
  - rewrite escape_cons. rewrite <- app_assoc. simpl length. simpl plus.
    rewrite decode_step_char. rewrite IH. reflexivity.
Qed.

Lemma escape_char_length_pos (c : N) : (1 <= length (escape_char c))%nat.
Proof.
  destruct (escape_char_cases c) as [[_ E]|[[_ E]|[[_ E]|[[_ E]|[_ [_ [_ [_ E]]]]]]]];
    rewrite E; simpl; lia.
Qed.

Lemma escape_length (s : str) : (length s <= length (escape s))%nat.
Proof.
  induction s as [|c s IH].
  - simpl. lia.
  - rewrite escape_cons. rewrite app_length. pose proof (escape_char_length_pos c) as Hc.
    simpl length. lia.
Qed.

Theorem escape_amps_ok (s : str) : amps_ok (escape s) = true.
Proof.
  unfold amps_ok. pose proof (escape_length s) as Hl.
  replace (length (escape s)) with (length s + (length (escape s) - length s))%nat by lia.
  rewrite <- (app_nil_r (escape s)) at 2.
  rewrite amps_ok_fuel_escape. apply amps_ok_fuel_nil.
Qed.

Theorem decode_escape (s : str) : decode_entities (escape s) = s.
Proof.
  unfold decode_entities. pose proof (escape_length s) as Hl.
  replace (length (escape s)) with (length s + (length (escape s) - length s))%nat by lia.
  rewrite <- (app_nil_r (escape s)) at 2.
  rewrite decode_fuel_escape. rewrite decode_fuel_nil. apply app_nil_r.
Qed.

(* ---------- an induction principle for nodes with Forall over children ---------- *)

Section NodeInd.
  Variable P : node str -> Prop.
  Hypothesis HText : forall s, P (Text s).
  Hypothesis HForce : P Force.
  Hypothesis HElem : forall t cs, Forall P cs -> P (Elem t cs).

  Fixpoint node_ind_forall (n : node str) : P n :=
    match n with
    | Text s => HText s
    | Force => HForce
    | Elem t cs =>
        HElem t cs ((fix go (l : list (node str)) : Forall P l :=
                       match l with
                       | [] => Forall_nil P
                       | c :: l' => Forall_cons c (node_ind_forall c) (go l')
                       end) cs)
    end.
End NodeInd.

(* ---------- balance ---------- *)

Lemma str_eqb_refl (s : str) : str_eqb s s = true.
Proof.
  induction s as [|c s IH]; [reflexivity|]. simpl. rewrite N.eqb_refl. exact IH.
Qed.

Lemma balanced_forest (ns : list (node str)) :
  Forall (fun n => forall st rest, balanced st (events_node n ++ rest) = balanced st rest) ns ->
  forall st rest, balanced st (events ns ++ rest) = balanced st rest.
Proof.
  intros HF. induction HF as [|n ns Hn _ IH]; intros st rest.
  - reflexivity.
  - unfold events in *. cbn [flat_map]. rewrite <- app_assoc. rewrite Hn. apply IH.
Qed.

Lemma balanced_node (n : node str) :
  forall st rest, balanced st (events_node n ++ rest) = balanced st rest.
Proof.
  induction n as [s| |t cs IH] using node_ind_forall; intros st rest.
  - reflexivity.
  - reflexivity.
  - cbn [events_node]. destruct (is_void t cs).
    + reflexivity.
    + pose proof (balanced_forest cs IH) as HF. unfold events in HF.
      rewrite <- !app_assoc. cbn [app balanced].
      rewrite HF. cbn [app balanced]. rewrite str_eqb_refl. reflexivity.
Qed.

(* tags balance and nest, by construction of the event stream *)
Theorem events_balanced (ns : list (node str)) : balanced [] (events ns) = true.
Proof.
  rewrite <- (app_nil_r (events ns)). rewrite balanced_forest.
  - reflexivity.
  - apply Forall_forall. intros n _. apply balanced_node.
Qed.

(* ---------- text of token streams ---------- *)

Lemma tokens_text_app (a b : list token) : tokens_text (a ++ b) = tokens_text a ++ tokens_text b.
Proof. unfold tokens_text. apply flat_map_app. Qed.

Lemma tokens_text_cons (t : token) (ts : list token) :
  tokens_text (t :: ts) = match t with TText s => s | _ => [] end ++ tokens_text ts.
Proof. reflexivity. Qed.

Theorem norm_events_text (ts : list token) : tokens_text (norm_events ts) = tokens_text ts.
Proof.
  induction ts as [|t ts IH].
  - reflexivity.
  - destruct t as [n a|n|n a|s]; cbn [norm_events]; try (rewrite !tokens_text_cons; rewrite IH; reflexivity).
    rewrite (tokens_text_cons (TText s) ts). rewrite <- IH.
    destruct (norm_events ts) as [|u r] eqn:En.
    + destruct s; [reflexivity|]. rewrite tokens_text_cons. reflexivity.
    + destruct u as [n a|n|n a|b].
      * destruct s; [reflexivity|]. rewrite (tokens_text_cons (TText _)). reflexivity.
      * destruct s; [reflexivity|]. rewrite (tokens_text_cons (TText _)). reflexivity.
      * destruct s; [reflexivity|]. rewrite (tokens_text_cons (TText _)). reflexivity.
      * rewrite !(tokens_text_cons (TText _)). rewrite app_assoc. reflexivity.
Qed.

Lemma events_text_forest (ns : list (node str)) :
  Forall (fun n => tokens_text (events_node n) = node_text n) ns ->
  tokens_text (events ns) = forest_text ns.
Proof.
  intros HF. induction HF as [|n ns Hn _ IH].
  - reflexivity.
  - unfold events, forest_text in *. cbn [flat_map]. rewrite tokens_text_app. rewrite Hn, IH. reflexivity.
Qed.

Lemma events_text_node (n : node str) : tokens_text (events_node n) = node_text n.
Proof.
  induction n as [s| |t cs IH] using node_ind_forall.
  - simpl. apply app_nil_r.
  - reflexivity.
  - cbn [events_node node_text]. pose proof (events_text_forest cs IH) as HF.
    unfold events, forest_text in HF.
    destruct cs as [|c cs].
    + destruct (is_void t []); reflexivity.
    + cbn [is_void]. rewrite !tokens_text_app. rewrite HF. simpl. apply app_nil_r.
Qed.

Theorem events_text (ns : list (node str)) : tokens_text (events ns) = forest_text ns.
Proof.
  apply events_text_forest. apply Forall_forall. intros n _. apply events_text_node.
Qed.

(* ====================================================================== *)
(* The round trip                                                          *)
(* ====================================================================== *)

(* ---------- span ---------- *)

Lemma span_app (f : N -> bool) (a b : str) :
  forallb f a = true ->
  match b with [] => True | c :: _ => f c = false end ->
  span f (a ++ b) = (a, b).
Proof.
  intros Ha Hb. induction a as [|x a IH].
  - simpl app. destruct b as [|c b]; [reflexivity|]. cbn [span]. rewrite Hb. reflexivity.
  - cbn [forallb] in Ha. apply andb_true_iff in Ha. destruct Ha as [Hx Ha].
    simpl app. cbn [span]. rewrite Hx. rewrite (IH Ha). reflexivity.
Qed.

(* ---------- lex_run, step equations ---------- *)

Lemma lex_run_text_cons (c : N) (r acc : str) (out : list token) :
  c <> 60 -> c <> 62 -> lex_run (c :: r) (MText acc) out = lex_run r (MText (c :: acc)) out.
Proof.
  intros N60 N62. cbn [lex_run].
  destruct (N.eqb_spec c 60) as [E|_]; [contradiction|].
  destruct (N.eqb_spec c 62) as [E|_]; [contradiction|]. reflexivity.
Qed.

Lemma lex_run_lt (r acc : str) (out : list token) :
  lex_run (60 :: r) (MText acc) out =
  match flush_text acc out with Some o => lex_run r (MTag []) o | None => None end.
Proof. reflexivity. Qed.

Lemma lex_run_tag_cons (c : N) (r acc : str) (out : list token) :
  c <> 60 -> c <> 62 -> lex_run (c :: r) (MTag acc) out = lex_run r (MTag (c :: acc)) out.
Proof.
  intros N60 N62. cbn [lex_run].
  destruct (N.eqb_spec c 62) as [E|_]; [contradiction|].
  destruct (N.eqb_spec c 60) as [E|_]; [contradiction|]. reflexivity.
Qed.

Lemma lex_run_gt (r acc : str) (out : list token) :
  lex_run (62 :: r) (MTag acc) out =
  match lex_tag (rev acc) with Some t => lex_run r (MText []) (t :: out) | None => None end.
Proof. reflexivity. Qed.

Definition no_angle (s : str) : Prop := forall c, In c s -> c <> 60 /\ c <> 62.

Lemma no_angle_cons (c : N) (s : str) : no_angle (c :: s) -> c <> 60 /\ c <> 62 /\ no_angle s.
Proof.
  intros H. destruct (H c (or_introl eq_refl)) as [A B]. repeat split; try assumption.
  - apply (H c0). right. assumption.
  - apply (H c0). right. assumption.
Qed.

Lemma no_angle_app (a b : str) : no_angle a -> no_angle b -> no_angle (a ++ b).
Proof.
  intros Ha Hb c Hin. apply in_app_or in Hin. destruct Hin as [Hin|Hin]; [exact (Ha c Hin)|exact (Hb c Hin)].
Qed.

Lemma no_angle_escape (s : str) : no_angle (escape s).
Proof.
  intros c Hin. destruct (escape_no_specials s c Hin) as [A [B _]]. split; assumption.
Qed.

Lemma lex_run_text_app (s r acc : str) (out : list token) :
  no_angle s -> lex_run (s ++ r) (MText acc) out = lex_run r (MText (rev s ++ acc)) out.
Proof.
  revert acc. induction s as [|c s IH]; intros acc Hs.
  - reflexivity.
  - apply no_angle_cons in Hs. destruct Hs as [N60 [N62 Hs]].
    simpl app. rewrite (lex_run_text_cons c _ acc out N60 N62). rewrite (IH (c :: acc) Hs).
    cbn [rev]. rewrite <- app_assoc. reflexivity.
Qed.

Lemma lex_run_tag_app (s r acc : str) (out : list token) :
  no_angle s ->
  lex_run (s ++ 62 :: r) (MTag acc) out =
  match lex_tag (rev acc ++ s) with Some t => lex_run r (MText []) (t :: out) | None => None end.
Proof.
  revert acc. induction s as [|c s IH]; intros acc Hs.
  - simpl app. rewrite lex_run_gt. rewrite app_nil_r. reflexivity.
  - apply no_angle_cons in Hs. destruct Hs as [N60 [N62 Hs]].
    simpl app. rewrite (lex_run_tag_cons c _ acc out N60 N62). rewrite (IH (c :: acc) Hs).
    cbn [rev]. rewrite <- app_assoc. reflexivity.
Qed.

(* a whole tag, from text mode *)
Lemma lex_run_tag (body r acc : str) (out : list token) (t : token) :
  no_angle body -> lex_tag body = Some t ->
  lex_run (60 :: body ++ 62 :: r) (MText acc) out =
  match flush_text acc out with Some o => lex_run r (MText []) (t :: o) | None => None end.
Proof.
  intros Hb Ht. rewrite lex_run_lt. destruct (flush_text acc out) as [o|]; [|reflexivity].
  rewrite (lex_run_tag_app body r [] o Hb). cbn [rev app]. rewrite Ht. reflexivity.
Qed.

(* ---------- flushing an escaped accumulator ---------- *)

Definition flushed (p : str) (out : list token) : list token :=
  match p with [] => out | _ => TText p :: out end.

Lemma existsb_34_escape (s : str) : existsb (N.eqb 34) (escape s) = false.
Proof.
  destruct (existsb (N.eqb 34) (escape s)) eqn:E; [|reflexivity].
  apply existsb_exists in E. destruct E as [x [Hin Hx]]. apply N.eqb_eq in Hx. subst x.
  destruct (escape_no_specials s 34 Hin) as [_ [_ C]]. congruence.
Qed.

Lemma flush_escape (p : str) (out : list token) :
  flush_text (rev (escape p)) out = Some (flushed p out).
Proof.
  destruct p as [|c p].
  - reflexivity.
  - unfold flush_text. destruct (rev (escape (c :: p))) as [|x l] eqn:E.
    + exfalso. apply (f_equal (@length N)) in E. rewrite rev_length in E.
      pose proof (escape_length (c :: p)) as Hl. simpl in E, Hl. lia.
    + rewrite <- E. rewrite rev_involutive. rewrite escape_amps_ok. rewrite existsb_34_escape.
      rewrite decode_escape. reflexivity.
Qed.

(* ---------- tags ---------- *)

Lemma N_match_47 (A : Type) (c : N) (a b : A) :
  c <> 47 -> match c with 47 => a | _ => b end = b.
Proof.
  intros Hc. destruct c as [|p]; [reflexivity|].
  destruct p as [p|p|]; try reflexivity.
  destruct p as [p|p|]; try reflexivity.
  destruct p as [p|p|]; try reflexivity.
  destruct p as [p|p|]; try reflexivity.
  destruct p as [p|p|]; try reflexivity.
  destruct p as [p|p|]; try reflexivity.
  congruence.
Qed.

Ltac destruct_47 c Hc :=
  let p := fresh "p" in
  destruct c as [|p]; [reflexivity|];
  destruct p as [p|p|]; try reflexivity;
  destruct p as [p|p|]; try reflexivity;
  destruct p as [p|p|]; try reflexivity;
  destruct p as [p|p|]; try reflexivity;
  destruct p as [p|p|]; try reflexivity;
  destruct p as [p|p|]; try reflexivity;
  congruence.

Lemma lex_tag_open (c : N) (r : str) :
  c <> 47 ->
  lex_tag (c :: r) =
  let (nm, r') := span name_char (c :: r) in
  if plain_name nm then
    match lex_attrs (S (length r')) r' [] with
    | Some (attrs, true) => Some (TSelf nm attrs)
    | Some (attrs, false) => Some (TStart nm attrs)
    | None => None
    end
  else None.
Proof. intros Hc. unfold lex_tag. destruct_47 c Hc. Qed.

Lemma lex_attrs_step (f : nat) (k0 : N) (r : str) (acc : list (str * str)) :
  k0 <> 47 ->
  lex_attrs (S f) (32 :: k0 :: r) acc =
  let (k, r1) := span name_char (k0 :: r) in
  match k, r1 with
  | _ :: _, 61 :: 34 :: r2 =>
      let (v, r3) := span (fun c => negb (N.eqb c 34)) r2 in
      match r3 with
      | 34 :: r4 =>
          if amps_ok v && negb (existsb (fun c => N.eqb c 60 || N.eqb c 62) v)
          then lex_attrs f r4 ((k, decode_entities v) :: acc)
          else None
      | _ => None
      end
  | _, _ => None
  end.
Proof. intros Hc. cbn [lex_attrs]. destruct_47 k0 Hc. Qed.

Lemma name_char_not (c : N) :
  name_char c = true ->
  c <> 32 /\ c <> 34 /\ c <> 47 /\ c <> 60 /\ c <> 61 /\ c <> 62 /\ c <> 38.
Proof.
  unfold name_char. intros H. apply negb_true_iff in H.
  repeat (apply orb_false_iff in H; let A := fresh "A" in destruct H as [H A]; apply N.eqb_neq in A).
  apply N.eqb_neq in H. repeat split; assumption.
Qed.

Lemma plain_name_inv (s : str) :
  plain_name s = true -> exists c r, s = c :: r /\ name_char c = true /\ forallb name_char s = true.
Proof.
  destruct s as [|c r]; [discriminate|]. intros H. exists c, r. split; [reflexivity|].
  unfold plain_name in H. split; [|exact H]. cbn [forallb] in H. apply andb_true_iff in H. tauto.
Qed.

Lemma plain_name_no_angle (s : str) : plain_name s = true -> no_angle s.
Proof.
  intros H c Hin. apply plain_name_inv in H. destruct H as [_ [_ [_ [_ H]]]].
  rewrite forallb_forall in H. apply H in Hin. apply name_char_not in Hin. tauto.
Qed.

Lemma forallb_not34_escape (v : str) : forallb (fun c => negb (N.eqb c 34)) (escape v) = true.
Proof.
  apply forallb_forall. intros c Hin. destruct (escape_no_specials v c Hin) as [_ [_ C]].
  apply negb_true_iff. apply N.eqb_neq. exact C.
Qed.

Lemma existsb_angle_escape (v : str) : existsb (fun c => N.eqb c 60 || N.eqb c 62) (escape v) = false.
Proof.
  destruct (existsb (fun c => N.eqb c 60 || N.eqb c 62) (escape v)) eqn:E; [|reflexivity].
  apply existsb_exists in E. destruct E as [x [Hin Hx]].
  destruct (escape_no_specials v x Hin) as [A [B _]].
  apply orb_true_iff in Hx. destruct Hx as [Hx|Hx]; apply N.eqb_eq in Hx; contradiction.
Qed.

(* one attribute *)
Lemma lex_attrs_one (f : nat) (k v r4 : str) (acc : list (str * str)) :
  plain_name k = true ->
  lex_attrs (S f) (32 :: k ++ 61 :: 34 :: escape v ++ 34 :: r4) acc = lex_attrs f r4 ((k, v) :: acc).
Proof.
  intros Hk. destruct (plain_name_inv k Hk) as [c [k' [Ek [Hc Hall]]]].
  pose proof (name_char_not c Hc) as Hn.
  assert (Hspan : span name_char (k ++ 61 :: 34 :: escape v ++ 34 :: r4) = (k, 61 :: 34 :: escape v ++ 34 :: r4)).
  { apply span_app; [exact Hall|reflexivity]. }
  subst k. simpl app in *. rewrite lex_attrs_step by tauto. rewrite Hspan.
  rewrite (span_app _ (escape v) (34 :: r4) (forallb_not34_escape v) eq_refl).
  rewrite escape_amps_ok, existsb_angle_escape, decode_escape. reflexivity.
Qed.

Lemma attr_string_cons (k v : str) (attrs : list (str * str)) :
  attr_string ((k, v) :: attrs) = 32 :: k ++ 61 :: 34 :: escape v ++ 34 :: attr_string attrs.
Proof.
  unfold attr_string. cbn [flat_map fst snd]. simpl app. rewrite <- !app_assoc. simpl app.
  rewrite <- !app_assoc. reflexivity.
Qed.

Definition attr_tail (self : bool) : str := if self then [32; 47] else [].

Lemma lex_attrs_all (self : bool) (attrs : list (str * str)) :
  forallb (fun kv => plain_name (fst kv)) attrs = true ->
  forall (f : nat) (acc : list (str * str)),
  (length attrs < f)%nat ->
  lex_attrs f (attr_string attrs ++ attr_tail self) acc = Some (rev acc ++ attrs, self).
Proof.
  intros Hp. induction attrs as [|[k v] attrs IH]; intros f acc Hf.
  - destruct f as [|f]; [simpl in Hf; lia|]. rewrite app_nil_r.
    destruct self; reflexivity.
  - cbn [forallb fst] in Hp. apply andb_true_iff in Hp. destruct Hp as [Hk Hp].
    destruct f as [|f]; [simpl in Hf; lia|]. simpl length in Hf.
    rewrite attr_string_cons. simpl app. rewrite <- !app_assoc. simpl app. rewrite <- !app_assoc. simpl app.
    rewrite (lex_attrs_one f k v _ acc Hk). rewrite (IH Hp f _) by lia.
    cbn [rev]. rewrite <- app_assoc. reflexivity.
Qed.

Lemma attr_string_length (attrs : list (str * str)) : (length attrs <= length (attr_string attrs))%nat.
Proof.
  induction attrs as [|[k v] attrs IH]; [simpl; lia|].
  rewrite attr_string_cons. simpl length. rewrite !app_length. simpl length. rewrite !app_length. simpl length. lia.
Qed.

Lemma attr_string_head (attrs : list (str * str)) (self : bool) :
  match attr_string attrs ++ attr_tail self with [] => True | c :: _ => name_char c = false end.
Proof.
  destruct attrs as [|[k v] attrs].
  - destruct self; simpl; trivial.
  - rewrite attr_string_cons. reflexivity.
Qed.

Lemma lex_tag_start (self : bool) (nm : str) (attrs : list (str * str)) :
  plain_name nm = true ->
  forallb (fun kv => plain_name (fst kv)) attrs = true ->
  lex_tag (nm ++ attr_string attrs ++ attr_tail self) =
  Some (if self then TSelf nm attrs else TStart nm attrs).
Proof.
  intros Hn Ha. destruct (plain_name_inv nm Hn) as [c [nm' [En [Hc Hall]]]].
  pose proof (name_char_not c Hc) as Hnc.
  assert (Hspan : span name_char (nm ++ attr_string attrs ++ attr_tail self) = (nm, attr_string attrs ++ attr_tail self)).
  { apply span_app; [exact Hall|apply attr_string_head]. }
  rewrite En in Hspan |- * at 1. simpl app in *. rewrite lex_tag_open by tauto. rewrite Hspan.
  rewrite <- En. rewrite Hn.
  rewrite (lex_attrs_all self attrs Ha).
  - destruct self; reflexivity.
  - rewrite app_length. pose proof (attr_string_length attrs) as Hl. lia.
Qed.

Lemma lex_tag_end (nm : str) : plain_name nm = true -> lex_tag (47 :: nm) = Some (TEnd nm).
Proof. intros Hn. unfold lex_tag. rewrite Hn. reflexivity. Qed.

Lemma no_angle_attr_string (attrs : list (str * str)) :
  forallb (fun kv => plain_name (fst kv)) attrs = true -> no_angle (attr_string attrs).
Proof.
  induction attrs as [|[k v] attrs IH]; intros Hp.
  - intros c Hin. contradiction.
  - cbn [forallb fst] in Hp. apply andb_true_iff in Hp. destruct Hp as [Hk Hp].
    rewrite attr_string_cons.
    change (32 :: k ++ 61 :: 34 :: escape v ++ 34 :: attr_string attrs)
      with ([32] ++ k ++ [61; 34] ++ escape v ++ [34] ++ attr_string attrs).
    repeat apply no_angle_app.
    + intros x [Hx|[]]. subst x. split; discriminate.
    + apply plain_name_no_angle. exact Hk.
    + intros x [Hx|[Hx|[]]]; subst x; split; discriminate.
    + apply no_angle_escape.
    + intros x [Hx|[]]. subst x. split; discriminate.
    + exact (IH Hp).
Qed.

(* ---------- the lexer's view of a token stream: pending text, emitted tokens (reversed) ---------- *)

Definition feed_tok (st : str * list token) (t : token) : str * list token :=
  match t with
  | TText s => (fst st ++ s, snd st)
  | _ => ([], t :: flushed (fst st) (snd st))
  end.

Definition feed (ts : list token) (st : str * list token) : str * list token :=
  fold_left feed_tok ts st.

Lemma feed_app (a b : list token) (st : str * list token) : feed (a ++ b) st = feed b (feed a st).
Proof. unfold feed. apply fold_left_app. Qed.

Definition finish (st : str * list token) : list token := rev (flushed (fst st) (snd st)).

Lemma norm_events_nil_text (ts : list token) : norm_events (TText [] :: ts) = norm_events ts.
Proof.
  cbn [norm_events]. destruct (norm_events ts) as [|u r]; [reflexivity|].
  destruct u; reflexivity.
Qed.

Lemma norm_events_merge (p s : str) (ts : list token) :
  norm_events (TText p :: TText s :: ts) = norm_events (TText (p ++ s) :: ts).
Proof.
  cbn [norm_events]. destruct (norm_events ts) as [|u r].
  - destruct s as [|c s].
    + rewrite app_nil_r. reflexivity.
    + destruct p; reflexivity.
  - destruct u as [n a|n|n a|b].
    + destruct s as [|c s]; [rewrite app_nil_r; reflexivity|destruct p; reflexivity].
    + destruct s as [|c s]; [rewrite app_nil_r; reflexivity|destruct p; reflexivity].
    + destruct s as [|c s]; [rewrite app_nil_r; reflexivity|destruct p; reflexivity].
    + rewrite app_assoc. reflexivity.
Qed.

Lemma finish_feed (ts : list token) :
  forall (p : str) (out : list token),
  finish (feed ts (p, out)) = rev out ++ norm_events (TText p :: ts).
Proof.
  induction ts as [|t ts IH]; intros p out.
  - unfold feed, finish. cbn [fold_left fst snd norm_events]. destruct p; [|cbn [flushed rev]]; cbn [flushed]; [rewrite app_nil_r|]; reflexivity.
  - unfold feed. cbn [fold_left]. fold (feed ts (feed_tok (p, out) t)).
    destruct t as [n a|n|n a|s]; cbn [feed_tok fst snd].
    + rewrite IH. rewrite norm_events_nil_text. cbn [norm_events rev].
      destruct p; cbn [flushed rev]; rewrite <- ?app_assoc; reflexivity.
    + rewrite IH. rewrite norm_events_nil_text. cbn [norm_events rev].
      destruct p; cbn [flushed rev]; rewrite <- ?app_assoc; reflexivity.
    + rewrite IH. rewrite norm_events_nil_text. cbn [norm_events rev].
      destruct p; cbn [flushed rev]; rewrite <- ?app_assoc; reflexivity.
    + rewrite IH. rewrite norm_events_merge. reflexivity.
Qed.

(* ---------- the main simulation ---------- *)

Definition sim_node (n : node str) : Prop :=
  plain_node n = true ->
  forall (rest p : str) (out : list token),
  lex_run (write_node n ++ rest) (MText (rev (escape p))) out =
  lex_run rest (MText (rev (escape (fst (feed (events_node n) (p, out))))))
          (snd (feed (events_node n) (p, out))).

Lemma sim_forest (ns : list (node str)) :
  Forall sim_node ns -> forallb plain_node ns = true ->
  forall (rest p : str) (out : list token),
  lex_run (write_html ns ++ rest) (MText (rev (escape p))) out =
  lex_run rest (MText (rev (escape (fst (feed (events ns) (p, out))))))
          (snd (feed (events ns) (p, out))).
Proof.
  intros HF. induction HF as [|n ns Hn _ IH]; intros Hp rest p out.
  - reflexivity.
  - cbn [forallb] in Hp. apply andb_true_iff in Hp. destruct Hp as [Hpn Hpns].
    unfold write_html, events in *. cbn [flat_map]. rewrite <- app_assoc. rewrite feed_app.
    rewrite (Hn Hpn). destruct (feed (events_node n) (p, out)) as [p1 out1]. cbn [fst snd].
    apply (IH Hpns).
Qed.

Lemma sim_tag (self : bool) (nm : str) (attrs : list (str * str)) (rest p : str) (out : list token) :
  plain_name nm = true ->
  forallb (fun kv => plain_name (fst kv)) attrs = true ->
  lex_run (60 :: (nm ++ attr_string attrs ++ attr_tail self) ++ 62 :: rest) (MText (rev (escape p))) out =
  lex_run rest (MText []) ((if self then TSelf nm attrs else TStart nm attrs) :: flushed p out).
Proof.
  intros Hn Ha.
  rewrite (lex_run_tag _ rest _ out (if self then TSelf nm attrs else TStart nm attrs)).
  - rewrite flush_escape. reflexivity.
  - apply no_angle_app; [apply plain_name_no_angle; exact Hn|].
    apply no_angle_app; [apply no_angle_attr_string; exact Ha|].
    destruct self; intros x Hin; simpl in Hin; [|contradiction].
    destruct Hin as [Hx|[Hx|[]]]; subst x; split; discriminate.
  - apply lex_tag_start; assumption.
Qed.

Lemma sim_end (nm rest p : str) (out : list token) :
  plain_name nm = true ->
  lex_run (60 :: (47 :: nm) ++ 62 :: rest) (MText (rev (escape p))) out =
  lex_run rest (MText []) (TEnd nm :: flushed p out).
Proof.
  intros Hn. rewrite (lex_run_tag _ rest _ out (TEnd nm)).
  - rewrite flush_escape. reflexivity.
  - change (47 :: nm) with ([47] ++ nm). apply no_angle_app; [|apply plain_name_no_angle; exact Hn].
    intros x [Hx|[]]. subst x. split; discriminate.
  - apply lex_tag_end. exact Hn.
Qed.

Lemma sim_all (n : node str) : sim_node n.
Proof.
  induction n as [s| |t cs IH] using node_ind_forall; intros Hp rest p out.
  - cbn [write_node events_node]. unfold feed. cbn [fold_left feed_tok fst snd].
    rewrite (lex_run_text_app _ rest _ out (no_angle_escape s)).
    rewrite <- rev_app_distr. rewrite <- escape_app. reflexivity.
  - reflexivity.
  - cbn [plain_node] in Hp. apply andb_true_iff in Hp. destruct Hp as [Hp Hcs].
    apply andb_true_iff in Hp. destruct Hp as [Hn Ha].
    cbn [write_node events_node]. destruct (is_void t cs) eqn:Ev.
    + unfold feed. cbn [fold_left feed_tok fst snd].
      pose proof (sim_tag true (tname t) (tattrs t) rest p out Hn Ha) as H.
      cbn [attr_tail] in H. rewrite escape_nil. cbn [rev]. rewrite <- H. f_equal.
      simpl app. rewrite <- !app_assoc. reflexivity.
    + pose proof (sim_forest cs IH Hcs) as HF. unfold write_html, events in HF.
      change ([TStart (tname t) (tattrs t)] ++ flat_map events_node cs ++ [TEnd (tname t)])
        with (TStart (tname t) (tattrs t) :: flat_map events_node cs ++ [TEnd (tname t)]).
      unfold feed at 1 2. cbn [fold_left feed_tok fst snd].
      fold (feed (flat_map events_node cs ++ [TEnd (tname t)]) ([], TStart (tname t) (tattrs t) :: flushed p out)).
      rewrite feed_app.
      pose proof (sim_tag false (tname t) (tattrs t)
                    (flat_map write_node cs ++ 60 :: (47 :: tname t) ++ 62 :: rest) p out Hn Ha) as H1.
      cbn [attr_tail] in H1. rewrite app_nil_r in H1.
      replace (([60] ++ tname t ++ attr_string (tattrs t) ++ [62] ++ flat_map write_node cs ++ [60; 47] ++ tname t ++ [62]) ++ rest)
        with (60 :: (tname t ++ attr_string (tattrs t)) ++ 62 :: flat_map write_node cs ++ 60 :: (47 :: tname t) ++ 62 :: rest).
      2:{ repeat (simpl app; rewrite <- ?app_assoc). reflexivity. }
      rewrite H1.
      pose proof (HF (60 :: (47 :: tname t) ++ 62 :: rest) [] (TStart (tname t) (tattrs t) :: flushed p out)) as H2.
      rewrite escape_nil in H2. cbn [rev] in H2. rewrite H2.
      rewrite (sim_end (tname t) rest _ _ Hn). reflexivity.
Qed.

(* THE round trip: the independent reader recovers from the written string exactly the
   events of the forest (names, decoded attribute values, decoded text, self-closing marks) *)
Theorem lex_write (ns : list (node str)) :
  forallb plain_node ns = true -> lex_html (write_html ns) = Some (norm_events (events ns)).
Proof.
  intros Hp. unfold lex_html.
  pose proof (sim_forest ns) as HF.
  assert (HA : Forall sim_node ns). { apply Forall_forall. intros n _. apply sim_all. }
  specialize (HF HA Hp [] [] []). rewrite app_nil_r in HF. rewrite escape_nil in HF. cbn [rev] in HF.
  rewrite HF. cbn [lex_run]. rewrite flush_escape.
  pose proof (finish_feed (events ns) [] []) as Hfin. unfold finish in Hfin.
  rewrite Hfin. cbn [rev app]. rewrite norm_events_nil_text. reflexivity.
Qed.

Corollary write_text (ns : list (node str)) :
  forallb plain_node ns = true ->
  exists ts, lex_html (write_html ns) = Some ts /\ tokens_text ts = forest_text ns.
Proof.
  intros Hp. exists (norm_events (events ns)). split.
  - apply lex_write. exact Hp.
  - rewrite norm_events_text. apply events_text.
Qed.

(* ---------- skeleton ---------- *)

Lemma skel_attrs (f : str -> str) (a : list (str * str)) :
  map (fun kv : str * str => (fst kv, @nil N)) (map (fun kv => (fst kv, f (snd kv))) a) =
  map (fun kv : str * str => (fst kv, @nil N)) a.
Proof. rewrite map_map. reflexivity. Qed.

Lemma is_void_map (f : str -> str) (t : tag) (cs : list (node str)) :
  is_void (map_tag f t) (map (map_strings f) cs) = is_void t cs.
Proof. destruct cs; reflexivity. Qed.

Lemma skeleton_forest (f : str -> str) (ns : list (node str)) :
  Forall (fun n => map tok_skel (events_node (map_strings f n)) = map tok_skel (events_node n)) ns ->
  map tok_skel (events (map (map_strings f) ns)) = map tok_skel (events ns).
Proof.
  intros HF. induction HF as [|n ns Hn _ IH].
  - reflexivity.
  - unfold events in *. cbn [map flat_map]. rewrite !map_app. rewrite Hn, IH. reflexivity.
Qed.

Lemma skeleton_node (f : str -> str) (n : node str) :
  map tok_skel (events_node (map_strings f n)) = map tok_skel (events_node n).
Proof.
  induction n as [s| |t cs IH] using node_ind_forall.
  - reflexivity.
  - reflexivity.
  - cbn [map_strings events_node]. rewrite is_void_map.
    pose proof (skeleton_forest f cs IH) as HF. unfold events in HF.
    destruct (is_void t cs).
    + cbn [map tok_skel map_tag tname tattrs]. rewrite skel_attrs. reflexivity.
    + rewrite !map_app. rewrite HF. cbn [map tok_skel map_tag tname tattrs].
      rewrite skel_attrs. reflexivity.
Qed.

(* substituting document strings changes no tag, attribute name or nesting *)
Theorem events_skeleton (f : str -> str) (ns : list (node str)) :
  map tok_skel (events (map (map_strings f) ns)) = map tok_skel (events ns).
Proof.
  apply skeleton_forest. apply Forall_forall. intros n _. apply skeleton_node.
Qed.
