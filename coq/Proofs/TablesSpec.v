(* Forward-looking specification of the row-span sweep, and basic geometry of rows. *)
From Mammoth Require Import Tables.
From Coq Require Import Lia.
Local Open Scope N_scope.

(* ---------- association lists ---------- *)
Lemma get_set_same k v d : alist_get k (alist_set k v d) = Some v.
Proof.
  induction d as [|[k' v'] d IH]; simpl.
  - now rewrite N.eqb_refl.
  - destruct (N.eqb k k') eqn:E; simpl; rewrite ?N.eqb_refl; auto. now rewrite E.
Qed.

Lemma get_set_other k k' v d : k <> k' -> alist_get k (alist_set k' v d) = alist_get k d.
Proof.
  intros Hne. induction d as [|[k2 v2] d IH]; simpl.
  - destruct (N.eqb k k') eqn:E; auto. apply N.eqb_eq in E. contradiction.
  - destruct (N.eqb k' k2) eqn:E2; simpl.
    + apply N.eqb_eq in E2. subst k2.
      destruct (N.eqb k k') eqn:E; auto. apply N.eqb_eq in E. contradiction.
    + destruct (N.eqb k k2); auto.
Qed.

Lemma get_bump_same k v d : alist_get k d = Some v -> alist_get k (alist_bump k d) = Some (v + 1).
Proof. intros H. unfold alist_bump. rewrite H. apply get_set_same. Qed.

Lemma get_bump_other k k' d : k <> k' -> alist_get k (alist_bump k' d) = alist_get k d.
Proof.
  intros Hne. unfold alist_bump. destruct (alist_get k' d); auto. now apply get_set_other.
Qed.

(* ---------- positioned cells ---------- *)
Fixpoint positioned (cells : list icell) (col : N) : list (N * icell) :=
  match cells with [] => [] | x :: cs => (col, x) :: positioned cs (col + ic_span x) end.

Definition all_pos (cells : list icell) : Prop := forall x, In x cells -> 0 < ic_span x.

Lemma positioned_In cells col c x : In (c, x) (positioned cells col) -> In x cells.
Proof.
  revert col. induction cells as [|y cs IH]; simpl; intros col H; auto.
  destruct H as [H|H]; [inversion H; auto | right; eauto].
Qed.

Lemma positioned_bounds cells col c x :
  In (c, x) (positioned cells col) -> col <= c /\ c + ic_span x <= col + row_width cells.
Proof.
  revert col. induction cells as [|y cs IH]; simpl; intros col H; [contradiction|].
  destruct H as [H|H].
  - inversion H; subst. lia.
  - apply IH in H. lia.
Qed.

Lemma row_starts_positioned cells col :
  row_starts cells col = map (fun p => (fst p, ic_span (snd p))) (positioned cells col).
Proof. revert col. induction cells as [|y cs IH]; simpl; intros col; auto. now rewrite IH. Qed.

Lemma In_row_starts cells col c s :
  In (c, s) (row_starts cells col) <-> exists x, In (c, x) (positioned cells col) /\ ic_span x = s.
Proof.
  rewrite row_starts_positioned, in_map_iff. split.
  - intros [[c' x] [E H]]. simpl in E. inversion E; subst. eauto.
  - intros [x [H E]]. exists (c, x). simpl. subst. auto.
Qed.

(* the cell covering grid column j *)
Fixpoint cell_at (cells : list icell) (col j : N) : option (N * icell) :=
  match cells with
  | [] => None
  | x :: cs => if N.ltb j (col + ic_span x) then Some (col, x) else cell_at cs (col + ic_span x) j
  end.

Lemma cell_at_positioned cells col c x j :
  In (c, x) (positioned cells col) -> c <= j < c + ic_span x -> cell_at cells col j = Some (c, x).
Proof.
  revert col. induction cells as [|y cs IH]; simpl; intros col H Hj; [contradiction|].
  destruct H as [H|H].
  - inversion H; subst. destruct (N.ltb_spec j (c + ic_span x)); auto. lia.
  - pose proof (positioned_bounds _ _ _ _ H) as Hb.
    destruct (N.ltb_spec j (col + ic_span y)); [lia|]. now apply IH.
Qed.

Lemma positioned_unique cells col c1 x1 c2 x2 j :
  In (c1, x1) (positioned cells col) -> In (c2, x2) (positioned cells col) ->
  c1 <= j < c1 + ic_span x1 -> c2 <= j < c2 + ic_span x2 -> c1 = c2 /\ x1 = x2.
Proof.
  intros H1 H2 J1 J2.
  pose proof (cell_at_positioned _ _ _ _ _ H1 J1) as E1.
  pose proof (cell_at_positioned _ _ _ _ _ H2 J2) as E2.
  rewrite E1 in E2. inversion E2. auto.
Qed.

Lemma positioned_cover cells col j :
  col <= j < col + row_width cells ->
  exists c x, In (c, x) (positioned cells col) /\ c <= j < c + ic_span x.
Proof.
  revert col. induction cells as [|y cs IH]; simpl; intros col Hj; [lia|].
  destruct (N.ltb_spec j (col + ic_span y)) as [Hlt|Hge].
  - exists col, y. split; auto. lia.
  - destruct (IH (col + ic_span y)) as [c [x [Hin Hc]]]; [lia|]. exists c, x. auto.
Qed.

(* same start column in one row => same cell (spans positive) *)
Lemma positioned_same_start cells col c x1 x2 :
  all_pos cells ->
  In (c, x1) (positioned cells col) -> In (c, x2) (positioned cells col) -> x1 = x2.
Proof.
  intros Hp H1 H2.
  pose proof (Hp _ (positioned_In _ _ _ _ H1)) as P1.
  pose proof (Hp _ (positioned_In _ _ _ _ H2)) as P2.
  apply (positioned_unique cells col c x1 c x2 c); auto; lia.
Qed.

(* ---------- the forward-looking specification ---------- *)
Fixpoint has_cont (cells : list icell) (col c s : N) : bool :=
  match cells with
  | [] => false
  | x :: cs => (ic_cont x && N.eqb col c && N.eqb (ic_span x) s) || has_cont cs (col + ic_span x) c s
  end.

Lemma has_cont_spec cells col c s :
  has_cont cells col c s = true <->
  exists x, In (c, x) (positioned cells col) /\ ic_cont x = true /\ ic_span x = s.
Proof.
  revert col. induction cells as [|y cs IH]; simpl; intros col.
  - split; [discriminate | intros [x [[] _]]].
  - rewrite orb_true_iff, !andb_true_iff, !N.eqb_eq, IH. split.
    + intros [[[H1 H2] H3]|[x [H1 H2]]].
      * subst. exists y. auto.
      * exists x. auto.
    + intros [x [[H|H] [H2 H3]]].
      * inversion H; subst. left. auto.
      * right. exists x. auto.
Qed.

(* number of immediately following rows continuing the cell that starts at c with span s *)
Fixpoint ext (rows : list (list icell)) (c s : N) : N :=
  match rows with
  | [] => 0
  | r :: rows' => if has_cont r 0 c s then 1 + ext rows' c s else 0
  end.

Fixpoint spec_row (cells : list icell) (col : N) (after : list (list icell)) : list ocell :=
  match cells with
  | [] => []
  | x :: cs =>
      if ic_cont x then spec_row cs (col + ic_span x) after
      else OC (ic_id x) (ic_span x) (1 + ext after col (ic_span x)) :: spec_row cs (col + ic_span x) after
  end.

Fixpoint spec_rows (rows : list (list icell)) : list (list ocell) :=
  match rows with [] => [] | r :: rows' => spec_row r 0 rows' :: spec_rows rows' end.

(* ---------- well-formedness, as propositions ---------- *)
Lemma wf_row_spec cells col prev :
  wf_row cells col prev = true ->
  forall c x, In (c, x) (positioned cells col) ->
              0 < ic_span x /\ (ic_cont x = true -> In (c, ic_span x) prev).
Proof.
  revert col. induction cells as [|y cs IH]; simpl; intros col Hwf c x Hin; [contradiction|].
  apply andb_true_iff in Hwf. destruct Hwf as [Hwf Hrest].
  apply andb_true_iff in Hwf. destruct Hwf as [Hpos Hcont].
  destruct Hin as [Hin|Hin].
  - inversion Hin; subst. split; [now apply N.ltb_lt|].
    intros Hc. rewrite Hc in Hcont. apply existsb_exists in Hcont.
    destruct Hcont as [[c' s'] [Hp He]]. simpl in He.
    apply andb_true_iff in He. destruct He as [He1 He2].
    apply N.eqb_eq in He1. apply N.eqb_eq in He2. subst. exact Hp.
  - eapply IH; eauto.
Qed.

Lemma wf_row_all_pos cells col prev : wf_row cells col prev = true -> all_pos cells.
Proof.
  revert col. induction cells as [|y cs IH]; simpl; intros col Hwf x Hin; [contradiction|].
  apply andb_true_iff in Hwf. destruct Hwf as [Hwf Hrest].
  apply andb_true_iff in Hwf. destruct Hwf as [Hpos Hcont].
  destruct Hin as [Hin|Hin]; [subst; now apply N.ltb_lt | eapply IH; eauto].
Qed.

Lemma nodup_N_NoDup l : nodup_N l = true -> NoDup l.
Proof.
  induction l as [|x l IH]; simpl; intros H; [constructor|].
  apply andb_true_iff in H. destruct H as [H1 H2]. constructor; auto.
  intros Hin. apply negb_true_iff in H1.
  assert (existsb (N.eqb x) l = true) as E.
  { apply existsb_exists. exists x. split; auto. apply N.eqb_refl. }
  congruence.
Qed.
