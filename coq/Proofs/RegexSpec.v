(* Definitions used to STATE the regex / tokeniser theorems (C07). *)
From Mammoth Require Import Regex Tokeniser TokenRules.
Local Open Scope N_scope.

(* cost bound of the backtracking matcher on a string of length n, computed from the rule *)
Fixpoint bound (r : rule) (n : N) : N :=
  match r with
  | [] => 1
  | AAlt alts :: r' => N.of_nat (length alts) * (1 + bound r' n)
  | AStar alts :: r' => (n + 1) * (N.of_nat (length alts) + bound r' n + 1)
  | APlus alts :: r' => N.of_nat (length alts) * (1 + (n + 1) * (N.of_nat (length alts) + bound r' n + 1))
  | AOpt alts :: r' => N.of_nat (length alts) * (1 + bound r' n) + bound r' n
  end.

Definition stars (r : rule) : nat :=
  length (filter (fun a => match a with AStar _ | APlus _ => true | _ => false end) r).

(* a rule that cannot match the empty string: it starts with a mandatory non-empty alternative *)
Definition rule_nonempty (r : rule) : bool :=
  match r with
  | AAlt alts :: _ | APlus alts :: _ => forallb (fun a => match a with [] => false | _ => true end) alts
  | _ => false
  end.

(* the catch-all: some rule is exactly `.` *)
Definition is_any_rule (r : rule) : bool :=
  match r with [AAlt [[CAny]]] => true | _ => false end.

Definition no_newline (s : str) : Prop := ~ In 10 s.
