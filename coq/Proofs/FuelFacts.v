(* GENERATED from FuelFacts.v.in by tools/strlit.py — edit the .in file *)
(* Fuel sufficiency of the body reader: [read_el 0 = Crash 59] is the only source of Crash 59 in the model
   and [body_read_all] never reaches it.  The reader spends one unit of fuel per level of XML nesting;
   what can still be read is the list being read plus the pending [rs_deleted] of the state (children of
   paragraphs whose mark is deleted, re-read inside the next paragraph). *)
From Mammoth Require Import Api ReaderTables.
From Coq Require Import Lia.
Local Open Scope N_scope.

(* ---------- sizes ---------- *)
Definition dl (st : rstate) : nat := xsizes (rs_deleted st).

Lemma xsizes_cons (c : xml) (l : list xml) : xsizes (c :: l) = (xsize c + xsizes l)%nat.
Proof. reflexivity. Qed.

Lemma xsizes_app (a b : list xml) : xsizes (a ++ b) = (xsizes a + xsizes b)%nat.
Proof.
  induction a as [|c a IH].
  - reflexivity.
  - change ((c :: a) ++ b) with (c :: (a ++ b)). rewrite !xsizes_cons, IH. lia.
Qed.

Lemma xsize_elem (n : str) (a : list (str * str)) (cs : list xml) : xsize (XElem n a cs) = S (xsizes cs).
Proof. reflexivity. Qed.

Lemma xsize_pos (x : xml) : (1 <= xsize x)%nat.
Proof. destruct x as [n a cs|s]; [rewrite xsize_elem; lia | cbn [xsize]; lia]. Qed.

Lemma xchildren_size (x : xml) : (xsizes (xchildren x) < xsize x)%nat.
Proof.
  destruct x as [n a cs|s].
  - rewrite xsize_elem. cbn [xchildren]. lia.
  - cbn [xchildren xsize]. change (xsizes []) with 0%nat. lia.
Qed.

Lemma find_child_in_size (name : str) (cs : list xml) (c : xml) :
  find_child_in name cs = Some c -> (xsize c <= xsizes cs)%nat.
Proof.
  induction cs as [|[n a k|s] cs IH]; intros H.
  - discriminate H.
  - cbn [find_child_in] in H. rewrite xsizes_cons. destruct (str_eqb n name).
    + injection H as <-. lia.
    + specialize (IH H). lia.
  - cbn [find_child_in] in H. rewrite xsizes_cons. specialize (IH H). lia.
Qed.

Lemma fcon_children_size (name : str) (x : xml) :
  (xsizes (xchildren (find_child_or_null name x)) <= xsizes (xchildren x))%nat.
Proof.
  unfold find_child_or_null, find_child.
  destruct (find_child_in name (xchildren x)) as [c|] eqn:E.
  - apply find_child_in_size in E. pose proof (xchildren_size c) as Hc. lia.
  - change (xsizes (xchildren xnull)) with 0%nat. lia.
Qed.

(* ---------- "is not Crash 59", for the leaves of the reader ---------- *)
Definition no59 {A} (o : outcome A) : Prop :=
  match o with Crash w => w <> 59 | _ => True end.

Lemma no59_bind {A B} (e : outcome A) (k : A -> outcome B) :
  no59 e -> (forall a, no59 (k a)) -> no59 (obind e k).
Proof.
  intros He Hk. destruct e as [a| |w]; cbn [obind].
  - apply Hk.
  - exact I.
  - exact He.
Qed.

Create HintDb no59.

Ltac n59_step :=
  lazymatch goal with
  | |- no59 (Ok _) => exact I
  | |- no59 LineError => exact I
  | |- no59 (Crash _) => cbn [no59]; discriminate
  | |- no59 (obind _ _) => apply no59_bind; [ | intros ? ]
  | |- no59 (match ?X with _ => _ end) =>
      lazymatch type of X with
      | outcome _ =>
          let H := fresh "Hx" in
          assert (H : no59 X) by n59_tac;
          destruct X as [?| |?]; [ | exact I | exact H ]
      | _ => destruct X
      end
  end
with n59_tac := repeat n59_step; auto with no59.

Lemma find_level_no59 (fuel : nat) (nm : numbering) : forall num_id level, no59 (find_level fuel nm num_id level).
Proof.
  induction fuel as [|f IH]; intros num_id level; cbn [find_level].
  - cbn [no59]. discriminate.
  - destruct (match num_id with Some i => dict_get i (nm_nums nm) | None => nm_nums_none nm end) as [a|]; [|exact I].
    destruct (dict_get a (nm_abstract nm)) as [an|]; [|exact I].
    destruct (an_link an) as [link|]; [|exact I].
    destruct (dict_get link (st_numbering (nm_styles nm))) as [num_id'|]; [|exact I].
    apply IH.
Qed.
#[local] Hint Resolve find_level_no59 : no59.

Lemma read_numbering_props_no59 (env : renv) (ps : option str) (numPr : xml) :
  no59 (read_numbering_props env ps numPr).
Proof. unfold read_numbering_props. n59_tac. Qed.

Lemma parse_hex_no59 (s : str) : no59 (parse_hex s).
Proof. unfold parse_hex. n59_tac. Qed.
#[local] Hint Resolve parse_hex_no59 : no59.

Lemma read_symbol_no59 (x : xml) : no59 (read_symbol x).
Proof. unfold read_symbol. n59_tac. Qed.

Lemma embedded_image_no59 (env : renv) (rid : str) : no59 (embedded_image env rid).
Proof. unfold embedded_image. n59_tac. Qed.

Lemma linked_image_no59 (env : renv) (rid : str) : no59 (linked_image env rid).
Proof. unfold linked_image. n59_tac. Qed.
#[local] Hint Resolve embedded_image_no59 linked_image_no59 : no59.

Lemma read_blip_no59 (env : renv) (blip : xml) (alt : option str) : no59 (read_blip env blip alt).
Proof. unfold read_blip. n59_tac. Qed.

Lemma read_inline_no59 (env : renv) (x : xml) : no59 (read_inline env x).
Proof.
  unfold read_inline.
  generalize (find_children_of [97;58;98;108;105;112] (find_children_of [112;105;99;58;98;108;105;112;70;105;108;108] (find_children_of [112;105;99;58;112;105;99]
               (find_children_of [97;58;103;114;97;112;104;105;99;68;97;116;97] (find_children [97;58;103;114;97;112;104;105;99] x))))) as blips.
  intros blips. induction blips as [|b l IH].
  - exact I.
  - apply no59_bind; [apply read_blip_no59|]. intros a.
    apply no59_bind; [exact IH|]. intros r. exact I.
Qed.

Lemma parse_int_no59 (s : str) : no59 (parse_int s).
Proof. unfold parse_int. n59_tac. Qed.

#[local] Hint Resolve read_numbering_props_no59 read_symbol_no59 read_inline_no59 parse_int_no59 : no59.

(* ---------- the invariant: no Crash 59, and the pending deleted content stays within the bound ---------- *)
Definition fine (b : nat) (o : outcome (rres * rstate)) : Prop :=
  match o with
  | Ok (_, st') => (dl st' <= b)%nat
  | LineError => True
  | Crash w => w <> 59
  end.

Lemma fine_mono (b b' : nat) (o : outcome (rres * rstate)) : fine b o -> (b <= b')%nat -> fine b' o.
Proof. destruct o as [[r st']| |w]; cbn [fine]; intros H Hb; [lia | exact I | exact H]. Qed.

Lemma read_fld_char_fine (x : xml) (st : rstate) : fine (dl st) (read_fld_char x st).
Proof.
  unfold read_fld_char. cbv zeta.
  repeat lazymatch goal with
         | |- fine _ (match ?X with _ => _ end) => destruct X
         end;
    cbn [fine]; unfold dl; cbn [rs_deleted]; solve [lia | discriminate].
Qed.

Theorem handler_codes_known' :
  forallb (fun h => N.leb 1 (fst (snd h)) && N.leb (fst (snd h)) 23) reader_handlers = true.
Proof. vm_compute; reflexivity. Qed.

Lemma dict_get_In' {V} (k : str) (d : list (str * V)) (v : V) :
  dict_get k d = Some v -> exists k', In (k', v) d.
Proof.
  induction d as [|[k' v'] d IH]; intros H.
  - discriminate.
  - cbn [dict_get] in H. destruct (str_eqb k k').
    + injection H as ->. exists k'. left. reflexivity.
    + destruct (IH H) as (k2 & Hk). exists k2. right. exact Hk.
Qed.

Lemma handler_code_bound' (name : str) (code : N) (arg : str) :
  handler_of name = Some (code, arg) -> 1 <= code <= 23.
Proof.
  unfold handler_of. intros H. apply dict_get_In' in H. destruct H as (k & Hin).
  pose proof (proj1 (forallb_forall _ _) handler_codes_known' _ Hin) as Hb. cbn [fst snd] in Hb.
  apply andb_true_iff in Hb. destruct Hb as [H1 H2].
  apply N.leb_le in H1. apply N.leb_le in H2. split; assumption.
Qed.

(* the local fixpoint of [read_el], named *)
Definition fra (f : nat) (env : renv) : list xml -> R rres :=
  fix ra (l : list xml) : R rres :=
    fun st =>
      match l with
      | [] => Ok (rr_empty, st)
      | XText _ :: l' => ra l' st
      | c :: l' =>
          match read_el f env c st with
          | Ok (a, st1) =>
              match ra l' st1 with
              | Ok (b, st2) => Ok (rr_concat a b, st2)
              | LineError => LineError | Crash w => Crash w
              end
          | LineError => LineError | Crash w => Crash w
          end
      end.

(* ... which is [read_els] *)
Lemma fra_read_els (f : nat) (env : renv) : forall l st, fra f env l st = read_els f env l st.
Proof.
  intros l. induction l as [|c l IHl]; intros st.
  - reflexivity.
  - destruct c as [n a cs|s].
    + cbn [read_els].
      change (fra f env (XElem n a cs :: l) st)
        with (match read_el f env (XElem n a cs) st with
              | Ok (a0, st1) =>
                  match fra f env l st1 with
                  | Ok (b, st2) => Ok (rr_concat a0 b, st2)
                  | LineError => LineError | Crash w => Crash w
                  end
              | LineError => LineError | Crash w => Crash w
              end).
      destruct (read_el f env (XElem n a cs) st) as [[a0 st1]| |w]; [|reflexivity|reflexivity].
      rewrite IHl. reflexivity.
    + cbn [read_els]. exact (IHl st).
Qed.

Lemma fra_fine (f : nat) (env : renv) :
  (forall x st, (xsize x + dl st <= f)%nat -> fine (xsize x + dl st) (read_el f env x st)) ->
  forall l st, (xsizes l + dl st <= f)%nat -> fine (xsizes l + dl st) (fra f env l st).
Proof.
  intros Hel l. induction l as [|c l IHl]; intros st Hf.
  - cbn [fra fine]. lia.
  - rewrite xsizes_cons in Hf. rewrite xsizes_cons. destruct c as [n a cs|s].
    + change (fine (xsize (XElem n a cs) + xsizes l + dl st)
                (match read_el f env (XElem n a cs) st with
                 | Ok (a0, st1) =>
                     match fra f env l st1 with
                     | Ok (b, st2) => Ok (rr_concat a0 b, st2)
                     | LineError => LineError | Crash w => Crash w
                     end
                 | LineError => LineError | Crash w => Crash w
                 end)).
      assert (Hc : (xsize (XElem n a cs) + dl st <= f)%nat) by lia.
      pose proof (Hel (XElem n a cs) st Hc) as H1.
      destruct (read_el f env (XElem n a cs) st) as [[a0 st1]| |w]; [|exact I|exact H1].
      cbn [fine] in H1.
      assert (Hl : (xsizes l + dl st1 <= f)%nat) by lia.
      pose proof (IHl st1 Hl) as H2.
      destruct (fra f env l st1) as [[b st2]| |w]; [|exact I|exact H2].
      cbn [fine] in H2 |- *. lia.
    + change (fine (xsize (XText s) + xsizes l + dl st) (fra f env l st)).
      assert (Hl : (xsizes l + dl st <= f)%nat) by lia.
      apply (fine_mono _ _ _ (IHl st Hl)). lia.
Qed.

(* one step under [fine]: peel the head construct of the outcome *)
Ltac fine_step :=
  lazymatch goal with
  | |- fine _ (Ok (_, _)) => cbn [fine] in *; unfold dl in *; cbn [rs_deleted] in *; rewrite ?xsizes_app; lia
  | |- fine _ (Crash _) => cbn [fine]; discriminate
  | |- fine _ (read_fld_char ?x ?st) => apply (fine_mono _ _ _ (read_fld_char_fine x st)); lia
  | |- fine _ (fra ?f ?env ?l ?s) =>
      lazymatch goal with
      | H : fine _ (fra f env l s) |- _ => apply (fine_mono _ _ _ H); lia
      end
  | |- fine _ (match fra ?f ?env ?l ?s with _ => _ end) =>
      lazymatch goal with
      | H : fine _ (fra f env l s) |- _ =>
          destruct (fra f env l s) as [[? ?]| |?]; [ | exact I | exact H ]
      end
  | |- fine _ (match ?X with _ => _ end) =>
      lazymatch type of X with
      | outcome _ =>
          let H := fresh "Hx" in
          assert (H : no59 X) by n59_tac;
          destruct X as [?| |?]; [ | exact I | exact H ]
      | _ => destruct X
      end
  end.

Lemma read_el_fine (env : renv) :
  forall fuel x st, (xsize x + dl st <= fuel)%nat -> fine (xsize x + dl st) (read_el fuel env x st).
Proof.
  induction fuel as [|f IH]; intros x st Hf.
  - exfalso. pose proof (xsize_pos x) as Hp. lia.
  - pose proof (fra_fine f env IH) as Hra.
    destruct x as [name attrs children|s]; [|cbn [read_el fine]; lia].
    rewrite xsize_elem in Hf. rewrite xsize_elem.
    cbn [read_el]. fold (fra f env).
    destruct (handler_of name) as [[code arg]|] eqn:Hh; [|cbn [fine]; lia].
    apply handler_code_bound' in Hh.
    (* the three lists the handlers read *)
    assert (H1 : fine (xsizes children + dl st) (fra f env children st)) by (apply Hra; lia).
    assert (H2 : fine (xsizes (rs_deleted st ++ children) + dl (mkRS (rs_instr st) (rs_stack st) []))
                   (fra f env (rs_deleted st ++ children) (mkRS (rs_instr st) (rs_stack st) []))).
    { apply Hra. rewrite xsizes_app. unfold dl in Hf |- *. cbn [rs_deleted]. change (xsizes []) with 0%nat. lia. }
    rewrite xsizes_app in H2. unfold dl in H2 at 1. cbn [rs_deleted] in H2. change (xsizes []) with 0%nat in H2.
    assert (H3 : forall nm, fine (xsizes (xchildren (find_child_or_null nm (XElem name attrs children))) + dl st)
                              (fra f env (xchildren (find_child_or_null nm (XElem name attrs children))) st)).
    { intros nm. apply Hra. pose proof (fcon_children_size nm (XElem name attrs children)) as Hs.
      cbn [xchildren] in Hs. lia. }
    pose proof (fcon_children_size [109;99;58;70;97;108;108;98;97;99;107] (XElem name attrs children)) as Hs1.
    pose proof (fcon_children_size [119;58;115;100;116;67;111;110;116;101;110;116] (XElem name attrs children)) as Hs2.
    cbn [xchildren] in Hs1, Hs2.
    pose proof (H3 [109;99;58;70;97;108;108;98;97;99;107]) as H4. pose proof (H3 [119;58;115;100;116;67;111;110;116;101;110;116]) as H5. clear H3.
    assert (Hc : code = 1 \/ code = 2 \/ code = 3 \/ code = 4 \/ code = 5 \/ code = 6 \/ code = 7 \/ code = 8
                 \/ code = 9 \/ code = 10 \/ code = 11 \/ code = 12 \/ code = 13 \/ code = 14 \/ code = 15
                 \/ code = 16 \/ code = 17 \/ code = 18 \/ code = 19 \/ code = 20 \/ code = 21 \/ code = 22
                 \/ code = 23) by lia.
    clear Hh IH Hra.
    repeat (destruct Hc as [Hc|Hc]; [subst code; cbv beta iota zeta; solve [repeat fine_step] | ]).
    subst code; cbv beta iota zeta; solve [repeat fine_step].
Qed.

Lemma read_els_fine (env : renv) (fuel : nat) (l : list xml) (st : rstate) :
  (xsizes l + dl st <= fuel)%nat -> fine (xsizes l + dl st) (read_els fuel env l st).
Proof.
  intros Hf. rewrite <- fra_read_els. apply fra_fine; [|exact Hf].
  intros x st0. apply read_el_fine.
Qed.

(* with enough fuel for the list and the pending deleted content, reading does not run out of fuel ... *)
Theorem read_els_fuel (env : renv) (fuel : nat) (l : list xml) (st : rstate) :
  (xsizes l + xsizes (rs_deleted st) <= fuel)%nat -> read_els fuel env l st <> Crash 59.
Proof.
  intros Hf E. pose proof (read_els_fine env fuel l st Hf) as H. rewrite E in H. cbn [fine] in H.
  apply H. reflexivity.
Qed.

(* ... and the pending deleted content of the new state is bounded by what there was to read *)
Theorem read_els_deleted_bound (env : renv) (fuel : nat) (l : list xml) (st : rstate) (r : rres) (st' : rstate) :
  (xsizes l + xsizes (rs_deleted st) <= fuel)%nat -> read_els fuel env l st = Ok (r, st') ->
  (xsizes (rs_deleted st') <= xsizes l + xsizes (rs_deleted st))%nat.
Proof.
  intros Hf E. pose proof (read_els_fine env fuel l st Hf) as H. rewrite E in H. exact H.
Qed.

Theorem read_el_fuel (env : renv) (fuel : nat) (x : xml) (st : rstate) :
  (xsize x + xsizes (rs_deleted st) <= fuel)%nat -> read_el fuel env x st <> Crash 59.
Proof.
  intros Hf E. pose proof (read_el_fine env fuel x st Hf) as H. rewrite E in H. cbn [fine] in H.
  apply H. reflexivity.
Qed.

(* the body reader never runs out of fuel: body_read_all gives itself S (size of what can still be read) *)
Theorem body_read_all_fuel (env : renv) (l : list xml) (st : rstate) : body_read_all env l st <> Crash 59.
Proof.
  unfold body_read_all.
  assert (Hf : (xsizes l + xsizes (rs_deleted st) <= S (xsizes l + xsizes (rs_deleted st)))%nat) by lia.
  pose proof (read_els_fuel env _ l st Hf) as H.
  destruct (read_els (S (xsizes l + xsizes (rs_deleted st))) env l st) as [[r st']| |w]; intros E.
  - discriminate E.
  - discriminate E.
  - injection E as ->. apply H. reflexivity.
Qed.

Print Assumptions body_read_all_fuel.
