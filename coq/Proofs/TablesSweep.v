(* The vMerge sweep computes the forward-looking specification on well-formed tilings. *)
From Mammoth Require Import Tables TablesSpec.
From Coq Require Import Lia.
Local Open Scope N_scope.
Local Arguments N.add : simpl never.
Local Arguments N.sub : simpl never.

Definition only_at (columns : list (N * N)) (o c : N) : Prop :=
  forall c', alist_get c' columns = Some o -> c' = c.
Definition dead (columns : list (N * N)) (o : N) : Prop :=
  forall c', alist_get c' columns <> Some o.
Definition ids (cells : list icell) : list N := map ic_id cells.

Lemma dead_only_at columns o c : dead columns o -> only_at columns o c.
Proof. intros Hd c' H. now apply Hd in H. Qed.

Lemma only_at_set columns o c col i :
  i <> o -> only_at columns o c -> only_at (alist_set col i columns) o c.
Proof.
  intros Hne Ho c' H. destruct (N.eq_dec c' col) as [->|Hc].
  - rewrite get_set_same in H. congruence.
  - rewrite get_set_other in H by auto. auto.
Qed.

Lemma dead_set columns o col i : i <> o -> dead columns o -> dead (alist_set col i columns) o.
Proof.
  intros Hne Hd c' H. destruct (N.eq_dec c' col) as [->|Hc].
  - rewrite get_set_same in H. congruence.
  - rewrite get_set_other in H by auto. now apply Hd in H.
Qed.

Lemma NoDup_app_disj {A} (a b : list A) x : NoDup (a ++ b) -> In x a -> ~ In x b.
Proof.
  induction a as [|y a IH]; simpl; intros Hnd Hin; [contradiction|].
  inversion Hnd as [|? ? Hny Hnd']; subst. destruct Hin as [->|Hin]; auto.
  intros Hb. apply Hny. apply in_or_app. auto.
Qed.

Lemma NoDup_app_r {A} (a b : list A) : NoDup (a ++ b) -> NoDup b.
Proof. induction a as [|y a IH]; simpl; auto. intros H. inversion H; auto. Qed.

Lemma NoDup_app_l {A} (a b : list A) : NoDup (a ++ b) -> NoDup a.
Proof.
  induction a as [|y a IH]; simpl; intros H; [constructor|].
  inversion H as [|? ? Hn Hd]; subst. constructor; auto.
  intros Hin. apply Hn. apply in_or_app. auto.
Qed.

(* ---------- one row, tracking one owner o that is not a cell of this row ---------- *)
Lemma sweep_row_dead o cells : forall col columns spans cols' spans' kept,
  ~ In o (ids cells) -> dead columns o ->
  sweep_row cells col columns spans = (cols', spans', kept) ->
  dead cols' o /\ alist_get o spans' = alist_get o spans.
Proof.
  induction cells as [|y cs IH]; simpl; intros col columns spans cols' spans' kept Hni Hd E.
  - inversion E; subst. auto.
  - assert (ic_id y <> o) as Hy by (intros Hy; apply Hni; auto).
    assert (~ In o (ids cs)) as Hni' by (intros Hi; apply Hni; auto).
    destruct (if ic_cont y then alist_get col columns else None) as [owner|] eqn:EL.
    + assert (owner <> o) as Hown.
      { intros ->. destruct (ic_cont y); [|discriminate]. now apply Hd in EL. }
      destruct (IH _ _ _ _ _ _ Hni' Hd E) as [H1 H2]. split; auto.
      rewrite H2. apply get_bump_other. auto.
    + destruct (sweep_row cs (col + ic_span y) (alist_set col (ic_id y) columns)
                  (alist_set (ic_id y) 1 spans)) as [[cols1 spans1] kept1] eqn:E1.
      inversion E; subst.
      destruct (IH _ _ _ _ _ _ Hni' (dead_set _ _ col _ Hy Hd) E1) as [H1 H2]. split; auto.
      rewrite H2. apply get_set_other. auto.
Qed.

Lemma sweep_row_none o c cells : forall col columns spans cols' spans' kept,
  ~ In o (ids cells) -> only_at columns o c ->
  (forall x, ~ In (c, x) (positioned cells col)) ->
  sweep_row cells col columns spans = (cols', spans', kept) ->
  only_at cols' o c /\ alist_get c cols' = alist_get c columns /\ alist_get o spans' = alist_get o spans.
Proof.
  induction cells as [|y cs IH]; simpl; intros col columns spans cols' spans' kept Hni Ho Hno E.
  - inversion E; subst. auto.
  - assert (ic_id y <> o) as Hy by (intros Hy; apply Hni; auto).
    assert (~ In o (ids cs)) as Hni' by (intros Hi; apply Hni; auto).
    assert (col <> c) as Hcol by (intros ->; apply (Hno y); auto).
    assert (forall x, ~ In (c, x) (positioned cs (col + ic_span y))) as Hno'
        by (intros x Hx; apply (Hno x); auto).
    destruct (if ic_cont y then alist_get col columns else None) as [owner|] eqn:EL.
    + assert (owner <> o) as Hown.
      { intros ->. destruct (ic_cont y); [|discriminate]. apply Ho in EL. contradiction. }
      destruct (IH _ _ _ _ _ _ Hni' Ho Hno' E) as [H1 [H2 H3]]. repeat split; auto.
      rewrite H3. apply get_bump_other. auto.
    + destruct (sweep_row cs (col + ic_span y) (alist_set col (ic_id y) columns)
                  (alist_set (ic_id y) 1 spans)) as [[cols1 spans1] kept1] eqn:E1.
      inversion E; subst.
      destruct (IH _ _ _ _ _ _ Hni' (only_at_set _ _ _ col _ Hy Ho) Hno' E1) as [H1 [H2 H3]].
      repeat split; auto.
      * rewrite H2. apply get_set_other. auto.
      * rewrite H3. apply get_set_other. auto.
Qed.

Lemma positioned_tail_no_start cs c s :
  0 < s -> forall x, ~ In (c, x) (positioned cs (c + s)).
Proof. intros Hs x Hin. apply positioned_bounds in Hin. lia. Qed.

Lemma all_pos_tail y cs : all_pos (y :: cs) -> all_pos cs.
Proof. intros H x Hx. apply H. now right. Qed.

(* a continuation at c bumps the owner registered at c *)
Lemma sweep_row_cont o c cells : forall col columns spans cols' spans' kept x v,
  all_pos cells -> ~ In o (ids cells) -> only_at columns o c ->
  In (c, x) (positioned cells col) -> ic_cont x = true ->
  alist_get c columns = Some o -> alist_get o spans = Some v ->
  sweep_row cells col columns spans = (cols', spans', kept) ->
  only_at cols' o c /\ alist_get c cols' = Some o /\ alist_get o spans' = Some (v + 1).
Proof.
  induction cells as [|y cs IH]; simpl; intros col columns spans cols' spans' kept x v
    Hp Hni Ho Hin Hc Hg Hv E; [contradiction|].
  assert (ic_id y <> o) as Hy by (intros Hy; apply Hni; auto).
  assert (~ In o (ids cs)) as Hni' by (intros Hi; apply Hni; auto).
  pose proof (all_pos_tail _ _ Hp) as Hp'.
  assert (0 < ic_span y) as Hsy by (apply Hp; now left).
  destruct Hin as [Hin|Hin].
  - inversion Hin; subst col y. rewrite Hc, Hg in E.
    destruct (sweep_row_none o c cs _ _ _ _ _ _ Hni' Ho (positioned_tail_no_start cs c _ Hsy) E)
      as [H1 [H2 H3]].
    repeat split; auto; [congruence|]. rewrite H3. now apply get_bump_same.
  - assert (col <> c) as Hcol by (apply positioned_bounds in Hin; lia).
    destruct (if ic_cont y then alist_get col columns else None) as [owner|] eqn:EL.
    + assert (owner <> o) as Hown.
      { intros ->. destruct (ic_cont y); [|discriminate]. apply Ho in EL. contradiction. }
      assert (alist_get o (alist_bump owner spans) = Some v) as Hv'
          by (rewrite get_bump_other; auto).
      exact (IH _ _ _ _ _ _ x v Hp' Hni' Ho Hin Hc Hg Hv' E).
    + destruct (sweep_row cs (col + ic_span y) (alist_set col (ic_id y) columns)
                  (alist_set (ic_id y) 1 spans)) as [[cols1 spans1] kept1] eqn:E1.
      inversion E; subst.
      assert (alist_get c (alist_set col (ic_id y) columns) = Some o) as Hg'
          by (rewrite get_set_other; auto).
      assert (alist_get o (alist_set (ic_id y) 1 spans) = Some v) as Hv'
          by (rewrite get_set_other; auto).
      exact (IH _ _ _ _ _ _ x v Hp' Hni' (only_at_set _ _ _ col _ Hy Ho) Hin Hc Hg' Hv' E1).
Qed.

(* a fresh cell at c evicts the owner registered there *)
Lemma sweep_row_evict o c cells : forall col columns spans cols' spans' kept x,
  all_pos cells -> ~ In o (ids cells) -> only_at columns o c ->
  In (c, x) (positioned cells col) -> ic_cont x = false ->
  sweep_row cells col columns spans = (cols', spans', kept) ->
  dead cols' o /\ alist_get o spans' = alist_get o spans.
Proof.
  induction cells as [|y cs IH]; simpl; intros col columns spans cols' spans' kept x
    Hp Hni Ho Hin Hc E; [contradiction|].
  assert (ic_id y <> o) as Hy by (intros Hy; apply Hni; auto).
  assert (~ In o (ids cs)) as Hni' by (intros Hi; apply Hni; auto).
  pose proof (all_pos_tail _ _ Hp) as Hp'.
  assert (0 < ic_span y) as Hsy by (apply Hp; now left).
  destruct Hin as [Hin|Hin].
  - inversion Hin; subst col y. rewrite Hc in E.
    destruct (sweep_row cs (c + ic_span x) (alist_set c (ic_id x) columns)
                (alist_set (ic_id x) 1 spans)) as [[cols1 spans1] kept1] eqn:E1.
    inversion E; subst.
    assert (dead (alist_set c (ic_id x) columns) o) as Hd.
    { intros c' H. destruct (N.eq_dec c' c) as [->|Hne].
      - rewrite get_set_same in H. congruence.
      - rewrite get_set_other in H by auto. apply Ho in H. contradiction. }
    destruct (sweep_row_dead o cs _ _ _ _ _ _ Hni' Hd E1) as [H1 H2]. split; auto.
    rewrite H2. apply get_set_other. auto.
  - assert (col <> c) as Hcol by (apply positioned_bounds in Hin; lia).
    destruct (if ic_cont y then alist_get col columns else None) as [owner|] eqn:EL.
    + assert (owner <> o) as Hown.
      { intros ->. destruct (ic_cont y); [|discriminate]. apply Ho in EL. contradiction. }
      destruct (IH _ _ _ _ _ _ x Hp' Hni' Ho Hin Hc E) as [H1 H2]. split; auto.
      rewrite H2. apply get_bump_other. auto.
    + destruct (sweep_row cs (col + ic_span y) (alist_set col (ic_id y) columns)
                  (alist_set (ic_id y) 1 spans)) as [[cols1 spans1] kept1] eqn:E1.
      inversion E; subst.
      destruct (IH _ _ _ _ _ _ x Hp' Hni' (only_at_set _ _ _ col _ Hy Ho) Hin Hc E1) as [H1 H2].
      split; auto. rewrite H2. apply get_set_other. auto.
Qed.

Lemma start_dec cells col c :
  (exists x, In (c, x) (positioned cells col)) \/ (forall x, ~ In (c, x) (positioned cells col)).
Proof.
  revert col. induction cells as [|y cs IH]; simpl; intros col.
  - right. intros x [].
  - destruct (N.eq_dec col c) as [->|Hne]; [left; exists y; auto|].
    destruct (IH (col + ic_span y)) as [[x Hx]|Hno]; [left; exists x; auto|].
    right. intros x [H|H]; [inversion H; contradiction | now apply Hno in H].
Qed.

(* ---------- all remaining rows, tracking one owner ---------- *)
Lemma ids_concat_cons r rows o :
  ~ In o (ids (concat (r :: rows))) -> ~ In o (ids r) /\ ~ In o (ids (concat rows)).
Proof.
  unfold ids. simpl. rewrite map_app. intros H. split; intros Hi; apply H; apply in_or_app; auto.
Qed.

Lemma sweep_rows_dead o rows : forall columns spans sf kept,
  ~ In o (ids (concat rows)) -> dead columns o ->
  sweep_rows rows columns spans = (sf, kept) -> alist_get o sf = alist_get o spans.
Proof.
  induction rows as [|r rows IH]; simpl; intros columns spans sf kept Hni Hd E.
  - inversion E; subst. auto.
  - apply ids_concat_cons in Hni. destruct Hni as [Hr Hrs].
    destruct (sweep_row r 0 columns spans) as [[cols' spans'] kept_r] eqn:E1.
    destruct (sweep_rows rows cols' spans') as [sf' rest] eqn:E2. inversion E; subst.
    destruct (sweep_row_dead o r _ _ _ _ _ _ Hr Hd E1) as [H1 H2].
    rewrite (IH _ _ _ _ Hrs H1 E2). auto.
Qed.

Lemma sweep_rows_zombie W o c rows : forall prev columns spans sf kept,
  wf_rows W rows prev = true ->
  ~ In o (ids (concat rows)) -> only_at columns o c ->
  (forall s, ~ In (c, s) prev) ->
  sweep_rows rows columns spans = (sf, kept) -> alist_get o sf = alist_get o spans.
Proof.
  induction rows as [|r rows IH]; simpl; intros prev columns spans sf kept Hwf Hni Ho Hnp E.
  - inversion E; subst. auto.
  - apply ids_concat_cons in Hni. destruct Hni as [Hr Hrs].
    apply andb_true_iff in Hwf. destruct Hwf as [Hwf Hwf'].
    apply andb_true_iff in Hwf. destruct Hwf as [_ Hwr].
    destruct (sweep_row r 0 columns spans) as [[cols' spans'] kept_r] eqn:E1.
    destruct (sweep_rows rows cols' spans') as [sf' rest] eqn:E2. inversion E; subst.
    pose proof (wf_row_all_pos _ _ _ Hwr) as Hp.
    destruct (start_dec r 0 c) as [[x Hx]|Hno].
    + destruct (wf_row_spec _ _ _ Hwr _ _ Hx) as [_ Hcx].
      destruct (ic_cont x) eqn:Ec.
      * exfalso. apply (Hnp (ic_span x)). auto.
      * destruct (sweep_row_evict o c r _ _ _ _ _ _ x Hp Hr Ho Hx Ec E1) as [H1 H2].
        rewrite (sweep_rows_dead o rows _ _ _ _ Hrs H1 E2). auto.
    + destruct (sweep_row_none o c r _ _ _ _ _ _ Hr Ho Hno E1) as [H1 [H2 H3]].
      rewrite <- H3. eapply IH; eauto.
      intros s Hs. apply In_row_starts in Hs. destruct Hs as [x [Hx _]]. now apply Hno in Hx.
Qed.

Lemma sweep_rows_live W o c s rows : forall prev columns spans sf kept v,
  wf_rows W rows prev = true ->
  ~ In o (ids (concat rows)) -> only_at columns o c ->
  alist_get c columns = Some o -> In (c, s) prev -> (forall s', In (c, s') prev -> s' = s) ->
  alist_get o spans = Some v ->
  sweep_rows rows columns spans = (sf, kept) -> alist_get o sf = Some (v + ext rows c s).
Proof.
  induction rows as [|r rows IH]; simpl; intros prev columns spans sf kept v Hwf Hni Ho Hg Hin Hfun Hv E.
  - inversion E; subst. rewrite Hv. f_equal. lia.
  - apply ids_concat_cons in Hni. destruct Hni as [Hr Hrs].
    apply andb_true_iff in Hwf. destruct Hwf as [Hwf Hwf'].
    apply andb_true_iff in Hwf. destruct Hwf as [_ Hwr].
    destruct (sweep_row r 0 columns spans) as [[cols' spans'] kept_r] eqn:E1.
    destruct (sweep_rows rows cols' spans') as [sf' rest] eqn:E2. inversion E; subst.
    pose proof (wf_row_all_pos _ _ _ Hwr) as Hp.
    destruct (has_cont r 0 c s) eqn:Ehc.
    + apply has_cont_spec in Ehc. destruct Ehc as [x [Hx [Hcx Hsx]]].
      destruct (sweep_row_cont o c r _ _ _ _ _ _ x v Hp Hr Ho Hx Hcx Hg Hv E1) as [H1 [H2 H3]].
      replace (v + (1 + ext rows c s)) with ((v + 1) + ext rows c s) by lia.
      eapply (IH (row_starts r 0)); eauto.
      * apply In_row_starts. eauto.
      * intros s' Hs'. apply In_row_starts in Hs'. destruct Hs' as [x' [Hx' Hsx']].
        rewrite (positioned_same_start r 0 c x' x Hp Hx' Hx) in Hsx'. congruence.
    + replace (v + 0) with v by lia.
      destruct (start_dec r 0 c) as [[x Hx]|Hno].
      * destruct (wf_row_spec _ _ _ Hwr _ _ Hx) as [_ Hcx].
        destruct (ic_cont x) eqn:Ec.
        -- exfalso. pose proof (Hfun _ (Hcx eq_refl)) as Hs.
           assert (has_cont r 0 c s = true) as Ht by (apply has_cont_spec; eauto).
           congruence.
        -- destruct (sweep_row_evict o c r _ _ _ _ _ _ x Hp Hr Ho Hx Ec E1) as [H1 H2].
           rewrite (sweep_rows_dead o rows _ _ _ _ Hrs H1 E2). congruence.
      * destruct (sweep_row_none o c r _ _ _ _ _ _ Hr Ho Hno E1) as [H1 [H2 H3]].
        rewrite <- Hv, <- H3.
        eapply (sweep_rows_zombie W o c rows (row_starts r 0)); eauto.
        intros s0 Hs. apply In_row_starts in Hs. destruct Hs as [x [Hx _]]. now apply Hno in Hx.
Qed.

(* ---------- what one row does to the dictionaries and which cells it keeps ---------- *)
Definition noncont (c : icell) : bool := negb (ic_cont c).

Lemma sweep_row_dom1 cells : forall col columns spans cols' spans' kept j,
  sweep_row cells col columns spans = (cols', spans', kept) ->
  alist_get j columns <> None -> alist_get j cols' <> None.
Proof.
  induction cells as [|y cs IH]; simpl; intros col columns spans cols' spans' kept j E Hj.
  - inversion E; subst. auto.
  - destruct (if ic_cont y then alist_get col columns else None) as [owner|] eqn:EL.
    + eapply IH; eauto.
    + destruct (sweep_row cs (col + ic_span y) (alist_set col (ic_id y) columns)
                  (alist_set (ic_id y) 1 spans)) as [[cols1 spans1] kept1] eqn:E1.
      inversion E; subst. eapply IH; eauto.
      destruct (N.eq_dec j col) as [->|Hne].
      * rewrite get_set_same. discriminate.
      * rewrite get_set_other; auto.
Qed.

Lemma sweep_row_dom2 cells : forall col columns spans cols' spans' kept c x,
  sweep_row cells col columns spans = (cols', spans', kept) ->
  In (c, x) (positioned cells col) -> alist_get c cols' <> None.
Proof.
  induction cells as [|y cs IH]; simpl; intros col columns spans cols' spans' kept c x E Hin;
    [contradiction|].
  destruct (if ic_cont y then alist_get col columns else None) as [owner|] eqn:EL.
  - destruct Hin as [Hin|Hin]; [|eapply IH; eauto].
    inversion Hin; subst. eapply sweep_row_dom1; eauto.
    destruct (ic_cont x); [|discriminate]. rewrite EL. discriminate.
  - destruct (sweep_row cs (col + ic_span y) (alist_set col (ic_id y) columns)
                (alist_set (ic_id y) 1 spans)) as [[cols1 spans1] kept1] eqn:E1.
    inversion E; subst.
    destruct Hin as [Hin|Hin]; [|eapply IH; eauto].
    inversion Hin; subst. eapply sweep_row_dom1; eauto. rewrite get_set_same. discriminate.
Qed.

Lemma sweep_row_values cells : forall col columns spans cols' spans' kept j o,
  sweep_row cells col columns spans = (cols', spans', kept) ->
  alist_get j cols' = Some o -> alist_get j columns = Some o \/ In o (ids cells).
Proof.
  induction cells as [|y cs IH]; simpl; intros col columns spans cols' spans' kept j o E Hj.
  - inversion E; subst. auto.
  - destruct (if ic_cont y then alist_get col columns else None) as [owner|] eqn:EL.
    + destruct (IH _ _ _ _ _ _ _ _ E Hj); auto.
    + destruct (sweep_row cs (col + ic_span y) (alist_set col (ic_id y) columns)
                  (alist_set (ic_id y) 1 spans)) as [[cols1 spans1] kept1] eqn:E1.
      inversion E; subst.
      destruct (IH _ _ _ _ _ _ _ _ E1 Hj) as [H|H]; auto.
      destruct (N.eq_dec j col) as [->|Hne].
      * rewrite get_set_same in H. inversion H. auto.
      * rewrite get_set_other in H; auto.
Qed.

Lemma sweep_row_kept cells : forall col columns spans cols' spans' kept,
  (forall c x, In (c, x) (positioned cells col) -> ic_cont x = true -> alist_get c columns <> None) ->
  sweep_row cells col columns spans = (cols', spans', kept) ->
  kept = filter noncont cells.
Proof.
  induction cells as [|y cs IH]; simpl; intros col columns spans cols' spans' kept Hdom E.
  - inversion E; subst. auto.
  - unfold noncont at 1.
    destruct (ic_cont y) eqn:Ec; simpl.
    + destruct (alist_get col columns) as [owner|] eqn:EL.
      * eapply IH; eauto.
      * exfalso. apply (Hdom col y); auto.
    + destruct (sweep_row cs (col + ic_span y) (alist_set col (ic_id y) columns)
                  (alist_set (ic_id y) 1 spans)) as [[cols1 spans1] kept1] eqn:E1.
      inversion E; subst. f_equal. refine (IH _ _ _ _ _ _ _ E1).
      intros c x Hin Hc. destruct (N.eq_dec c col) as [->|Hne].
      * rewrite get_set_same. discriminate.
      * rewrite get_set_other; eauto.
Qed.

Definition fresh (columns : list (N * N)) (l : list N) : Prop :=
  forall j o, alist_get j columns = Some o -> ~ In o l.

(* a kept cell registers itself at its start column, nowhere else, with rowspan 1 *)
Lemma sweep_row_new cells : forall col columns spans cols' spans' kept c x,
  all_pos cells -> NoDup (ids cells) -> fresh columns (ids cells) ->
  In (c, x) (positioned cells col) -> ic_cont x = false ->
  sweep_row cells col columns spans = (cols', spans', kept) ->
  alist_get c cols' = Some (ic_id x) /\ only_at cols' (ic_id x) c /\ alist_get (ic_id x) spans' = Some 1.
Proof.
  induction cells as [|y cs IH]; simpl; intros col columns spans cols' spans' kept c x
    Hp Hnd Hfr Hin Hc E; [contradiction|].
  pose proof (all_pos_tail _ _ Hp) as Hp'.
  assert (0 < ic_span y) as Hsy by (apply Hp; now left).
  inversion Hnd as [|? ? Hny Hnd']; subst.
  destruct Hin as [Hin|Hin].
  - inversion Hin; subst col y. rewrite Hc in E.
    destruct (sweep_row cs (c + ic_span x) (alist_set c (ic_id x) columns)
                (alist_set (ic_id x) 1 spans)) as [[cols1 spans1] kept1] eqn:E1.
    inversion E; subst.
    assert (only_at (alist_set c (ic_id x) columns) (ic_id x) c) as Ho.
    { intros c' H. destruct (N.eq_dec c' c) as [|Hne]; auto.
      rewrite get_set_other in H by auto. apply Hfr in H. exfalso. apply H. simpl. auto. }
    destruct (sweep_row_none (ic_id x) c cs _ _ _ _ _ _ Hny Ho
                (positioned_tail_no_start cs c _ Hsy) E1) as [H1 [H2 H3]].
    rewrite H2, H3, !get_set_same. auto.
  - destruct (if ic_cont y then alist_get col columns else None) as [owner|] eqn:EL.
    + eapply (IH _ _ _ _ _ _ c x Hp' Hnd'); eauto.
      intros j o Hj Ho. apply (Hfr j o Hj). simpl. auto.
    + destruct (sweep_row cs (col + ic_span y) (alist_set col (ic_id y) columns)
                  (alist_set (ic_id y) 1 spans)) as [[cols1 spans1] kept1] eqn:E1.
      inversion E; subst.
      eapply (IH _ _ _ _ _ _ c x Hp' Hnd'); eauto.
      intros j o Hj Ho. destruct (N.eq_dec j col) as [->|Hne].
      * rewrite get_set_same in Hj. inversion Hj; subst. contradiction.
      * rewrite get_set_other in Hj by auto. apply (Hfr j o Hj). simpl. auto.
Qed.

Definition mk_ocell (sf : list (N * N)) (c : icell) : ocell :=
  OC (ic_id c) (ic_span c) (match alist_get (ic_id c) sf with Some v => v | None => 1 end).

Lemma spec_row_eq sf after cells : forall col,
  (forall c x, In (c, x) (positioned cells col) -> ic_cont x = false ->
               alist_get (ic_id x) sf = Some (1 + ext after c (ic_span x))) ->
  map (mk_ocell sf) (filter noncont cells) = spec_row cells col after.
Proof.
  induction cells as [|y cs IH]; simpl; intros col H; auto.
  unfold noncont at 1. destruct (ic_cont y) eqn:Ec; simpl.
  - apply IH. intros c x Hin. apply H. auto.
  - f_equal.
    + unfold mk_ocell. rewrite (H col y); auto.
    + apply IH. intros c x Hin. apply H. auto.
Qed.

Lemma sweep_rows_spec W rows : forall prev columns spans sf kept,
  wf_rows W rows prev = true ->
  (forall c s, In (c, s) prev -> alist_get c columns <> None) ->
  fresh columns (ids (concat rows)) -> NoDup (ids (concat rows)) ->
  sweep_rows rows columns spans = (sf, kept) ->
  map (map (mk_ocell sf)) kept = spec_rows rows.
Proof.
  induction rows as [|r rows IH]; simpl; intros prev columns spans sf kept Hwf Hdom Hfr Hnd E.
  - inversion E; subst. auto.
  - apply andb_true_iff in Hwf. destruct Hwf as [Hwf Hwf'].
    apply andb_true_iff in Hwf. destruct Hwf as [_ Hwr].
    destruct (sweep_row r 0 columns spans) as [[cols' spans'] kept_r] eqn:E1.
    destruct (sweep_rows rows cols' spans') as [sf' rest] eqn:E2. inversion E; subst.
    pose proof (wf_row_all_pos _ _ _ Hwr) as Hp.
    unfold ids in Hnd, Hfr. rewrite map_app in Hnd, Hfr. fold (ids r) in Hnd, Hfr.
    fold (ids (concat rows)) in Hnd, Hfr.
    assert (fresh cols' (ids (concat rows))) as Hfr'.
    { intros j o Hj Ho. destruct (sweep_row_values _ _ _ _ _ _ _ _ _ E1 Hj) as [H|H].
      - apply (Hfr j o H). apply in_or_app. auto.
      - exact (NoDup_app_disj _ _ _ Hnd H Ho). }
    simpl. f_equal.
    + rewrite (sweep_row_kept r 0 columns spans cols' spans' kept_r); auto.
      * apply spec_row_eq. intros c x Hx Hc.
        assert (fresh columns (ids r)) as Hfr_r
            by (intros j o Hj Ho; apply (Hfr j o Hj); apply in_or_app; auto).
        destruct (sweep_row_new r 0 _ _ _ _ _ c x Hp (NoDup_app_l _ _ Hnd) Hfr_r Hx Hc E1)
          as [H1 [H2 H3]].
        assert (~ In (ic_id x) (ids (concat rows))) as Hni.
        { apply (NoDup_app_disj _ _ _ Hnd). unfold ids. apply in_map.
          eapply positioned_In; eauto. }
        eapply (sweep_rows_live W (ic_id x) c (ic_span x) rows (row_starts r 0)); eauto.
        -- apply In_row_starts. eauto.
        -- intros s' Hs'. apply In_row_starts in Hs'. destruct Hs' as [x' [Hx' Hsx']].
           rewrite (positioned_same_start r 0 c x' x Hp Hx' Hx) in Hsx'. congruence.
      * intros c x Hx Hc. destruct (wf_row_spec _ _ _ Hwr _ _ Hx) as [_ Hcx]. eauto.
    + eapply (IH (row_starts r 0)); eauto.
      * intros c s Hs. apply In_row_starts in Hs. destruct Hs as [x [Hx _]].
        eapply sweep_row_dom2; eauto.
      * exact (NoDup_app_r _ _ Hnd).
Qed.

Theorem row_spans_spec W rows : wf_tiling W rows = true -> row_spans rows = spec_rows rows.
Proof.
  unfold wf_tiling. intros H. apply andb_true_iff in H. destruct H as [Hwf Hnd].
  apply nodup_N_NoDup in Hnd. unfold row_spans.
  destruct (sweep_rows rows [] []) as [sf kept] eqn:E.
  apply (sweep_rows_spec W rows [] [] [] sf kept Hwf); auto.
  intros j o Hj. discriminate.
Qed.
