(* GENERATED from EndToEndSpec.v.in by tools/strlit.py — edit the .in file *)
(* C01 end to end — STATEMENT side: the text of the HTML that convert_to_html returns, read back by the
   independent lexer (tags removed, entities decoded), is the rendering of the live items of the body XML
   (Proofs/LiveSpec.v), followed by the notes and the comments.
   [116;101;120;116] literals are expanded by tools/strlit.py. *)
From Mammoth Require Import Api ConvertSpec WriterSpec LiveSpec.
Local Open Scope N_scope.

(* the options convert_to_html works with (mammoth/__init__.py + options.read_options) *)
Definition opts_in_force (s : source) (a : api_opts) : outcome copts :=
  emb <- (if a_include_embedded a then read_embedded_style_map (src_pkg s) else Ok None) ;;
  sm <- read_options_style_map (or_empty (a_style_map a)) (or_empty emb) (a_include_default a) ;;
  Ok (mkOpts (fst sm) (or_empty (a_id_prefix a)) (a_ignore_empty a) (a_conv a)).

(* no `!` mapping in the style map: nothing is allowed to disappear *)
Definition no_ignore (sm : list style) : bool := forallb (fun st => negb (is_ignore (s_path st))) sm.

(* comment references are rendered only when a mapping enables them *)
Definition crefs_on (o : copts) : bool := negb (is_ignore (comment_ref_path o)).

Section Render.
  Variable cm : list comment.
  Variable con : bool.
  Definition initials (cid : str) : str :=
    match find_comment cid cm None with
    | Some c => match c_initials c with Some i => i | None => [] end
    | None => []
    end.
  (* characters as they are; the k-th note reference is [k]; the k-th rendered comment reference is [initials k] *)
  Fixpoint render (its : list item) (nn nc : N) : str :=
    match its with
    | [] => []
    | IChar c :: r => c :: render r nn nc
    | INote _ _ :: r => [91] ++ str_of_N (nn + 1) ++ [93] ++ render r (nn + 1) nc
    | IComment cid :: r => if con then [91] ++ initials cid ++ str_of_N (nc + 1) ++ [93] ++ render r nn (nc + 1)
                           else render r nn nc
    end.
End Render.

Fixpoint item_refs (its : list item) : list (str * str) :=
  match its with
  | [] => []
  | INote t i :: r => (t, i) :: item_refs r
  | _ :: r => item_refs r
  end.
Fixpoint item_crefs (its : list item) : list str :=
  match its with
  | [] => []
  | IComment c :: r => c :: item_crefs r
  | _ :: r => item_crefs r
  end.

Definition style_map_plain (sm : list style) : Prop :=
  Forall (fun t => tag_no_sep t = true) (style_tags sm) /\
  Forall (fun t => plain_name (tname t) = true /\ forallb (fun kv => plain_name (fst kv)) (tattrs t) = true) (style_tags sm).

(* executable form of the main consequence (the body's live text is the beginning of the HTML's text), for testing *)
Fixpoint starts_with (s p : str) : bool :=
  match p, s with
  | [], _ => true
  | c :: p', d :: s' => N.eqb c d && starts_with s' p'
  | _ :: _, [] => false
  end.
Definition e2e_agrees (s : source) (a : api_opts) : bool :=
  match convert_to_html s a, opts_in_force s a, main_body (src_pkg s), read_docx s with
  | Ok (html, _), Ok o, Some l, Ok (d, _) =>
      if wf_body l && no_ignore (o_style_map o)
      then match lex_html html with
           | Some ts => starts_with (tokens_text ts) (render (d_comments d) (crefs_on o) (fst (live_body l)) 0 0)
           | None => true      (* names that are not plain: outside the statement *)
           end
      else true
  | _, _, _, _ => true
  end.
Definition e2e_in_domain (s : source) (a : api_opts) : bool :=
  match convert_to_html s a, opts_in_force s a, main_body (src_pkg s) with
  | Ok (html, _), Ok o, Some l => wf_body l && no_ignore (o_style_map o) && match lex_html html with Some _ => true | None => false end
  | _, _, _ => false
  end.
