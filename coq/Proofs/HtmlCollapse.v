(* Theorems about collapse (C04).  Statements fixed; proofs to be filled. *)
From Mammoth Require Import Html Writer HtmlCollapseSpec StrFacts.
From Coq Require Import Relations Lia Btauto.
Local Open Scope N_scope.

Section S.
  Context {A : Type} (mk : str -> A).

  Theorem is_match_iff (l n : tag) :
    is_match l n = true <-> In (tname l) (tnames n) /\ tattrs l = tattrs n.
  Proof.
    unfold is_match. rewrite andb_true_iff, mem_str_iff, attrs_eqb_iff. reflexivity.
  Qed.

  (* ---------- unfolding lemmas ---------- *)

  Lemma go_merge_all (l : list (node A)) : forall a,
    (fix go (l a : list (node A)) {struct l} : list (node A) :=
       match l with [] => a | c :: l' => go l' (merge_into mk a c) end) l a
    = merge_all mk l a.
  Proof.
    induction l as [|c l IHl]; intros a.
    - reflexivity.
    - apply IHl.
  Qed.

  Lemma merge_into_Elem (acc : list (node A)) nt ncs :
    merge_into mk acc (Elem nt ncs) =
    match unsnoc acc with
    | Some (init, Elem lt lcs) =>
        if tcoll nt && is_match lt nt
        then init ++ [Elem lt (merge_all mk ncs (lcs ++ sep_nodes mk nt))]
        else acc ++ [Elem nt ncs]
    | _ => acc ++ [Elem nt ncs]
    end.
  Proof.
    (* the local [fix go] of merge_into is convertible with [fold_left (merge_into mk)] *)
    reflexivity.
  Qed.

  Lemma merge_into_Text (acc : list (node A)) a : merge_into mk acc (Text a) = acc ++ [Text a].
  Proof. reflexivity. Qed.

  Lemma merge_into_Force (acc : list (node A)) : merge_into mk acc Force = acc ++ [Force].
  Proof. reflexivity. Qed.

  Lemma merge_all_cons c l (a : list (node A)) :
    merge_all mk (c :: l) a = merge_all mk l (merge_into mk a c).
  Proof. reflexivity. Qed.

  Definition cstep (a : list (node A)) (c : node A) : list (node A) :=
    merge_into mk a (collapse_node mk c).

  Lemma collapse_unfold (ns : list (node A)) : collapse mk ns = fold_left cstep ns [].
  Proof. reflexivity. Qed.

  Lemma go_collapse (l : list (node A)) : forall a,
    (fix go (l a : list (node A)) {struct l} : list (node A) :=
       match l with [] => a | c :: l' => go l' (merge_into mk a (collapse_node mk c)) end) l a
    = fold_left cstep l a.
  Proof.
    induction l as [|c l IHl]; intros a.
    - reflexivity.
    - apply IHl.
  Qed.

  Lemma collapse_node_Elem t (cs : list (node A)) :
    collapse_node mk (Elem t cs) = Elem t (collapse mk cs).
  Proof.
    cbn [collapse_node]. rewrite go_collapse. reflexivity.
  Qed.

  (* ---------- merge_into: the two cases ---------- *)

  Theorem merge_into_refuse (acc : list (node A)) (cn : node A) :
    (forall init l, acc = init ++ [l] -> mergeable l cn = false) ->
    merge_into mk acc cn = acc ++ [cn].
  Proof.
    intros H. destruct cn as [a|nt ncs|]; try reflexivity.
    rewrite merge_into_Elem.
    destruct (unsnoc acc) as [[init [a|lt lcs|]]|] eqn:Hu; try reflexivity.
    apply unsnoc_Some in Hu. specialize (H _ _ Hu). simpl in H. rewrite H. reflexivity.
  Qed.

  Theorem merge_into_merge init lt lcs nt ncs :
    tcoll nt && is_match lt nt = true ->
    merge_into mk (init ++ [Elem lt lcs]) (Elem nt ncs)
    = init ++ [Elem lt (merge_all mk ncs (lcs ++ sep_nodes mk nt))].
  Proof.
    intros H. rewrite merge_into_Elem, unsnoc_app_last, H. reflexivity.
  Qed.

  Theorem merge_iff (acc : list (node A)) (cn : node A) :
    length (merge_into mk acc cn) = length acc
    <-> exists init l, acc = init ++ [l] /\ mergeable l cn = true.
  Proof.
    split.
    - intros Hlen. destruct cn as [a|nt ncs|].
      + rewrite merge_into_Text, app_length in Hlen. simpl in Hlen. lia.
      + rewrite merge_into_Elem in Hlen.
        destruct (unsnoc acc) as [[init [a|lt lcs|]]|] eqn:Hu;
          try (rewrite app_length in Hlen; simpl in Hlen; lia).
        destruct (tcoll nt && is_match lt nt) eqn:Hc.
        * exists init, (Elem lt lcs). split.
          -- apply unsnoc_Some. exact Hu.
          -- exact Hc.
        * rewrite app_length in Hlen. simpl in Hlen. lia.
      + rewrite merge_into_Force, app_length in Hlen. simpl in Hlen. lia.
    - intros [init [l [Hacc Hm]]]. subst acc.
      destruct l as [la|lt lcs|]; destruct cn as [a|nt ncs|]; try discriminate.
      simpl in Hm. rewrite merge_into_merge by exact Hm. rewrite !app_length. reflexivity.
  Qed.

  (* ---------- normal forms ---------- *)

  Lemma nf_node_Elem t (cs : list (node A)) : nf_node (Elem t cs) = nf_forest cs.
  Proof.
    cbn [nf_node]. induction cs as [|x cs IH].
    - reflexivity.
    - cbn [nf_forest]. rewrite <- IH. reflexivity.
  Qed.

  Fixpoint last_ok (l : list (node A)) (x : node A) : bool :=
    match l with
    | [] => true
    | y :: l' => match l' with [] => negb (mergeable y x) | _ :: _ => last_ok l' x end
    end.

  Lemma last_ok_cons2 y z l x : last_ok (y :: z :: l) x = last_ok (z :: l) x.
  Proof. reflexivity. Qed.

  Lemma last_ok_snoc i y x : last_ok (i ++ [y]) x = negb (mergeable y x).
  Proof.
    induction i as [|z i IH].
    - reflexivity.
    - destruct (i ++ [y]) as [|w l] eqn:E.
      + apply app_eq_nil in E. destruct E as [_ E]. discriminate.
      + change ((z :: i) ++ [y]) with (z :: (i ++ [y])). rewrite E, last_ok_cons2. exact IH.
  Qed.

  Lemma last_ok_ext l x x' :
    (forall y, mergeable y x = mergeable y x') -> last_ok l x = last_ok l x'.
  Proof.
    intros H. induction l as [|y l IH].
    - reflexivity.
    - destruct l as [|z l].
      + simpl. rewrite H. reflexivity.
      + rewrite !last_ok_cons2. exact IH.
  Qed.

  Lemma last_ok_never l x : (forall y, mergeable y x = false) -> last_ok l x = true.
  Proof.
    intros H. induction l as [|y l IH].
    - reflexivity.
    - destruct l as [|z l].
      + simpl. rewrite H. reflexivity.
      + rewrite last_ok_cons2. exact IH.
  Qed.

  Lemma mergeable_Text (y : node A) a : mergeable y (Text a) = false.
  Proof. destruct y; reflexivity. Qed.

  Lemma mergeable_Force (y : node A) : mergeable y Force = false.
  Proof. destruct y; reflexivity. Qed.

  Lemma nf_forest_cons x (l : list (node A)) :
    nf_forest (x :: l)
    = nf_node x && match l with y :: _ => negb (mergeable x y) | [] => true end && nf_forest l.
  Proof. reflexivity. Qed.

  Lemma nf_forest_app (a b : list (node A)) :
    nf_forest (a ++ b)
    = nf_forest a && nf_forest b && match b with x :: _ => last_ok a x | [] => true end.
  Proof.
    induction a as [|y a IH].
    - simpl. destruct b as [|x b]; rewrite andb_true_r; reflexivity.
    - destruct a as [|z a].
      + destruct b as [|x b].
        * simpl. rewrite !andb_true_r. reflexivity.
        * change ([y] ++ x :: b) with (y :: x :: b).
          rewrite (nf_forest_cons y (x :: b)), (nf_forest_cons y []).
          cbn [last_ok nf_forest]. btauto.
      + change ((y :: z :: a) ++ b) with (y :: (z :: a) ++ b).
        rewrite (nf_forest_cons y ((z :: a) ++ b)), IH, (nf_forest_cons y (z :: a)).
        change ((z :: a) ++ b) with (z :: a ++ b).
        destruct b as [|x b].
        * btauto.
        * rewrite last_ok_cons2. btauto.
  Qed.

  Lemma nf_forest_single (x : node A) : nf_forest [x] = nf_node x.
  Proof. simpl. rewrite !andb_true_r. reflexivity. Qed.

  Lemma nf_forest_snoc (l : list (node A)) x :
    nf_forest (l ++ [x]) = nf_forest l && nf_node x && last_ok l x.
  Proof. rewrite nf_forest_app, nf_forest_single. reflexivity. Qed.

  Lemma nf_forest_sep (l : list (node A)) t : nf_forest (l ++ sep_nodes mk t) = nf_forest l.
  Proof.
    unfold sep_nodes. destruct (tsep t) as [[|c s]|].
    - rewrite app_nil_r. reflexivity.
    - rewrite nf_forest_snoc. rewrite last_ok_never by (intros y; apply mergeable_Text).
      simpl. rewrite !andb_true_r. reflexivity.
    - rewrite app_nil_r. reflexivity.
  Qed.

  Definition nf_pres (c : node A) : Prop :=
    forall acc, nf_forest acc = true -> nf_node c = true -> nf_forest (merge_into mk acc c) = true.

  Lemma merge_all_nf (ncs : list (node A)) :
    Forall nf_pres ncs ->
    forall a, nf_forest a = true -> nf_forest ncs = true -> nf_forest (merge_all mk ncs a) = true.
  Proof.
    intros HF. induction HF as [|c ncs Hc Hncs IH]; intros a Ha Hn.
    - exact Ha.
    - rewrite merge_all_cons. rewrite nf_forest_cons in Hn.
      apply andb_true_iff in Hn. destruct Hn as [Hn Hn3].
      apply andb_true_iff in Hn. destruct Hn as [Hn1 Hn2].
      apply IH; [|exact Hn3]. apply Hc; assumption.
  Qed.

  Lemma merge_into_nf (cn : node A) : nf_pres cn.
  Proof.
    induction cn as [a| |nt ncs IH] using node_ind'; intros acc Hacc Hcn.
    - rewrite merge_into_Text, nf_forest_snoc, Hacc.
      rewrite last_ok_never by (intros y; apply mergeable_Text). reflexivity.
    - rewrite merge_into_Force, nf_forest_snoc, Hacc.
      rewrite last_ok_never by (intros y; apply mergeable_Force). reflexivity.
    - rewrite merge_into_Elem.
      destruct (unsnoc acc) as [[init [a|lt lcs|]]|] eqn:Hu.
      + apply unsnoc_Some in Hu. rewrite nf_forest_snoc, Hacc, Hcn. subst acc.
        rewrite last_ok_snoc. reflexivity.
      + apply unsnoc_Some in Hu. destruct (tcoll nt && is_match lt nt) eqn:Hc.
        * subst acc. rewrite nf_forest_snoc in Hacc. rewrite nf_forest_snoc.
          apply andb_true_iff in Hacc. destruct Hacc as [Hacc H3].
          apply andb_true_iff in Hacc. destruct Hacc as [H1 H2].
          rewrite H1. rewrite nf_node_Elem in H2, Hcn |- *.
          rewrite (last_ok_ext init _ (Elem lt lcs)) by (intros y; reflexivity).
          rewrite H3. rewrite merge_all_nf; [reflexivity|exact IH| |exact Hcn].
          rewrite nf_forest_sep. exact H2.
        * rewrite nf_forest_snoc, Hacc, Hcn. subst acc. rewrite last_ok_snoc.
          simpl. rewrite Hc. reflexivity.
      + apply unsnoc_Some in Hu. rewrite nf_forest_snoc, Hacc, Hcn. subst acc.
        rewrite last_ok_snoc. reflexivity.
      + apply unsnoc_None in Hu. subst acc. simpl app. rewrite nf_forest_single. exact Hcn.
  Qed.

  Lemma fold_cstep_nf (cs : list (node A)) :
    Forall (fun c => nf_node (collapse_node mk c) = true) cs ->
    forall a, nf_forest a = true -> nf_forest (fold_left cstep cs a) = true.
  Proof.
    intros HF. induction HF as [|c cs Hc Hcs IH]; intros a Ha.
    - exact Ha.
    - simpl. apply IH. unfold cstep. apply merge_into_nf; assumption.
  Qed.

  Lemma collapse_node_nf (n : node A) : nf_node (collapse_node mk n) = true.
  Proof.
    induction n as [a| |t cs IH] using node_ind'; try reflexivity.
    rewrite collapse_node_Elem, nf_node_Elem, collapse_unfold.
    apply fold_cstep_nf; [exact IH | reflexivity].
  Qed.

  Theorem collapse_nf (ns : list (node A)) : nf_forest (collapse mk ns) = true.
  Proof.
    rewrite collapse_unfold. apply fold_cstep_nf; [|reflexivity].
    apply Forall_forall. intros n _. apply collapse_node_nf.
  Qed.

  Lemma merge_into_last_ok (acc : list (node A)) cn :
    last_ok acc cn = true -> merge_into mk acc cn = acc ++ [cn].
  Proof.
    intros H. apply merge_into_refuse. intros init l Hacc. subst acc.
    rewrite last_ok_snoc in H. apply negb_true_iff in H. exact H.
  Qed.

  Lemma fold_cstep_fixed (cs : list (node A)) :
    Forall (fun c => nf_node c = true -> collapse_node mk c = c) cs ->
    forall a, nf_forest (a ++ cs) = true -> fold_left cstep cs a = a ++ cs.
  Proof.
    intros HF. induction HF as [|c cs Hc Hcs IH]; intros a Ha.
    - simpl. rewrite app_nil_r. reflexivity.
    - simpl. pose proof Ha as Ha'. rewrite nf_forest_app in Ha'.
      apply andb_true_iff in Ha'. destruct Ha' as [Ha' H3].
      apply andb_true_iff in Ha'. destruct Ha' as [H1 H2].
      rewrite nf_forest_cons in H2.
      apply andb_true_iff in H2. destruct H2 as [H2 H2c].
      apply andb_true_iff in H2. destruct H2 as [H2a H2b].
      unfold cstep at 2. rewrite Hc by exact H2a.
      rewrite merge_into_last_ok by exact H3.
      replace (a ++ c :: cs) with ((a ++ [c]) ++ cs) in Ha |- * by (rewrite <- app_assoc; reflexivity).
      apply IH. exact Ha.
  Qed.

  Lemma collapse_node_fixed (n : node A) : nf_node n = true -> collapse_node mk n = n.
  Proof.
    induction n as [a| |t cs IH] using node_ind'; try reflexivity.
    intros Hn. rewrite nf_node_Elem in Hn. rewrite collapse_node_Elem, collapse_unfold.
    rewrite fold_cstep_fixed; [reflexivity | exact IH | exact Hn].
  Qed.

  Theorem collapse_fixed (ns : list (node A)) : nf_forest ns = true -> collapse mk ns = ns.
  Proof.
    intros Hn. rewrite collapse_unfold. rewrite fold_cstep_fixed; [reflexivity | | exact Hn].
    apply Forall_forall. intros n _. apply collapse_node_fixed.
  Qed.

  Theorem collapse_idem (ns : list (node A)) : collapse mk (collapse mk ns) = collapse mk ns.
  Proof. apply collapse_fixed. apply collapse_nf. Qed.

  (* ---------- depth: the fuel measure ---------- *)

  Fixpoint depth (n : node A) : nat :=
    match n with
    | Elem _ cs => S (fold_right (fun c a => Nat.max (depth c) a) O cs)
    | _ => O
    end.

  Definition dle (d : nat) (n : node A) : Prop := (depth n <= d)%nat.

  Lemma depth_Elem_le t cs d : (depth (Elem t cs) <= S d)%nat <-> Forall (dle d) cs.
  Proof.
    cbn [depth]. split.
    - intros H. apply le_S_n in H. induction cs as [|c cs IH]; constructor.
      + unfold dle. simpl in H. lia.
      + apply IH. simpl in H. lia.
    - intros HF. apply le_n_S. induction HF as [|c cs Hc Hcs IH]; simpl.
      + lia.
      + unfold dle in Hc. lia.
  Qed.

  Lemma depth_Elem_0 t cs : ~ dle O (Elem t cs).
  Proof. unfold dle. cbn [depth]. lia. Qed.

  Lemma dle_sep d t : Forall (dle d) (sep_nodes mk t).
  Proof.
    unfold sep_nodes. destruct (tsep t) as [[|c s]|]; constructor.
    - unfold dle. simpl. lia.
    - constructor.
  Qed.

  Definition dle_pres (c : node A) : Prop :=
    forall d acc, Forall (dle d) acc -> dle d c -> Forall (dle d) (merge_into mk acc c).

  Lemma merge_all_dle (ncs : list (node A)) :
    Forall dle_pres ncs ->
    forall d a, Forall (dle d) a -> Forall (dle d) ncs -> Forall (dle d) (merge_all mk ncs a).
  Proof.
    intros HF. induction HF as [|c ncs Hc Hncs IH]; intros d a Ha Hn.
    - exact Ha.
    - rewrite merge_all_cons. inversion Hn as [|c' ncs' Hdc Hdn]; subst.
      apply IH; [|exact Hdn]. apply Hc; assumption.
  Qed.

  Lemma merge_into_dle (cn : node A) : dle_pres cn.
  Proof.
    induction cn as [a| |nt ncs IH] using node_ind'; intros d acc Hacc Hcn.
    - rewrite merge_into_Text. apply Forall_app. split; [exact Hacc|]. constructor; [exact Hcn|constructor].
    - rewrite merge_into_Force. apply Forall_app. split; [exact Hacc|]. constructor; [exact Hcn|constructor].
    - assert (Hdef : Forall (dle d) (acc ++ [Elem nt ncs])).
      { apply Forall_app. split; [exact Hacc|]. constructor; [exact Hcn|constructor]. }
      rewrite merge_into_Elem.
      destruct (unsnoc acc) as [[init [a|lt lcs|]]|] eqn:Hu; try exact Hdef.
      destruct (tcoll nt && is_match lt nt) eqn:Hc; try exact Hdef.
      apply unsnoc_Some in Hu. subst acc.
      apply Forall_app in Hacc. destruct Hacc as [Hinit Hlast].
      inversion Hlast as [|x l Hl _]; subst.
      apply Forall_app. split; [exact Hinit|]. constructor; [|constructor].
      destruct d as [|d'].
      + exfalso. exact (depth_Elem_0 _ _ Hl).
      + apply depth_Elem_le. apply depth_Elem_le in Hl. apply depth_Elem_le in Hcn.
        apply merge_all_dle; [exact IH| |exact Hcn].
        apply Forall_app. split; [exact Hl|apply dle_sep].
  Qed.

  Lemma fold_cstep_dle (cs : list (node A)) :
    Forall (fun c => forall d, dle d c -> dle d (collapse_node mk c)) cs ->
    forall d a, Forall (dle d) a -> Forall (dle d) cs -> Forall (dle d) (fold_left cstep cs a).
  Proof.
    intros HF. induction HF as [|c cs Hc Hcs IH]; intros d a Ha Hn.
    - exact Ha.
    - simpl. inversion Hn as [|c' cs' Hdc Hdn]; subst.
      apply IH; [|exact Hdn]. unfold cstep. apply merge_into_dle; [exact Ha|].
      apply Hc. exact Hdc.
  Qed.

  Lemma collapse_node_dle (n : node A) : forall d, dle d n -> dle d (collapse_node mk n).
  Proof.
    induction n as [a| |t cs IH] using node_ind'; intros d Hd; try exact Hd.
    rewrite collapse_node_Elem. destruct d as [|d'].
    - exfalso. exact (depth_Elem_0 _ _ Hd).
    - apply depth_Elem_le. apply depth_Elem_le in Hd. rewrite collapse_unfold.
      apply fold_cstep_dle; [exact IH|constructor|exact Hd].
  Qed.

  Lemma collapse_dle d (cs : list (node A)) : Forall (dle d) cs -> Forall (dle d) (collapse mk cs).
  Proof.
    intros H. rewrite collapse_unfold. apply fold_cstep_dle; [|constructor|exact H].
    apply Forall_forall. intros c _. apply collapse_node_dle.
  Qed.

  Lemma depth_le_nsize (n : node A) : (depth n <= nsize n)%nat.
  Proof.
    induction n as [a| |t cs IH] using node_ind'; simpl; try lia.
    apply le_n_S. induction IH as [|c cs Hc Hcs IH']; simpl; lia.
  Qed.

  Lemma nsize_le_fsize (ns : list (node A)) c : In c ns -> (nsize c <= fsize ns)%nat.
  Proof.
    induction ns as [|x ns IH]; intros Hin.
    - destruct Hin.
    - destruct Hin as [Heq|Hin].
      + subst. unfold fsize. simpl. lia.
      + apply IH in Hin. unfold fsize in *. simpl. lia.
  Qed.

  Lemma nf_forest_In (l : list (node A)) c : nf_forest l = true -> In c l -> nf_node c = true.
  Proof.
    induction l as [|x l IH]; intros Hn Hin.
    - destruct Hin.
    - rewrite nf_forest_cons in Hn.
      apply andb_true_iff in Hn. destruct Hn as [Hn H3].
      apply andb_true_iff in Hn. destruct Hn as [H1 H2].
      destruct Hin as [Heq|Hin].
      + subst. exact H1.
      + apply IH; assumption.
  Qed.

  (* ---------- the code as written ---------- *)

  Definition lift_add (f : nat) (oa : option (list (node A))) (c : node A) : option (list (node A)) :=
    match oa with Some a => add_f mk f a c | None => None end.

  Lemma add_f_S f acc n :
    add_f mk (S f) acc n =
    match (match n with
           | Elem t cs =>
               match fold_left (lift_add f) cs (Some []) with
               | Some cs' => Some (Elem t cs')
               | None => None
               end
           | _ => Some n
           end) with
    | None => None
    | Some cn =>
        match cn with
        | Elem nt ncs =>
            match unsnoc acc with
            | Some (init, Elem lt lcs) =>
                if tcoll nt && is_match lt nt
                then match fold_left (lift_add f) ncs (Some (lcs ++ sep_nodes mk nt)) with
                     | Some lcs' => Some (init ++ [Elem lt lcs'])
                     | None => None
                     end
                else Some (acc ++ [cn])
            | _ => Some (acc ++ [cn])
            end
        | _ => Some (acc ++ [cn])
        end
    end.
  Proof. reflexivity. Qed.

  Lemma fold_lift f (g : list (node A) -> node A -> list (node A)) (cs : list (node A)) :
    (forall c, In c cs -> forall a, add_f mk f a c = Some (g a c)) ->
    forall a0, fold_left (lift_add f) cs (Some a0) = Some (fold_left g cs a0).
  Proof.
    induction cs as [|c cs IH]; intros H a0.
    - reflexivity.
    - simpl. rewrite H by (left; reflexivity). apply IH.
      intros c' Hin. apply H. right. exact Hin.
  Qed.

  Lemma add_f_spec : forall fuel n acc,
    (depth n < fuel)%nat -> add_f mk fuel acc n = Some (merge_into mk acc (collapse_node mk n)).
  Proof.
    induction fuel as [|f IH]; intros n acc Hd.
    - lia.
    - rewrite add_f_S. destruct n as [a|t cs|]; try reflexivity.
      destruct f as [|f']; [cbn [depth] in Hd; lia|].
      assert (Hcs : Forall (dle f') cs).
      { apply (depth_Elem_le t). lia. }
      rewrite (fold_lift (S f') cstep).
      2:{ intros c Hin a. apply IH. rewrite Forall_forall in Hcs. apply Hcs in Hin.
          unfold dle in Hin. lia. }
      rewrite <- collapse_unfold, collapse_node_Elem, merge_into_Elem.
      destruct (unsnoc acc) as [[init [a|lt lcs|]]|]; try reflexivity.
      destruct (tcoll t && is_match lt t) eqn:Hc; try reflexivity.
      rewrite (fold_lift (S f') (merge_into mk)); [reflexivity|].
      intros c Hin a. rewrite IH.
      + rewrite collapse_node_fixed; [reflexivity|].
        apply (nf_forest_In (collapse mk cs)); [apply collapse_nf|exact Hin].
      + apply collapse_dle in Hcs. rewrite Forall_forall in Hcs. apply Hcs in Hin.
        unfold dle in Hin. lia.
  Qed.

  (* the code as written (re-collapsing, on fuel) computes the structural specification *)
  Theorem collapse_f_spec (ns : list (node A)) (fuel : nat) :
    (fsize ns < fuel)%nat -> collapse_f mk fuel ns = Some (collapse mk ns).
  Proof.
    intros Hf. unfold collapse_f. change (fold_left (lift_add fuel) ns (Some []) = Some (collapse mk ns)).
    rewrite (fold_lift fuel cstep); [reflexivity|].
    intros c Hin a. apply add_f_spec.
    pose proof (depth_le_nsize c) as H1. pose proof (nsize_le_fsize ns c Hin) as H2. lia.
  Qed.
End S.

(* ---------- text content, when no element carries a separator ---------- *)

Definition idm (s : str) : str := s.

Definition nosep_tag (t : tag) : bool := match tsep t with Some (_ :: _) => false | _ => true end.

Lemma no_sep_node_Elem {A} t (cs : list (node A)) :
  no_sep_node (Elem t cs) = nosep_tag t && forallb no_sep_node cs.
Proof. reflexivity. Qed.

Lemma sep_nodes_nosep {A} (mk : str -> A) t : nosep_tag t = true -> sep_nodes mk t = [].
Proof.
  unfold nosep_tag, sep_nodes. destruct (tsep t) as [[|c s]|]; intros H; try reflexivity; discriminate.
Qed.

Lemma forest_text_app (a b : list (node str)) : forest_text (a ++ b) = forest_text a ++ forest_text b.
Proof. unfold forest_text. apply flat_map_app. Qed.

Lemma forest_text_single (n : node str) : forest_text [n] = node_text n.
Proof. unfold forest_text. simpl. apply app_nil_r. Qed.

Definition txt_pres (c : node str) : Prop :=
  forall acc, forallb no_sep_node acc = true -> no_sep_node c = true ->
    forallb no_sep_node (merge_into idm acc c) = true
    /\ forest_text (merge_into idm acc c) = forest_text acc ++ node_text c.

Lemma txt_default (acc : list (node str)) c :
  forallb no_sep_node acc = true -> no_sep_node c = true ->
  forallb no_sep_node (acc ++ [c]) = true
  /\ forest_text (acc ++ [c]) = forest_text acc ++ node_text c.
Proof.
  intros Hacc Hc. split.
  - rewrite forallb_app, Hacc. simpl. rewrite Hc. reflexivity.
  - rewrite forest_text_app, forest_text_single. reflexivity.
Qed.

Lemma merge_all_txt (ncs : list (node str)) :
  Forall txt_pres ncs ->
  forall a, forallb no_sep_node a = true -> forallb no_sep_node ncs = true ->
    forallb no_sep_node (merge_all idm ncs a) = true
    /\ forest_text (merge_all idm ncs a) = forest_text a ++ forest_text ncs.
Proof.
  intros HF. induction HF as [|c ncs Hc Hncs IH]; intros a Ha Hn.
  - split; [exact Ha|]. unfold forest_text at 3. simpl. rewrite app_nil_r. reflexivity.
  - rewrite merge_all_cons. simpl in Hn. apply andb_true_iff in Hn. destruct Hn as [Hn1 Hn2].
    destruct (Hc a Ha Hn1) as [H1 H2].
    destruct (IH _ H1 Hn2) as [H3 H4].
    split; [exact H3|]. rewrite H4, H2.
    change (c :: ncs) with ([c] ++ ncs). rewrite (forest_text_app [c] ncs), forest_text_single.
    rewrite app_assoc. reflexivity.
Qed.

Lemma merge_into_txt (cn : node str) : txt_pres cn.
Proof.
  induction cn as [a| |nt ncs IH] using node_ind'; intros acc Hacc Hcn.
  - rewrite merge_into_Text. apply txt_default; assumption.
  - rewrite merge_into_Force. apply txt_default; assumption.
  - rewrite merge_into_Elem.
    destruct (unsnoc acc) as [[init [a|lt lcs|]]|] eqn:Hu; try (apply txt_default; assumption).
    destruct (tcoll nt && is_match lt nt) eqn:Hc; try (apply txt_default; assumption).
    apply unsnoc_Some in Hu. subst acc.
    rewrite forallb_app in Hacc. apply andb_true_iff in Hacc. destruct Hacc as [Hinit Hlast].
    cbn [forallb] in Hlast. rewrite andb_true_r, no_sep_node_Elem in Hlast.
    apply andb_true_iff in Hlast. destruct Hlast as [Hlt Hlcs].
    rewrite no_sep_node_Elem in Hcn. apply andb_true_iff in Hcn. destruct Hcn as [Hnt Hncs].
    rewrite (sep_nodes_nosep idm nt Hnt), app_nil_r.
    destruct (merge_all_txt ncs IH lcs Hlcs Hncs) as [H1 H2].
    split.
    + rewrite forallb_app, Hinit. cbn [forallb]. rewrite no_sep_node_Elem, Hlt, H1. reflexivity.
    + rewrite !forest_text_app, !forest_text_single. cbn [node_text].
      fold (forest_text (merge_all idm ncs lcs)). fold (forest_text lcs). fold (forest_text ncs).
      rewrite H2, app_assoc. reflexivity.
Qed.

Definition txt_coll (c : node str) : Prop :=
  no_sep_node c = true ->
  no_sep_node (collapse_node idm c) = true /\ node_text (collapse_node idm c) = node_text c.

Lemma fold_cstep_txt (cs : list (node str)) :
  Forall txt_coll cs ->
  forall a, forallb no_sep_node a = true -> forallb no_sep_node cs = true ->
    forallb no_sep_node (fold_left (cstep idm) cs a) = true
    /\ forest_text (fold_left (cstep idm) cs a) = forest_text a ++ forest_text cs.
Proof.
  intros HF. induction HF as [|c cs Hc Hcs IH]; intros a Ha Hn.
  - split; [exact Ha|]. unfold forest_text at 3. simpl. rewrite app_nil_r. reflexivity.
  - change (fold_left (cstep idm) (c :: cs) a)
      with (fold_left (cstep idm) cs (merge_into idm a (collapse_node idm c))).
    simpl in Hn. apply andb_true_iff in Hn. destruct Hn as [Hn1 Hn2].
    destruct (Hc Hn1) as [Hc1 Hc2].
    destruct (merge_into_txt (collapse_node idm c) a Ha Hc1) as [H1 H2].
    destruct (IH _ H1 Hn2) as [H3 H4].
    split; [exact H3|]. rewrite H4, H2, Hc2.
    change (c :: cs) with ([c] ++ cs). rewrite (forest_text_app [c] cs), forest_text_single.
    rewrite app_assoc. reflexivity.
Qed.

Lemma collapse_node_txt (n : node str) : txt_coll n.
Proof.
  induction n as [a| |t cs IH] using node_ind'; intros Hn.
  - split; [exact Hn|reflexivity].
  - split; [exact Hn|reflexivity].
  - rewrite collapse_node_Elem. rewrite no_sep_node_Elem in Hn.
    apply andb_true_iff in Hn. destruct Hn as [Ht Hcs].
    rewrite collapse_unfold.
    destruct (fold_cstep_txt cs IH [] eq_refl Hcs) as [H1 H2].
    split.
    + rewrite no_sep_node_Elem, Ht, H1. reflexivity.
    + cbn [node_text]. fold (forest_text (fold_left (cstep idm) cs [])). rewrite H2. reflexivity.
Qed.

Theorem collapse_text_nosep (ns : list (node str)) :
  forallb no_sep_node ns = true -> forest_text (collapse (fun s => s) ns) = forest_text ns.
Proof.
  intros Hn. change (fun s : str => s) with idm. rewrite collapse_unfold.
  destruct (fold_cstep_txt ns) with (a := @nil (node str)) as [_ H2];
    [apply Forall_forall; intros n _; apply collapse_node_txt | reflexivity | exact Hn |].
  rewrite H2. reflexivity.
Qed.

(* ---------- leaves and their ancestor chains ---------- *)

Lemma Forall2_refl_gen {X} (Rx : X -> X -> Prop) :
  (forall x, Rx x x) -> forall l, Forall2 Rx l l.
Proof.
  intros Hr l. induction l as [|x l IH]; constructor; [apply Hr | exact IH].
Qed.

Lemma Forall2_trans_gen {X} (Rx : X -> X -> Prop) :
  (forall x y z, Rx x y -> Rx y z -> Rx x z) ->
  forall l1 l2 l3, Forall2 Rx l1 l2 -> Forall2 Rx l2 l3 -> Forall2 Rx l1 l3.
Proof.
  intros Ht l1 l2 l3 H12. revert l3.
  induction H12 as [|x y l1 l2 Hxy H12 IH]; intros l3 H23.
  - inversion H23. constructor.
  - inversion H23 as [|y' z l2' l3' Hyz H23']; subst. constructor.
    + eapply Ht; eassumption.
    + apply IH. exact H23'.
Qed.

Section Paths.
  Context {B : Type}.

  Definition tag_rel (o i : tag) : Prop := tattrs o = tattrs i /\ match_star o i.
  Definition chain_rel : list tag -> list tag -> Prop := Forall2 tag_rel.
  Definition leaf_rel (po pi : list tag * @leaf (B + str)) : Prop :=
    snd po = snd pi /\ chain_rel (fst po) (fst pi).

  Lemma tag_rel_refl t : tag_rel t t.
  Proof. split; [reflexivity | apply rt_refl]. Qed.

  Lemma tag_rel_trans x y z : tag_rel x y -> tag_rel y z -> tag_rel x z.
  Proof.
    intros [H1 H2] [H3 H4]. split.
    - rewrite H1. exact H3.
    - eapply rt_trans; eassumption.
  Qed.

  Lemma chain_rel_refl a : chain_rel a a.
  Proof. apply Forall2_refl_gen. apply tag_rel_refl. Qed.

  Lemma chain_rel_trans a b c : chain_rel a b -> chain_rel b c -> chain_rel a c.
  Proof. apply Forall2_trans_gen. apply tag_rel_trans. Qed.

  Lemma leaf_rel_refl p : leaf_rel p p.
  Proof. split; [reflexivity | apply chain_rel_refl]. Qed.

  Lemma leaf_rel_trans x y z : leaf_rel x y -> leaf_rel y z -> leaf_rel x z.
  Proof.
    intros [H1 H2] [H3 H4]. split.
    - rewrite H1. exact H3.
    - eapply chain_rel_trans; eassumption.
  Qed.

  (* equivalence of leaf lists up to separator leaves and related chains *)
  Definition leq (l1 l2 : list (list tag * @leaf (B + str))) : Prop :=
    Forall2 leaf_rel (filter is_orig l1) (filter is_orig l2).

  Lemma leq_refl l : leq l l.
  Proof. apply Forall2_refl_gen. apply leaf_rel_refl. Qed.

  Lemma leq_trans l1 l2 l3 : leq l1 l2 -> leq l2 l3 -> leq l1 l3.
  Proof. apply Forall2_trans_gen. apply leaf_rel_trans. Qed.

  Lemma leq_app l1 l2 m1 m2 : leq l1 m1 -> leq l2 m2 -> leq (l1 ++ l2) (m1 ++ m2).
  Proof.
    unfold leq. intros H1 H2. rewrite !filter_app. apply Forall2_app; assumption.
  Qed.

  Lemma leq_of_Forall2 l1 l2 : Forall2 leaf_rel l1 l2 -> leq l1 l2.
  Proof.
    unfold leq. intros H. induction H as [|x y l1 l2 Hxy H12 IH].
    - constructor.
    - assert (Ho : is_orig x = is_orig y).
      { unfold is_orig. destruct Hxy as [Hs _]. rewrite Hs. reflexivity. }
      simpl. rewrite Ho. destruct (is_orig y).
      + constructor; assumption.
      + exact IH.
  Qed.

  Definition lv (anc : list tag) (ns : list (node (B + str))) : list (list tag * @leaf (B + str)) :=
    flat_map (leaves_node anc) ns.

  Lemma leaves_node_Elem anc t (cs : list (node (B + str))) :
    leaves_node anc (Elem t cs) = lv (anc ++ [t]) cs.
  Proof. reflexivity. Qed.

  Lemma lv_app anc (a b : list (node (B + str))) : lv anc (a ++ b) = lv anc a ++ lv anc b.
  Proof. unfold lv. apply flat_map_app. Qed.

  Lemma lv_single anc (n : node (B + str)) : lv anc [n] = leaves_node anc n.
  Proof. unfold lv. simpl. apply app_nil_r. Qed.

  Lemma lv_cons anc (n : node (B + str)) ns : lv anc (n :: ns) = leaves_node anc n ++ lv anc ns.
  Proof. reflexivity. Qed.

  Definition rechain (c : node (B + str)) : Prop :=
    forall a' a, chain_rel a' a -> Forall2 leaf_rel (leaves_node a' c) (leaves_node a c).

  Lemma lv_rechain (cs : list (node (B + str))) :
    Forall rechain cs ->
    forall a' a, chain_rel a' a -> Forall2 leaf_rel (lv a' cs) (lv a cs).
  Proof.
    intros HF. induction HF as [|c cs Hc Hcs IH]; intros a' a Hr.
    - constructor.
    - rewrite !lv_cons. apply Forall2_app; [apply Hc; exact Hr | apply IH; exact Hr].
  Qed.

  Lemma leaves_node_rechain (n : node (B + str)) : rechain n.
  Proof.
    induction n as [x| |t cs IH] using node_ind'; intros a' a Hr.
    - simpl. constructor; [|constructor]. split; [reflexivity | exact Hr].
    - simpl. constructor; [|constructor]. split; [reflexivity | exact Hr].
    - rewrite !leaves_node_Elem. apply lv_rechain; [exact IH|].
      apply Forall2_app; [exact Hr|]. constructor; [apply tag_rel_refl | constructor].
  Qed.

  Lemma lv_sep anc t : filter is_orig (lv anc (sep_nodes (@inr B str) t)) = [].
  Proof.
    unfold sep_nodes. destruct (tsep t) as [[|c s]|]; reflexivity.
  Qed.

  Lemma leq_sep_r l anc t : leq (l ++ lv anc (sep_nodes (@inr B str) t)) l.
  Proof.
    unfold leq. rewrite filter_app, lv_sep, app_nil_r. apply leq_refl.
  Qed.

  Definition path_pres (cn : node (B + str)) : Prop :=
    forall acc a' a, chain_rel a' a ->
      leq (lv a' (merge_into inr acc cn)) (lv a' acc ++ leaves_node a cn).

  Lemma merge_all_paths (ncs : list (node (B + str))) :
    Forall path_pres ncs ->
    forall acc a' a, chain_rel a' a ->
      leq (lv a' (merge_all inr ncs acc)) (lv a' acc ++ lv a ncs).
  Proof.
    intros HF. induction HF as [|c ncs Hc Hncs IH]; intros acc a' a Hr.
    - simpl. rewrite app_nil_r. apply leq_refl.
    - rewrite merge_all_cons. eapply leq_trans; [apply IH; exact Hr|].
      rewrite lv_cons, app_assoc. apply leq_app; [|apply leq_refl].
      apply Hc. exact Hr.
  Qed.

  Lemma path_default (acc : list (node (B + str))) cn a' a :
    chain_rel a' a -> leq (lv a' (acc ++ [cn])) (lv a' acc ++ leaves_node a cn).
  Proof.
    intros Hr. rewrite lv_app, lv_single. apply leq_app; [apply leq_refl|].
    apply leq_of_Forall2. apply leaves_node_rechain. exact Hr.
  Qed.

  Lemma merge_into_paths (cn : node (B + str)) : path_pres cn.
  Proof.
    induction cn as [x| |nt ncs IH] using node_ind'; intros acc a' a Hr.
    - rewrite merge_into_Text. apply path_default. exact Hr.
    - rewrite merge_into_Force. apply path_default. exact Hr.
    - rewrite merge_into_Elem.
      destruct (unsnoc acc) as [[init [x|lt lcs|]]|] eqn:Hu; try (apply path_default; exact Hr).
      destruct (tcoll nt && is_match lt nt) eqn:Hc; try (apply path_default; exact Hr).
      apply unsnoc_Some in Hu. subst acc.
      apply andb_true_iff in Hc. destruct Hc as [_ Hm].
      assert (Hr' : chain_rel (a' ++ [lt]) (a ++ [nt])).
      { apply Forall2_app; [exact Hr|]. constructor; [|constructor]. split.
        - apply is_match_iff in Hm. destruct Hm as [_ Hm]. exact Hm.
        - apply rt_step. exact Hm. }
      rewrite !lv_app, !lv_single, !leaves_node_Elem. rewrite <- app_assoc.
      apply leq_app; [apply leq_refl|].
      eapply leq_trans; [apply (merge_all_paths ncs IH _ _ _ Hr')|].
      apply leq_app; [|apply leq_refl].
      rewrite lv_app. apply leq_sep_r.
  Qed.

  Definition path_coll (c : node (B + str)) : Prop :=
    forall a' a, chain_rel a' a -> leq (leaves_node a' (collapse_node inr c)) (leaves_node a c).

  Lemma fold_cstep_paths (cs : list (node (B + str))) :
    Forall path_coll cs ->
    forall acc a' a, chain_rel a' a ->
      leq (lv a' (fold_left (cstep inr) cs acc)) (lv a' acc ++ lv a cs).
  Proof.
    intros HF. induction HF as [|c cs Hc Hcs IH]; intros acc a' a Hr.
    - simpl. rewrite app_nil_r. apply leq_refl.
    - change (fold_left (cstep inr) (c :: cs) acc)
        with (fold_left (cstep inr) cs (merge_into inr acc (collapse_node inr c))).
      eapply leq_trans; [apply IH; exact Hr|].
      rewrite lv_cons, app_assoc. apply leq_app; [|apply leq_refl].
      eapply leq_trans; [apply merge_into_paths; apply chain_rel_refl|].
      apply leq_app; [apply leq_refl|]. apply Hc. exact Hr.
  Qed.

  Lemma collapse_node_paths (n : node (B + str)) : path_coll n.
  Proof.
    induction n as [x| |t cs IH] using node_ind'; intros a' a Hr.
    - apply leq_of_Forall2. apply (leaves_node_rechain (Text x)). exact Hr.
    - apply leq_of_Forall2. apply (leaves_node_rechain Force). exact Hr.
    - rewrite collapse_node_Elem, !leaves_node_Elem, collapse_unfold.
      assert (Hr' : chain_rel (a' ++ [t]) (a ++ [t])).
      { apply Forall2_app; [exact Hr|]. constructor; [apply tag_rel_refl | constructor]. }
      apply (fold_cstep_paths cs IH [] _ _ Hr').
  Qed.

  Lemma lv_all_inl (cs : list (node (B + str))) :
    Forall (fun c => all_inl c = true -> forall anc, filter is_orig (leaves_node anc c) = leaves_node anc c) cs ->
    forallb all_inl cs = true -> forall anc, filter is_orig (lv anc cs) = lv anc cs.
  Proof.
    intros HF. induction HF as [|c cs Hc Hcs IH]; intros Hall anc.
    - reflexivity.
    - simpl in Hall. apply andb_true_iff in Hall. destruct Hall as [H1 H2].
      rewrite lv_cons, filter_app, Hc, IH by assumption. reflexivity.
  Qed.

  Lemma leaves_node_all_inl (n : node (B + str)) :
    all_inl n = true -> forall anc, filter is_orig (leaves_node anc n) = leaves_node anc n.
  Proof.
    induction n as [x| |t cs IH] using node_ind'; intros Hall anc.
    - destruct x as [b|s]; [reflexivity | discriminate].
    - reflexivity.
    - rewrite leaves_node_Elem. apply lv_all_inl; [exact IH | exact Hall].
  Qed.
End Paths.

(* Leaves: none lost, duplicated or reordered; each keeps an ancestor chain of the same length,
   with equal attributes at every level and tags linked by legal match steps.  Separator text
   (inr) is the only thing added. *)
Theorem collapse_paths {B : Type} (ns : list (node (B + str))) :
  forallb all_inl ns = true ->
  Forall2 (fun po pi => snd po = snd pi /\
                        Forall2 (fun o i => tattrs o = tattrs i /\ match_star o i) (fst po) (fst pi))
          (filter is_orig (leaves (collapse inr ns))) (leaves ns).
Proof.
  intros Hall.
  assert (Hpaths : leq (lv [] (collapse inr ns)) (lv [] [] ++ lv [] ns)).
  { rewrite collapse_unfold. apply fold_cstep_paths; [|apply chain_rel_refl].
    apply Forall_forall. intros n _. apply collapse_node_paths. }
  unfold leq in Hpaths. simpl app in Hpaths.
  rewrite (lv_all_inl ns) in Hpaths; [exact Hpaths | | exact Hall].
  apply Forall_forall. intros n _. apply leaves_node_all_inl.
Qed.
