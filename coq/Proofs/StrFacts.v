(* Generic facts about the string/list helpers of Model/Str.v and the node type of Model/Html.v:
   boolean-equality reflection, unsnoc, an induction principle for the nested type [node]. *)
From Mammoth Require Import Html.
From Coq Require Import Lia.
Local Open Scope N_scope.

(* ---------- reflection of the boolean equalities ---------- *)

Lemma list_eqb_iff {A} (eqb : A -> A -> bool) :
  (forall x y, eqb x y = true <-> x = y) ->
  forall a b, list_eqb eqb a b = true <-> a = b.
Proof.
  intros Heq a. induction a as [|x a IHa]; intros [|y b]; simpl; split; intros H;
    try reflexivity; try discriminate.
  - apply andb_true_iff in H. destruct H as [Hxy Hab].
    apply Heq in Hxy. apply IHa in Hab. subst. reflexivity.
  - injection H as Hxy Hab. apply andb_true_iff. split.
    + apply Heq. exact Hxy.
    + apply IHa. exact Hab.
Qed.

Lemma str_eqb_iff (a b : str) : str_eqb a b = true <-> a = b.
Proof.
  revert b. induction a as [|x a IHa]; intros [|y b]; simpl; split; intros H;
    try reflexivity; try discriminate.
  - apply andb_true_iff in H. destruct H as [Hxy Hab].
    apply N.eqb_eq in Hxy. apply IHa in Hab. subst. reflexivity.
  - injection H as Hxy Hab. apply andb_true_iff. split.
    + apply N.eqb_eq. exact Hxy.
    + apply IHa. exact Hab.
Qed.

Lemma str_eqb_refl (a : str) : str_eqb a a = true.
Proof. apply str_eqb_iff. reflexivity. Qed.

Lemma pair_eqb_iff {A B} (ea : A -> A -> bool) (eb : B -> B -> bool) :
  (forall x y, ea x y = true <-> x = y) ->
  (forall x y, eb x y = true <-> x = y) ->
  forall p q, pair_eqb ea eb p q = true <-> p = q.
Proof.
  intros Ha Hb [p1 p2] [q1 q2]. unfold pair_eqb. simpl. rewrite andb_true_iff, Ha, Hb.
  split.
  - intros [H1 H2]. subst. reflexivity.
  - intros H. injection H as H1 H2. split; assumption.
Qed.

Lemma attrs_eqb_iff (a b : list (str * str)) : attrs_eqb a b = true <-> a = b.
Proof.
  unfold attrs_eqb. apply list_eqb_iff. apply pair_eqb_iff; apply str_eqb_iff.
Qed.

Lemma mem_str_iff (s : str) (l : list str) : mem_str s l = true <-> In s l.
Proof.
  unfold mem_str. rewrite existsb_exists. split.
  - intros [x [Hin Heq]]. apply str_eqb_iff in Heq. subst. exact Hin.
  - intros Hin. exists s. split; [exact Hin | apply str_eqb_refl].
Qed.

(* ---------- unsnoc ---------- *)

Lemma unsnoc_app_last {A} (l : list A) (x : A) : unsnoc (l ++ [x]) = Some (l, x).
Proof.
  induction l as [|y l IHl]; simpl.
  - reflexivity.
  - rewrite IHl. reflexivity.
Qed.

Lemma unsnoc_Some {A} (l i : list A) (x : A) : unsnoc l = Some (i, x) -> l = i ++ [x].
Proof.
  revert i x. induction l as [|y l IHl]; intros i x H; simpl in H.
  - discriminate.
  - destruct (unsnoc l) as [[i' y']|] eqn:Hu.
    + injection H as Hi Hx. subst. simpl. f_equal. apply IHl. reflexivity.
    + destruct l as [|z l].
      * injection H as Hi Hx. subst. reflexivity.
      * simpl in Hu. destruct (unsnoc l) as [[i2 y2]|]; discriminate.
Qed.

Lemma unsnoc_None {A} (l : list A) : unsnoc l = None -> l = [].
Proof.
  destruct l as [|y l]; simpl; intros H.
  - reflexivity.
  - destruct (unsnoc l) as [[i' y']|]; discriminate.
Qed.

(* ---------- generic list facts ---------- *)

Lemma flat_map_flat_map {A B C} (f : B -> list C) (g : A -> list B) (l : list A) :
  flat_map f (flat_map g l) = flat_map (fun x => flat_map f (g x)) l.
Proof.
  induction l as [|x l IHl]; simpl.
  - reflexivity.
  - rewrite flat_map_app, IHl. reflexivity.
Qed.

Lemma filter_flat_map {A B} (p : B -> bool) (g : A -> list B) (l : list A) :
  filter p (flat_map g l) = flat_map (fun x => filter p (g x)) l.
Proof.
  induction l as [|x l IHl]; simpl.
  - reflexivity.
  - rewrite filter_app, IHl. reflexivity.
Qed.

Lemma flat_map_ext_Forall {A B} (f g : A -> list B) (l : list A) :
  Forall (fun x => f x = g x) l -> flat_map f l = flat_map g l.
Proof.
  intros H. induction H as [|x l Hx Hl IH]; simpl.
  - reflexivity.
  - rewrite Hx, IH. reflexivity.
Qed.

Lemma forallb_flat_map {A B} (p : B -> bool) (g : A -> list B) (l : list A) :
  forallb p (flat_map g l) = forallb (fun x => forallb p (g x)) l.
Proof.
  induction l as [|x l IHl]; simpl.
  - reflexivity.
  - rewrite forallb_app, IHl. reflexivity.
Qed.

(* ---------- induction on nodes ---------- *)

Section NodeInd.
  Context {A : Type} (P : node A -> Prop).
  Hypothesis HText : forall a, P (Text a).
  Hypothesis HForce : P Force.
  Hypothesis HElem : forall t cs, Forall P cs -> P (Elem t cs).

  Fixpoint node_ind' (n : node A) : P n :=
    match n with
    | Text a => HText a
    | Force => HForce
    | Elem t cs =>
        HElem t cs ((fix go (l : list (node A)) : Forall P l :=
                       match l with
                       | [] => Forall_nil P
                       | c :: l' => Forall_cons c (node_ind' c) (go l')
                       end) cs)
    end.
End NodeInd.
