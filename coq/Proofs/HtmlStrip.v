(* Theorems about strip_empty (C14).  Statements fixed; proofs to be filled. *)
From Mammoth Require Import Html Writer HtmlTables StrFacts.
From Coq Require Import Lia.
Local Open Scope N_scope.

(* has content: non-empty text, a force-write marker, or a childless void element, at any depth *)
Fixpoint keep (n : node str) : bool :=
  match n with
  | Text [] => false
  | Text _ => true
  | Force => true
  | Elem t cs => existsb keep cs || is_void t cs
  end.

(* hereditarily non-empty: no empty text, no childless element unless void, at any depth *)
Fixpoint hne (n : node str) : bool :=
  match n with
  | Text [] => false
  | Text _ => true
  | Force => true
  | Elem t cs => match cs with [] => mem_str (tname t) void_tag_names | _ => true end && forallb hne cs
  end.

(* content items with their ancestor chains *)
Inductive citem := CText (s : str) | CForce | CEmpty (t : tag).
Fixpoint citems_node (anc : list tag) (n : node str) : list (list tag * citem) :=
  match n with
  | Text s => [(anc, CText s)]
  | Force => [(anc, CForce)]
  | Elem t [] => [(anc, CEmpty t)]
  | Elem t cs => flat_map (citems_node (anc ++ [t])) cs
  end.
Definition citems (ns : list (node str)) := flat_map (citems_node []) ns.
Definition has_content (p : list tag * citem) : bool :=
  match snd p with
  | CText [] => false
  | CText _ => true
  | CForce => true
  | CEmpty t => mem_str (tname t) void_tag_names
  end.

(* ---------- helper lemmas ---------- *)

Lemma strip_node_Elem t cs :
  strip_node (Elem t cs) =
  match flat_map strip_node cs with
  | [] => if is_void t cs then [Elem t []] else []
  | _ :: _ => [Elem t (flat_map strip_node cs)]
  end.
Proof. reflexivity. Qed.

Lemma is_void_true (t : tag) (cs : list (node str)) :
  is_void t cs = true -> cs = [] /\ mem_str (tname t) void_tag_names = true.
Proof.
  destruct cs as [|c cs]; simpl; intros H.
  - split; [reflexivity | exact H].
  - discriminate.
Qed.

Lemma flat_map_strip_nil (cs : list (node str)) :
  Forall (fun c => strip_node c = [] <-> keep c = false) cs ->
  (flat_map strip_node cs = [] <-> existsb keep cs = false).
Proof.
  intros HF. induction HF as [|c cs Hc Hcs IH]; simpl.
  - split; reflexivity.
  - rewrite orb_false_iff. split.
    + intros H. apply app_eq_nil in H. destruct H as [H1 H2].
      split; [apply Hc; exact H1 | apply IH; exact H2].
    + intros [H1 H2]. apply Hc in H1. apply IH in H2. rewrite H1, H2. reflexivity.
Qed.

Theorem strip_keep_iff (n : node str) : strip_node n = [] <-> keep n = false.
Proof.
  induction n as [a| |t cs IHcs] using node_ind'.
  - destruct a as [|c a]; simpl; split; intros H; try reflexivity; discriminate.
  - simpl. split; intros H; discriminate.
  - rewrite strip_node_Elem. simpl keep.
    pose proof (flat_map_strip_nil cs IHcs) as Hnil.
    destruct (flat_map strip_node cs) as [|c' cs'] eqn:Hfm.
    + assert (Hex : existsb keep cs = false) by (apply Hnil; reflexivity).
      rewrite Hex. simpl. destruct (is_void t cs); split; intros H; try reflexivity; discriminate.
    + destruct (existsb keep cs) eqn:Hex.
      * simpl. split; intros H; discriminate.
      * assert (Hc : c' :: cs' = []) by (apply Hnil; reflexivity). discriminate.
Qed.

Lemma flat_map_strip_nil' (cs : list (node str)) :
  flat_map strip_node cs = [] <-> existsb keep cs = false.
Proof.
  apply flat_map_strip_nil. apply Forall_forall. intros c _. apply strip_keep_iff.
Qed.

Theorem strip_spec (n : node str) :
  strip_node n = if keep n then [match n with Elem t cs => Elem t (strip_empty cs) | _ => n end] else [].
Proof.
  destruct n as [a|t cs|].
  - destruct a as [|c a]; reflexivity.
  - rewrite strip_node_Elem. simpl keep. unfold strip_empty.
    pose proof (flat_map_strip_nil' cs) as Hnil.
    destruct (flat_map strip_node cs) as [|c' cs'] eqn:Hfm.
    + assert (Hex : existsb keep cs = false) by (apply Hnil; reflexivity).
      rewrite Hex. simpl. destruct (is_void t cs); reflexivity.
    + destruct (existsb keep cs) eqn:Hex.
      * reflexivity.
      * assert (Hc : c' :: cs' = []) by (apply Hnil; reflexivity). discriminate.
  - reflexivity.
Qed.

Lemma strip_node_hne (n : node str) : forallb hne (strip_node n) = true.
Proof.
  induction n as [a| |t cs IHcs] using node_ind'.
  - destruct a as [|c a]; reflexivity.
  - reflexivity.
  - rewrite strip_node_Elem.
    assert (Hall : forallb hne (flat_map strip_node cs) = true).
    { rewrite forallb_flat_map. apply forallb_forall. intros c Hin.
      rewrite Forall_forall in IHcs. apply IHcs. exact Hin. }
    destruct (flat_map strip_node cs) as [|c' cs'] eqn:Hfm.
    + destruct (is_void t cs) eqn:Hv.
      * apply is_void_true in Hv. destruct Hv as [_ Hm]. cbn [forallb hne]. rewrite Hm. reflexivity.
      * reflexivity.
    + simpl. simpl in Hall. rewrite Hall. reflexivity.
Qed.

Theorem strip_all_kept (ns : list (node str)) : forallb hne (strip_empty ns) = true.
Proof.
  unfold strip_empty. rewrite forallb_flat_map. apply forallb_forall.
  intros n _. apply strip_node_hne.
Qed.

Lemma flat_map_singleton_id {X} (f : X -> list X) (l : list X) :
  Forall (fun x => f x = [x]) l -> flat_map f l = l.
Proof.
  intros HF. induction HF as [|x l Hx Hl IH]; simpl.
  - reflexivity.
  - rewrite Hx, IH. reflexivity.
Qed.

Lemma strip_node_fixed (n : node str) : hne n = true -> strip_node n = [n].
Proof.
  induction n as [a| |t cs IHcs] using node_ind'; intros Hh.
  - destruct a as [|c a]; [discriminate | reflexivity].
  - reflexivity.
  - rewrite strip_node_Elem. simpl in Hh. apply andb_true_iff in Hh. destruct Hh as [Hv Hall].
    assert (Hfm : flat_map strip_node cs = cs).
    { apply flat_map_singleton_id. rewrite Forall_forall in *. intros c Hin.
      apply IHcs; [exact Hin|]. rewrite forallb_forall in Hall. apply Hall. exact Hin. }
    rewrite Hfm. destruct cs as [|c cs].
    + simpl. rewrite Hv. reflexivity.
    + reflexivity.
Qed.

Theorem strip_fixed (ns : list (node str)) : forallb hne ns = true -> strip_empty ns = ns.
Proof.
  intros Hall. unfold strip_empty. apply flat_map_singleton_id. apply Forall_forall.
  intros n Hin. apply strip_node_fixed. rewrite forallb_forall in Hall. apply Hall. exact Hin.
Qed.

Theorem strip_idem (ns : list (node str)) : strip_empty (strip_empty ns) = strip_empty ns.
Proof. apply strip_fixed. apply strip_all_kept. Qed.

Lemma strip_node_text (n : node str) : forest_text (strip_node n) = node_text n.
Proof.
  induction n as [a| |t cs IHcs] using node_ind'.
  - destruct a as [|c a]; [reflexivity|]. unfold forest_text. simpl. rewrite app_nil_r. reflexivity.
  - reflexivity.
  - rewrite strip_node_Elem. simpl node_text.
    assert (Hfm : forest_text (flat_map strip_node cs) = flat_map node_text cs).
    { unfold forest_text. rewrite flat_map_flat_map. apply flat_map_ext_Forall. exact IHcs. }
    destruct (flat_map strip_node cs) as [|c' cs'] eqn:Hfm'.
    + rewrite <- Hfm. destruct (is_void t cs); reflexivity.
    + rewrite <- Hfm. unfold forest_text. simpl. rewrite app_nil_r. reflexivity.
Qed.

Theorem strip_text (ns : list (node str)) : forest_text (strip_empty ns) = forest_text ns.
Proof.
  unfold forest_text at 1, strip_empty. rewrite flat_map_flat_map.
  apply flat_map_ext_Forall. apply Forall_forall. intros n _. apply strip_node_text.
Qed.

Lemma strip_node_citems (n : node str) : forall anc,
  flat_map (citems_node anc) (strip_node n) = filter has_content (citems_node anc n).
Proof.
  induction n as [a| |t cs IHcs] using node_ind'; intros anc.
  - destruct a as [|c a]; reflexivity.
  - reflexivity.
  - rewrite strip_node_Elem.
    assert (Hfm : flat_map (citems_node (anc ++ [t])) (flat_map strip_node cs)
                  = filter has_content (flat_map (citems_node (anc ++ [t])) cs)).
    { rewrite flat_map_flat_map, filter_flat_map. apply flat_map_ext_Forall.
      rewrite Forall_forall in *. intros c Hin. apply IHcs. exact Hin. }
    destruct cs as [|c0 cs0].
    + cbn [flat_map strip_node is_void citems_node filter has_content snd].
      destruct (mem_str (tname t) void_tag_names); reflexivity.
    + change (citems_node anc (Elem t (c0 :: cs0)))
        with (flat_map (citems_node (anc ++ [t])) (c0 :: cs0)).
      rewrite <- Hfm.
      destruct (flat_map strip_node (c0 :: cs0)) as [|c' cs'].
      * reflexivity.
      * simpl flat_map at 1. rewrite app_nil_r. reflexivity.
Qed.

(* nothing with content is removed, nothing is added, order and ancestor chains are kept *)
Theorem strip_content_preserved (ns : list (node str)) :
  citems (strip_empty ns) = filter has_content (citems ns).
Proof.
  unfold citems, strip_empty. rewrite flat_map_flat_map, filter_flat_map.
  apply flat_map_ext_Forall. apply Forall_forall. intros n _. apply strip_node_citems.
Qed.
