(* C09: the row-span sweep reproduces the document's grid under HTML layout.  Statement fixed; proof to be filled. *)
From Mammoth Require Import Tables TablesSpec TablesSweep TablesLayout.
From Coq Require Import Lia.
Local Open Scope N_scope.

(* For every well-formed tiling encoding (any number of rows, any width): laying out the cells the
   sweep keeps, with the colspans and rowspans it assigns, by the HTML table algorithm (a cell goes
   to the first column not covered by a row-span from above) covers every grid position with exactly
   the cell that owns it in the document — no overlap (layout would return None), no gap (None entries). *)
Theorem rowspans_layout (W : N) (rows : list (list icell)) :
  wf_tiling W rows = true ->
  html_layout (N.to_nat W) (row_spans rows) = Some (doc_grid rows []).
Proof.
  intros Hwf. rewrite (row_spans_spec W rows Hwf).
  unfold wf_tiling in Hwf. apply andb_true_iff in Hwf. destruct Hwf as [Hrows _].
  exact (layout_spec_rows W rows Hrows).
Qed.

Lemma spec_row_ids after cells : forall col,
  map oc_id (spec_row cells col after) = map ic_id (filter (fun c => negb (ic_cont c)) cells).
Proof.
  induction cells as [|y cs IH]; simpl; intros col; auto.
  destruct (ic_cont y); simpl; [apply IH | f_equal; apply IH].
Qed.

Lemma spec_row_cells after cells : forall col,
  Forall (fun oc => exists ic, In ic cells /\ ic_id ic = oc_id oc /\ ic_span ic = oc_colspan oc)
         (spec_row cells col after).
Proof.
  induction cells as [|y cs IH]; simpl; intros col; [constructor|].
  assert (Forall (fun oc => exists ic, (y = ic \/ In ic cs) /\ ic_id ic = oc_id oc /\ ic_span ic = oc_colspan oc)
                 (spec_row cs (col + ic_span y) after)) as Htail.
  { eapply Forall_impl; [|apply (IH (col + ic_span y))].
    intros oc [ic [Hin Heq]]. exists ic. auto. }
  destruct (ic_cont y); auto.
  constructor; auto. exists y. simpl. auto.
Qed.

(* one output row per input row; the kept cells are exactly the non-continuation cells, in order *)
Theorem rowspans_rows (W : N) (rows : list (list icell)) :
  wf_tiling W rows = true ->
  map (map oc_id) (row_spans rows) = map (fun r => map ic_id (filter (fun c => negb (ic_cont c)) r)) rows
  /\ Forall2 (fun orow irow => Forall (fun oc => exists ic, In ic irow /\ ic_id ic = oc_id oc /\ ic_span ic = oc_colspan oc) orow)
             (row_spans rows) rows.
Proof.
  intros Hwf. rewrite (row_spans_spec W rows Hwf). clear Hwf. split.
  - induction rows as [|r rows' IH]; simpl; auto. now rewrite spec_row_ids, IH.
  - induction rows as [|r rows' IH]; simpl; constructor; auto. apply spec_row_cells.
Qed.
