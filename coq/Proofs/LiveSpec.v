(* GENERATED from LiveSpec.v.in by tools/strlit.py — edit the .in file *)
(* C01, reader half — SPECIFICATION of "the document's live text in reading order" on the XML of a part,
   written from the property text (and mirroring harness/livetext.py), independently of the reader's
   handler table, result triples, complex-field stack, styles, numbering and row-span sweep.

   The reading-order content is a flat list of items: characters, note references, comment references.
   - text of w:t, tabs, the two hyphens, mapped symbols;
   - left out: w:del, w:instrText, everything but mc:Fallback of alternate content, check boxes, images,
     breaks, bookmarks, ignored and unknown elements;
   - a paragraph whose mark is deleted merges into the next paragraph;
   - w:pict content (text boxes) goes after the host paragraph;
   - a vertical-merge continuation cell is part of the cell above and contributes nothing.
   [116;101;120;116] literals are expanded by tools/strlit.py. *)
From Mammoth Require Import Reader ReaderTables Docx.
Local Open Scope N_scope.

Inductive item :=
| IChar (c : N)
| INote (ntype nid : str)
| IComment (cid : str).

Definition item_eqb (a b : item) : bool :=
  match a, b with
  | IChar x, IChar y => N.eqb x y
  | INote t i, INote t' i' => str_eqb t t' && str_eqb i i'
  | IComment i, IComment i' => str_eqb i i'
  | _, _ => false
  end.

(* the same content read off a document element tree *)
Fixpoint ditems (e : delem) : list item :=
  match e with
  | DText s => map IChar s
  | DTab => [IChar 9]
  | DNoteRef t i => [INote t i]
  | DCommentRef i => [IComment i]
  | DParagraph cs _ _ _ => flat_map ditems cs
  | DRun cs _ _ _ _ _ _ _ _ _ _ => flat_map ditems cs
  | DHyperlink cs _ _ => flat_map ditems cs
  | DTable cs _ _ => flat_map ditems cs
  | DTableRow cs _ => flat_map ditems cs
  | DTableCell cs _ _ => flat_map ditems cs
  | _ => []
  end.
Definition items (es : list delem) : list item := flat_map ditems es.

(* ---------- the specification on XML ---------- *)
Definition containers : list str :=
  [[119;58;114]; [119;58;105;110;115]; [119;58;111;98;106;101;99;116]; [119;58;115;109;97;114;116;84;97;103]; [119;58;100;114;97;119;105;110;103]; [118;58;103;114;111;117;112]; [118;58;114;101;99;116]; [118;58;114;111;117;110;100;114;101;99;116]; [118;58;115;104;97;112;101]; [118;58;116;101;120;116;98;111;120];
   [119;58;116;120;98;120;67;111;110;116;101;110;116]; [119;58;104;121;112;101;114;108;105;110;107]; [119;58;116;98;108]; [119;58;116;114]].

Definition para_deleted (x : xml) : bool :=
  match find_child [119;58;100;101;108] (find_child_or_null [119;58;114;80;114] (find_child_or_null [119;58;112;80;114] x)) with Some _ => true | None => false end.

Definition cell_continues (x : xml) : bool :=
  match find_child [119;58;118;77;101;114;103;101] (find_child_or_null [119;58;116;99;80;114] x) with
  | None => false
  | Some v => match attr [119;58;118;97;108] v with
              | None | Some [] => true
              | Some s => str_eqb s [99;111;110;116;105;110;117;101]
              end
  end.

Definition is_checkbox_sdt (x : xml) : bool :=
  match find_child [119;111;114;100;109;108;58;99;104;101;99;107;98;111;120] (find_child_or_null [119;58;115;100;116;80;114] x) with Some _ => true | None => false end.

(* the character a w:sym stands for, when the symbol font table has one (w:char is hexadecimal) *)
Definition sym_char (x : xml) : option N :=
  let font := attr [119;58;102;111;110;116] x in
  match attr [119;58;99;104;97;114] x with
  | None => None
  | Some ch =>
      match hex_aux ch 0 with
      | None => None
      | Some code =>
          match dingbat font code dingbats, ch with
          | Some u, _ => Some u
          | None, 70 :: 48 :: a :: b :: rest =>
              if N.eqb a 10 || N.eqb b 10 then None
              else match hex_aux (a :: b :: rest) 0 with Some c2 => dingbat font c2 dingbats | None => None end
          | None, _ => None
          end
      end
  end.

(* lives fuel pend l = (items in place, items set aside for after the host paragraph);
   pend: contents of preceding paragraphs whose mark is deleted *)
Fixpoint lives (fuel : nat) (pend : list xml) (l : list xml) {struct fuel} : list item * list item :=
  match fuel with
  | O => ([], [])
  | S f =>
      let sub := lives f [] in
      let one := fun (x : xml) =>
        match x with
        | XText _ => ([], [])
        | XElem n _ cs =>
            if str_eqb n [119;58;116] then (map IChar (inner_text x), [])
            else if str_eqb n [119;58;116;97;98] then ([IChar 9], [])
            else if str_eqb n [119;58;110;111;66;114;101;97;107;72;121;112;104;101;110] then ([IChar 8209], [])
            else if str_eqb n [119;58;115;111;102;116;72;121;112;104;101;110] then ([IChar 173], [])
            else if str_eqb n [119;58;115;121;109] then (match sym_char x with Some u => [IChar u] | None => [] end, [])
            else if str_eqb n [119;58;102;111;111;116;110;111;116;101;82;101;102;101;114;101;110;99;101] then (match attr [119;58;105;100] x with Some i => [INote [102;111;111;116;110;111;116;101] i] | None => [] end, [])
            else if str_eqb n [119;58;101;110;100;110;111;116;101;82;101;102;101;114;101;110;99;101] then (match attr [119;58;105;100] x with Some i => [INote [101;110;100;110;111;116;101] i] | None => [] end, [])
            else if str_eqb n [119;58;99;111;109;109;101;110;116;82;101;102;101;114;101;110;99;101] then (match attr [119;58;105;100] x with Some i => [IComment i] | None => [] end, [])
            else if str_eqb n [119;58;112;105;99;116] then (let '(i, e) := sub cs in ([], e ++ i))
            else if str_eqb n [109;99;58;65;108;116;101;114;110;97;116;101;67;111;110;116;101;110;116] then sub (xchildren (find_child_or_null [109;99;58;70;97;108;108;98;97;99;107] x))
            else if str_eqb n [119;58;115;100;116] then (if is_checkbox_sdt x then ([], []) else sub (xchildren (find_child_or_null [119;58;115;100;116;67;111;110;116;101;110;116] x)))
            else if str_eqb n [119;58;116;99] then (if cell_continues x then ([], []) else sub cs)
            else if mem_str n containers then sub cs
            else ([], [])
        end in
      (fix seq (pend : list xml) (l : list xml) {struct l} : list item * list item :=
         match l with
         | [] => ([], [])
         | XText _ :: l' => seq pend l'
         | XElem n a cs :: l' =>
             let x := XElem n a cs in
             if str_eqb n [119;58;112] then
               if para_deleted x then seq (pend ++ cs) l'
               else let '(i1, e1) := sub (pend ++ cs) in
                    let '(i2, e2) := seq [] l' in
                    (i1 ++ e1 ++ i2, e2)
             else let '(i1, e1) := one x in
                  let '(i2, e2) := seq pend l' in
                  (i1 ++ i2, e1 ++ e2)
         end) pend l
  end.

Definition live_body (l : list xml) : list item * list item := lives (S (xsizes l)) [] l.

(* ---------- the domain (the property's: "a deleted paragraph mark is followed by a paragraph in the same
   container"; continuation cells hold nothing but their properties and empty paragraphs) ---------- *)
Definition is_para (x : xml) : bool := match x with XElem n _ _ => str_eqb n [119;58;112] | XText _ => false end.

(* pending = a deleted paragraph mark is waiting for its paragraph *)
Fixpoint wf_seq (pending : bool) (l : list xml) : bool :=
  match l with
  | [] => negb pending
  | XText _ :: l' => wf_seq pending l'
  | x :: l' => if is_para x then wf_seq (para_deleted x) l' else negb pending && wf_seq false l'
  end.

Definition inert_cell_child (c : xml) : bool :=
  match c with
  | XText _ => true
  | XElem n _ cs =>
      str_eqb n [119;58;116;99;80;114]
      || (str_eqb n [119;58;112] && negb (para_deleted c)
          && forallb (fun g => match g with XText _ => true | XElem m _ _ => str_eqb m [119;58;112;80;114] end) cs)
  end.

Fixpoint wf (x : xml) : bool :=
  match x with
  | XText _ => true
  | XElem n _ cs =>
      wf_seq false cs && forallb wf cs
      && (if str_eqb n [119;58;116;99] && cell_continues x then forallb inert_cell_child cs else true)
  end.

Definition wf_body (l : list xml) : bool := wf_seq false l && forallb wf l.

(* ---------- what the specification assumes of the reader's dispatch table: checked by computation
   over the table regenerated from body_xml.py on every run ---------- *)
Definition expected_handlers : list (str * N) :=
  [([119;58;116], 1); ([119;58;114], 2); ([119;58;112], 3); ([119;58;102;108;100;67;104;97;114], 4); ([119;58;105;110;115;116;114;84;101;120;116], 5); ([119;58;116;97;98], 6); ([119;58;110;111;66;114;101;97;107;72;121;112;104;101;110], 7);
   ([119;58;115;111;102;116;72;121;112;104;101;110], 8); ([119;58;115;121;109], 9); ([119;58;116;98;108], 10); ([119;58;116;114], 11); ([119;58;116;99], 12);
   ([119;58;105;110;115], 13); ([119;58;111;98;106;101;99;116], 13); ([119;58;115;109;97;114;116;84;97;103], 13); ([119;58;100;114;97;119;105;110;103], 13); ([118;58;103;114;111;117;112], 13); ([118;58;114;101;99;116], 13);
   ([118;58;114;111;117;110;100;114;101;99;116], 13); ([118;58;115;104;97;112;101], 13); ([118;58;116;101;120;116;98;111;120], 13); ([119;58;116;120;98;120;67;111;110;116;101;110;116], 13);
   ([119;58;112;105;99;116], 14); ([119;58;104;121;112;101;114;108;105;110;107], 15); ([119;58;98;111;111;107;109;97;114;107;83;116;97;114;116], 16); ([119;58;98;114], 17); ([119;112;58;105;110;108;105;110;101], 18); ([119;112;58;97;110;99;104;111;114], 18);
   ([118;58;105;109;97;103;101;100;97;116;97], 19); ([119;58;102;111;111;116;110;111;116;101;82;101;102;101;114;101;110;99;101], 20); ([119;58;101;110;100;110;111;116;101;82;101;102;101;114;101;110;99;101], 20); ([119;58;99;111;109;109;101;110;116;82;101;102;101;114;101;110;99;101], 21);
   ([109;99;58;65;108;116;101;114;110;97;116;101;67;111;110;116;101;110;116], 22); ([119;58;115;100;116], 23)].

Definition handlers_as_expected : bool :=
  forallb (fun e => match handler_of (fst e) with Some (c, _) => N.eqb c (snd e) | None => false end) expected_handlers
  && forallb (fun h => match dict_get (fst h) expected_handlers with Some c => N.eqb c (fst (snd h)) | None => false end) reader_handlers
  && match handler_of [119;58;102;111;111;116;110;111;116;101;82;101;102;101;114;101;110;99;101], handler_of [119;58;101;110;100;110;111;116;101;82;101;102;101;114;101;110;99;101] with
     | Some (_, a), Some (_, b) => str_eqb a [102;111;111;116;110;111;116;101] && str_eqb b [101;110;100;110;111;116;101]
     | _, _ => false
     end.

(* ---------- executable comparison, used by the harness to test the statement on generated packages ---------- *)
Definition items_eqb : list item -> list item -> bool := list_eqb item_eqb.

Definition main_body (p : package) : option (list xml) :=
  match find_part_paths p with
  | Ok pp => match pkg_get (pp_main pp) p with
             | Some (PXml root) => match office_read root with
                                   | Ok r => match find_child [119;58;98;111;100;121] r with Some b => Some (xchildren b) | None => None end
                                   | _ => None
                                   end
             | _ => None
             end
  | _ => None
  end.

(* true unless the package is in the domain, is read successfully, and the reader's elements differ from the live items *)
Definition live_agrees (s : source) : bool :=
  match main_body (src_pkg s), read_docx s with
  | Some l, Ok (d, _) => if wf_body l then items_eqb (items (d_children d)) (fst (live_body l)) else true
  | _, _ => true
  end.
Definition in_live_domain (s : source) : bool :=
  match main_body (src_pkg s) with Some l => wf_body l | None => false end.
