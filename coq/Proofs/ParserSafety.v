(* Safety of the recursive-descent parser on well-formed token lists: no IndexError past the END
   token (Crash 3), no loop running out of fuel (Crash 5).  Used by ParserFacts. *)
From Mammoth Require Import Options Unicode RegexSpec ParserSpec.
From Coq Require Import Lia.
Local Open Scope N_scope.

(* ---------- well-formed token lists ---------- *)

Lemma wf_toks_nonempty (ts : toks) : wf_toks ts -> ts <> [].
Proof.
  intros [pre [Heq _]] Hnil. subst ts. destruct pre; discriminate Hnil.
Qed.

Lemma wf_toks_tail (t : token) (ts : toks) :
  wf_toks (t :: ts) -> ttype t <> T_END -> wf_toks ts.
Proof.
  intros [pre [Heq Hall]] Hty. destruct pre as [|p pre].
  - simpl in Heq. injection Heq as Ht Hts. subst t. exfalso. apply Hty. reflexivity.
  - simpl in Heq. injection Heq as Ht Hts. subst p ts.
    exists pre. split; [reflexivity|]. inversion Hall; assumption.
Qed.

Lemma tok_is_type (ty : N) (v : option str) (t : token) : tok_is ty v t = true -> ttype t = ty.
Proof.
  unfold tok_is. intros H. apply andb_true_iff in H. destruct H as [H _].
  apply N.eqb_eq in H. exact H.
Qed.

(* ---------- the safety predicates ---------- *)

(* on well-formed input of length at most n: never Crash; on Ok the remainder is well-formed and
   not longer *)
Definition safeN {A} (n : nat) (p : P A) : Prop :=
  forall ts, wf_toks ts -> (length ts <= n)%nat ->
    match p ts with
    | Ok (_, ts') => wf_toks ts' /\ (length ts' <= length ts)%nat
    | LineError => True
    | Crash _ => False
    end.

Definition safe {A} (p : P A) : Prop :=
  forall ts, wf_toks ts ->
    match p ts with
    | Ok (_, ts') => wf_toks ts' /\ (length ts' <= length ts)%nat
    | LineError => True
    | Crash _ => False
    end.

Definition consuming {A} (p : P A) : Prop :=
  forall ts, wf_toks ts ->
    match p ts with
    | Ok (_, ts') => wf_toks ts' /\ (length ts' < length ts)%nat
    | LineError => True
    | Crash _ => False
    end.

(* weakest: just no Crash (for the tail of parse_style_mapping, which consumes END) *)
Definition nocrash {A} (p : P A) : Prop :=
  forall ts, wf_toks ts -> forall w, p ts <> Crash w.

Lemma consuming_safe {A} (p : P A) : consuming p -> safe p.
Proof.
  intros Hp ts Hwf. specialize (Hp ts Hwf). destruct (p ts) as [[a ts']| |w]; try exact Hp.
  destruct Hp as [H1 H2]. split; [exact H1 | lia].
Qed.

Lemma safe_safeN {A} (n : nat) (p : P A) : safe p -> safeN n p.
Proof. intros Hp ts Hwf _. exact (Hp ts Hwf). Qed.

Lemma safe_nocrash {A} (p : P A) : safe p -> nocrash p.
Proof.
  intros Hp ts Hwf w Heq. specialize (Hp ts Hwf). rewrite Heq in Hp. exact Hp.
Qed.

Lemma safe_ret {A} (a : A) : safe (ret a).
Proof. intros ts Hwf. unfold ret. split; [exact Hwf | simpl; lia]. Qed.

Lemma safe_fail {A} : safe (@failP A).
Proof. intros ts Hwf. exact I. Qed.

Lemma safe_bind {A B} (p : P A) (f : A -> P B) :
  safe p -> (forall a, safe (f a)) -> safe (bindP p f).
Proof.
  intros Hp Hf ts Hwf. unfold bindP. specialize (Hp ts Hwf).
  destruct (p ts) as [[a ts']| |w]; try exact Hp.
  destruct Hp as [Hwf' Hlen]. specialize (Hf a ts' Hwf').
  destruct (f a ts') as [[b ts'']| |w]; try exact Hf.
  destruct Hf as [Hwf'' Hlen']. split; [exact Hwf'' | lia].
Qed.

Lemma consuming_bind {A B} (p : P A) (f : A -> P B) :
  consuming p -> (forall a, safe (f a)) -> consuming (bindP p f).
Proof.
  intros Hp Hf ts Hwf. unfold bindP. specialize (Hp ts Hwf).
  destruct (p ts) as [[a ts']| |w]; try exact Hp.
  destruct Hp as [Hwf' Hlen]. specialize (Hf a ts' Hwf').
  destruct (f a ts') as [[b ts'']| |w]; try exact Hf.
  destruct Hf as [Hwf'' Hlen']. split; [exact Hwf'' | lia].
Qed.

Lemma safeN_bind {A B} (n : nat) (p : P A) (f : A -> P B) :
  safe p -> (forall a, safeN n (f a)) -> safeN n (bindP p f).
Proof.
  intros Hp Hf ts Hwf Hn. unfold bindP. specialize (Hp ts Hwf).
  destruct (p ts) as [[a ts']| |w]; try exact Hp.
  destruct Hp as [Hwf' Hlen]. assert (Hn' : (length ts' <= n)%nat) by lia.
  specialize (Hf a ts' Hwf' Hn').
  destruct (f a ts') as [[b ts'']| |w]; try exact Hf.
  destruct Hf as [Hwf'' Hlen']. split; [exact Hwf'' | lia].
Qed.

Lemma safeN_bind_consuming {A B} (n : nat) (p : P A) (f : A -> P B) :
  consuming p -> (forall a, safeN n (f a)) -> safeN (S n) (bindP p f).
Proof.
  intros Hp Hf ts Hwf Hn. unfold bindP. specialize (Hp ts Hwf).
  destruct (p ts) as [[a ts']| |w]; try exact Hp.
  destruct Hp as [Hwf' Hlen]. assert (Hn' : (length ts' <= n)%nat) by lia.
  specialize (Hf a ts' Hwf' Hn').
  destruct (f a ts') as [[b ts'']| |w]; try exact Hf.
  destruct Hf as [Hwf'' Hlen']. split; [exact Hwf'' | lia].
Qed.

Lemma nocrash_bind {A B} (p : P A) (f : A -> P B) :
  safe p -> (forall a, nocrash (f a)) -> nocrash (bindP p f).
Proof.
  intros Hp Hf ts Hwf w. unfold bindP. specialize (Hp ts Hwf).
  destruct (p ts) as [[a ts']| |w'].
  - destruct Hp as [Hwf' _]. apply Hf. exact Hwf'.
  - discriminate.
  - destruct Hp.
Qed.

(* a parser that sizes its fuel from the current token list *)
Lemma safe_sized {A} (f : nat -> P A) :
  (forall n, safeN n (f n)) -> safe (fun ts => f (length ts) ts).
Proof.
  intros Hf ts Hwf. apply (Hf (length ts) ts Hwf). lia.
Qed.

(* ---------- the primitives ---------- *)

Lemma safe_is_next (ty : N) (v : option str) : safe (is_next ty v).
Proof.
  intros ts Hwf. destruct ts as [|t ts'].
  - exfalso. exact (wf_toks_nonempty _ Hwf eq_refl).
  - simpl. split; [exact Hwf | simpl; lia].
Qed.

Lemma safe_peek_type : safe peek_type.
Proof.
  intros ts Hwf. destruct ts as [|t ts'].
  - exfalso. exact (wf_toks_nonempty _ Hwf eq_refl).
  - simpl. split; [exact Hwf | simpl; lia].
Qed.

Lemma safe_try_skip (ty : N) (v : option str) : ty <> T_END -> safe (try_skip ty v).
Proof.
  intros Hty ts Hwf. destruct ts as [|t ts'].
  - exfalso. exact (wf_toks_nonempty _ Hwf eq_refl).
  - simpl. destruct (tok_is ty v t) eqn:Htok.
    + apply tok_is_type in Htok. split; [|simpl; lia].
      apply (wf_toks_tail t). exact Hwf. rewrite Htok. exact Hty.
    + split; [exact Hwf | simpl; lia].
Qed.

Lemma consuming_skip (ty : N) (v : option str) : ty <> T_END -> consuming (skip ty v).
Proof.
  intros Hty ts Hwf. destruct ts as [|t ts'].
  - exfalso. exact (wf_toks_nonempty _ Hwf eq_refl).
  - simpl. destruct (tok_is ty v t) eqn:Htok; [|exact I].
    apply tok_is_type in Htok. split; [|simpl; lia].
    apply (wf_toks_tail t). exact Hwf. rewrite Htok. exact Hty.
Qed.

Lemma consuming_next_value (ty : N) : ty <> T_END -> consuming (next_value (Some ty)).
Proof.
  intros Hty ts Hwf. destruct ts as [|t ts'].
  - exfalso. exact (wf_toks_nonempty _ Hwf eq_refl).
  - simpl. destruct (N.eqb (ttype t) ty) eqn:Htok; [|exact I].
    apply N.eqb_eq in Htok. split; [|simpl; lia].
    apply (wf_toks_tail t). exact Hwf. rewrite Htok. exact Hty.
Qed.

(* tokens.next_value() inside a raise: the value is read (possibly END's), then LineParseError *)
Lemma safe_next_value_fail {A} : safe (bindP (next_value None) (fun _ => @failP A)).
Proof.
  intros ts Hwf. destruct ts as [|t ts'].
  - exfalso. exact (wf_toks_nonempty _ Hwf eq_refl).
  - exact I.
Qed.

Lemma try_skip_many_aux_safe (pats : list (N * option str)) :
  Forall (fun p => fst p <> T_END) pats ->
  forall ts, wf_toks ts ->
    match try_skip_many_aux pats ts with
    | Ok (Some ts') => wf_toks ts' /\ (length ts' <= length ts)%nat
    | Ok None => True
    | LineError => True
    | Crash _ => False
    end.
Proof.
  induction pats as [|[ty v] pats IH]; intros Hall ts Hwf.
  - simpl. split; [exact Hwf | simpl; lia].
  - inversion Hall as [|p l Hty Hall' Heq]. subst p l. simpl in Hty.
    destruct ts as [|t ts'].
    + exfalso. exact (wf_toks_nonempty _ Hwf eq_refl).
    + simpl. destruct (tok_is ty v t) eqn:Htok; [|exact I].
      apply tok_is_type in Htok.
      assert (Hwf' : wf_toks ts').
      { apply (wf_toks_tail t). exact Hwf. rewrite Htok. exact Hty. }
      specialize (IH Hall' ts' Hwf').
      destruct (try_skip_many_aux pats ts') as [[ts''|]| |w]; try exact IH.
      destruct IH as [H1 H2]. split; [exact H1 | simpl; lia].
Qed.

Lemma safe_try_skip_many (pats : list (N * option str)) :
  Forall (fun p => fst p <> T_END) pats -> safe (try_skip_many pats).
Proof.
  intros Hall ts Hwf. unfold try_skip_many.
  pose proof (try_skip_many_aux_safe pats Hall ts Hwf) as H.
  destruct (try_skip_many_aux pats ts) as [[ts''|]| |w]; try exact H.
  split; [exact Hwf | simpl; lia].
Qed.

(* ---------- automation ---------- *)

Ltac tok_neq := let HH := fresh "HH" in intro HH; vm_compute in HH; discriminate HH.

Ltac safe_step :=
  match goal with
  | |- safe (ret _) => apply safe_ret
  | |- safe failP => apply safe_fail
  | |- safe (bindP (next_value None) (fun _ => failP)) => apply safe_next_value_fail
  | |- safe (bindP _ _) => apply safe_bind; [|intro]
  | |- safe (if ?c then _ else _) => destruct c
  | |- safe (try_skip _ _) => apply safe_try_skip; tok_neq
  | |- safe (is_next _ _) => apply safe_is_next
  | |- safe peek_type => apply safe_peek_type
  | |- safe (skip _ _) => apply consuming_safe, consuming_skip; tok_neq
  | |- safe (next_value (Some _)) => apply consuming_safe, consuming_next_value; tok_neq
  | |- safe (try_skip_many _) => apply safe_try_skip_many; repeat constructor; simpl; tok_neq
  | |- consuming (bindP _ _) => apply consuming_bind; [|intro]
  | |- consuming (skip _ _) => apply consuming_skip; tok_neq
  | |- consuming (next_value (Some _)) => apply consuming_next_value; tok_neq
  | H : consuming ?p |- safe ?p => apply consuming_safe, H
  | |- _ => assumption
  end.
Ltac safe_auto := repeat safe_step.

(* ---------- token_parser / document_matcher_parser ---------- *)

Lemma consuming_parse_identifier : consuming parse_identifier.
Proof. unfold parse_identifier. safe_auto. Qed.

Lemma consuming_parse_string : consuming parse_string.
Proof. unfold parse_string. safe_auto. Qed.

Lemma safe_parse_identifier : safe parse_identifier.
Proof. apply consuming_safe, consuming_parse_identifier. Qed.

Lemma safe_parse_string : safe parse_string.
Proof. apply consuming_safe, consuming_parse_string. Qed.

Local Hint Resolve safe_parse_identifier safe_parse_string : core.

Ltac safe_auto' := repeat (safe_step || apply safe_parse_identifier || apply safe_parse_string).

Lemma safe_try_parse_class_name : safe try_parse_class_name.
Proof. unfold try_parse_class_name. safe_auto'. Qed.

Lemma safe_parse_string_matcher : safe parse_string_matcher.
Proof. unfold parse_string_matcher. safe_auto'. Qed.

Lemma safe_parse_style_name : safe parse_style_name.
Proof. unfold parse_style_name. safe_auto'. apply safe_parse_string_matcher. Qed.

Lemma safe_parse_list_type : safe parse_list_type.
Proof. unfold parse_list_type. safe_auto'. Qed.

Lemma level_string_no_crash (d : str) (w : N) : level_string d <> Crash w.
Proof.
  unfold level_string. destruct (N.ltb int_max_str_digits (N.of_nat (length d))); discriminate.
Qed.

Lemma safe_parse_numbering : safe parse_numbering.
Proof.
  unfold parse_numbering. safe_auto'.
  - apply safe_parse_list_type.
  - intros ts Hwf. destruct (level_string a1) as [l| |w] eqn:Hl.
    + assert (Hs : safe (_ <-- skip T_SYMBOL (Some [41]) ;;; ret (Some (mkLevel l a)))) by safe_auto'.
      exact (Hs ts Hwf).
    + exact I.
    + exact (level_string_no_crash _ _ Hl).
Qed.

Lemma safe_parse_highlight : safe parse_highlight.
Proof. unfold parse_highlight. safe_auto'. Qed.

Lemma safe_parse_break : safe parse_break.
Proof. unfold parse_break. safe_auto'. Qed.

Lemma safe_parse_document_matcher : safe parse_document_matcher.
Proof.
  unfold parse_document_matcher.
  repeat (safe_step || apply safe_try_parse_class_name || apply safe_parse_style_name
          || apply safe_parse_numbering || apply safe_parse_highlight || apply safe_parse_break).
Qed.

(* ---------- html_path_parser ---------- *)

Lemma safeN_parse_more_tag_names (fuel : nat) :
  forall acc, safeN fuel (parse_more_tag_names fuel acc).
Proof.
  induction fuel as [|f IH]; intros acc.
  - intros ts Hwf Hlen. exfalso. destruct ts as [|t ts'].
    + exact (wf_toks_nonempty _ Hwf eq_refl).
    + simpl in Hlen. lia.
  - simpl. apply safeN_bind.
    + safe_auto'.
    + intros [|].
      * apply safeN_bind_consuming; [exact consuming_parse_identifier|]. intros i. apply IH.
      * apply safe_safeN. apply safe_ret.
Qed.

Lemma safe_parse_tag_names : safe parse_tag_names.
Proof.
  unfold parse_tag_names.
  apply (safe_sized (fun n => i <-- parse_identifier ;;; parse_more_tag_names n [i])).
  intros n. apply safeN_bind; [exact safe_parse_identifier|].
  intros i. apply safeN_parse_more_tag_names.
Qed.

Lemma consuming_parse_attribute : consuming parse_attribute.
Proof. unfold parse_attribute. safe_auto'. Qed.

Lemma consuming_parse_class_name : consuming parse_class_name.
Proof. unfold parse_class_name. safe_auto'. Qed.

Lemma safeN_parse_attr_or_class_names (fuel : nat) :
  forall acc, safeN fuel (parse_attr_or_class_names fuel acc).
Proof.
  induction fuel as [|f IH]; intros acc.
  - intros ts Hwf Hlen. exfalso. destruct ts as [|t ts'].
    + exact (wf_toks_nonempty _ Hwf eq_refl).
    + simpl in Hlen. lia.
  - simpl. apply safeN_bind.
    + safe_auto'.
    + intros [|].
      * apply safeN_bind_consuming; [exact consuming_parse_attribute|]. intros a. apply IH.
      * apply safeN_bind; [safe_auto'|].
        intros [|].
        -- apply safeN_bind_consuming; [exact consuming_parse_class_name|]. intros a. apply IH.
        -- apply safe_safeN. apply safe_ret.
Qed.

Lemma safe_parse_is_fresh : safe parse_is_fresh.
Proof. unfold parse_is_fresh. safe_auto'. Qed.

Lemma safe_parse_separator : safe parse_separator.
Proof. unfold parse_separator. safe_auto'. Qed.

Lemma safe_parse_element : safe parse_element.
Proof.
  unfold parse_element.
  change (safe (names <-- parse_tag_names ;;;
                al <-- (fun ts' => parse_attr_or_class_names (length ts') [] ts') ;;;
                fresh <-- parse_is_fresh ;;;
                sep <-- parse_separator ;;;
                ret (mk_path_tag names (fold_left add_attr al []) fresh sep))).
  apply safe_bind; [exact safe_parse_tag_names|]. intros names.
  apply safe_bind.
  - apply (safe_sized (fun n => parse_attr_or_class_names n [])).
    intros n. apply safeN_parse_attr_or_class_names.
  - intros al. apply safe_bind; [exact safe_parse_is_fresh|]. intros fresh.
    apply safe_bind; [exact safe_parse_separator|]. intros sep. apply safe_ret.
Qed.

Lemma safeN_parse_more_elements (fuel : nat) :
  forall acc, safeN fuel (parse_more_elements fuel acc).
Proof.
  induction fuel as [|f IH]; intros acc.
  - intros ts Hwf Hlen. exfalso. destruct ts as [|t ts'].
    + exact (wf_toks_nonempty _ Hwf eq_refl).
    + simpl in Hlen. lia.
  - simpl. apply safeN_bind.
    + safe_auto'.
    + intros [|].
      * apply safeN_bind_consuming; [safe_auto'|]. intros u.
        apply safeN_bind; [exact safe_parse_element|]. intros e. apply IH.
      * apply safe_safeN. apply safe_ret.
Qed.

Lemma safe_parse_html_path_elements : safe parse_html_path_elements.
Proof.
  unfold parse_html_path_elements.
  apply (safe_sized (fun n => ty <-- peek_type ;;;
     if N.eqb ty T_IDENT then (e <-- parse_element ;;; parse_more_elements n [e]) else ret [])).
  intros n. apply safeN_bind; [exact safe_peek_type|]. intros ty.
  destruct (N.eqb ty T_IDENT).
  - apply safeN_bind; [exact safe_parse_element|]. intros e. apply safeN_parse_more_elements.
  - apply safe_safeN. apply safe_ret.
Qed.

Lemma safe_parse_html_path : safe parse_html_path.
Proof.
  unfold parse_html_path. safe_auto'. apply safe_parse_html_path_elements.
Qed.

(* ---------- style_mapping_parser ---------- *)

Lemma nocrash_skip_end {A} (a : A) : nocrash (_ <-- skip T_END None ;;; ret a).
Proof.
  intros ts Hwf w. destruct ts as [|t ts'].
  - exfalso. exact (wf_toks_nonempty _ Hwf eq_refl).
  - unfold bindP, skip. destruct (tok_is T_END None t); discriminate.
Qed.

Lemma nocrash_parse_style_mapping : nocrash parse_style_mapping.
Proof.
  unfold parse_style_mapping.
  apply nocrash_bind; [exact safe_parse_document_matcher|]. intros m.
  apply nocrash_bind; [safe_auto'|]. intros u1.
  apply nocrash_bind; [safe_auto'|]. intros u2.
  apply nocrash_bind; [safe_auto'|]. intros b.
  apply nocrash_bind; [exact safe_parse_html_path|]. intros p.
  apply nocrash_skip_end.
Qed.
