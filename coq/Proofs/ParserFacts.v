(* Theorems about the style-map reader (C07 totality, C03 ordering).  Statements fixed; proofs to be filled. *)
From Mammoth Require Import Options DefaultStyleMap RegexSpec RegexFacts ParserSpec.
From Mammoth Require Import StrFacts ParserSafety.
From Coq Require Import Lia.
Local Open Scope N_scope.

(* ---------- helper lemmas ---------- *)

Lemma filter_map_In {A B} (f : A -> option B) (l : list A) (y : B) :
  In y (filter_map f l) -> exists x, In x l /\ f x = Some y.
Proof.
  induction l as [|a l IH]; simpl; intros Hin.
  - destruct Hin.
  - destruct (f a) as [b|] eqn:Hfa.
    + destruct Hin as [Heq|Hin].
      * subst b. exists a. split; [left; reflexivity | exact Hfa].
      * destruct (IH Hin) as [x [Hx Hfx]]. exists x. split; [right; exact Hx | exact Hfx].
    + destruct (IH Hin) as [x [Hx Hfx]]. exists x. split; [right; exact Hx | exact Hfx].
Qed.

Lemma filter_map_app {A B} (f : A -> option B) (l1 l2 : list A) :
  filter_map f (l1 ++ l2) = filter_map f l1 ++ filter_map f l2.
Proof.
  induction l1 as [|a l1 IH]; simpl; [reflexivity|].
  destruct (f a); simpl; rewrite IH; reflexivity.
Qed.

Lemma split_on_aux_no_sep (c : N) (s : str) :
  forall cur p, ~ In c cur -> In p (split_on_aux c s cur) -> ~ In c p.
Proof.
  induction s as [|x s IH]; intros cur p Hcur Hin; simpl in Hin.
  - destruct Hin as [Heq|[]]. subst p. intros Hc. apply Hcur. apply in_rev. exact Hc.
  - destruct (N.eqb x c) eqn:Hxc.
    + destruct Hin as [Heq|Hin].
      * subst p. intros Hc. apply Hcur. apply in_rev. exact Hc.
      * apply (IH [] p); [intros [] | exact Hin].
    + apply (IH (x :: cur) p); [|exact Hin].
      intros [Heq|Hc]; [|exact (Hcur Hc)].
      apply N.eqb_neq in Hxc. exact (Hxc Heq).
Qed.

Lemma drop_while_In (f : N -> bool) (s : str) (x : N) : In x (drop_while f s) -> In x s.
Proof.
  induction s as [|y s IH]; simpl; intros Hin; [exact Hin|].
  destruct (f y); [right; exact (IH Hin) | exact Hin].
Qed.

Lemma strip_with_In (f : N -> bool) (s : str) (x : N) : In x (strip_with f s) -> In x s.
Proof.
  unfold strip_with. intros Hin.
  apply in_rev in Hin. apply drop_while_In in Hin. apply in_rev in Hin.
  apply drop_while_In in Hin. exact Hin.
Qed.

Lemma get_line_Some (x l : str) :
  get_line x = Some l -> l = py_strip x /\ l <> [] /\ hd 0 l <> 35.
Proof.
  unfold get_line. destruct (py_strip x) as [|c r] eqn:Hs; [discriminate|].
  destruct (N.eqb c 35) eqn:Hc; [discriminate|].
  intros Heq. injection Heq as Heq. subst l. split; [reflexivity|]. split; [discriminate|].
  simpl. apply N.eqb_neq. exact Hc.
Qed.

Lemma unique_aux_spec (l : list str) :
  forall seen,
    NoDup (unique_aux str_eqb seen l) /\
    (forall x, In x (unique_aux str_eqb seen l) <-> In x l /\ ~ In x seen).
Proof.
  induction l as [|a l IH]; intros seen; simpl.
  - split; [constructor|]. intros x. split; [intros [] | intros [[] _]].
  - destruct (existsb (str_eqb a) seen) eqn:Hmem.
    + apply (mem_str_iff a seen) in Hmem.
      destruct (IH seen) as [Hnd Hin]. split; [exact Hnd|].
      intros x. rewrite Hin. split.
      * intros [Hx Hns]. split; [right; exact Hx | exact Hns].
      * intros [[Heq|Hx] Hns]; [subst x; exfalso; exact (Hns Hmem) | split; assumption].
    + assert (Hnmem : ~ In a seen).
      { intros Hc. apply (mem_str_iff a seen) in Hc. unfold mem_str in Hc.
        rewrite Hc in Hmem. discriminate Hmem. }
      destruct (IH (a :: seen)) as [Hnd Hin]. split.
      * constructor; [|exact Hnd]. intros Hc. apply Hin in Hc. destruct Hc as [_ Hc].
        apply Hc. left. reflexivity.
      * intros x. simpl. rewrite Hin. split.
        -- intros [Heq|[Hx Hns]].
           ++ subst x. split; [left; reflexivity | exact Hnmem].
           ++ split; [right; exact Hx|]. intros Hc. apply Hns. right. exact Hc.
        -- intros [Hor Hns]. destruct (str_eqb a x) eqn:Hax.
           ++ left. apply str_eqb_iff. exact Hax.
           ++ right. destruct Hor as [Heq|Hx].
              ** subst x. rewrite str_eqb_refl in Hax. discriminate Hax.
              ** split; [exact Hx|]. intros [Heq|Hc]; [|exact (Hns Hc)].
                 subst x. rewrite str_eqb_refl in Hax. discriminate Hax.
Qed.

Lemma existsb_str_eqb_ext (a : str) (s1 s2 : list str) :
  (forall x, In x s1 <-> In x s2) -> existsb (str_eqb a) s1 = existsb (str_eqb a) s2.
Proof.
  intros Hext.
  destruct (existsb (str_eqb a) s1) eqn:H1; destruct (existsb (str_eqb a) s2) eqn:H2;
    try reflexivity; exfalso.
  - apply (mem_str_iff a s1) in H1. apply Hext in H1. apply (mem_str_iff a s2) in H1.
    unfold mem_str in H1. rewrite H1 in H2. discriminate H2.
  - apply (mem_str_iff a s2) in H2. apply Hext in H2. apply (mem_str_iff a s1) in H2.
    unfold mem_str in H2. rewrite H2 in H1. discriminate H1.
Qed.

Lemma unique_aux_ext (l : list str) :
  forall s1 s2, (forall x, In x s1 <-> In x s2) ->
    unique_aux str_eqb s1 l = unique_aux str_eqb s2 l.
Proof.
  induction l as [|a l IH]; intros s1 s2 Hext; simpl; [reflexivity|].
  rewrite (existsb_str_eqb_ext a s1 s2 Hext).
  destruct (existsb (str_eqb a) s2).
  - apply IH. exact Hext.
  - f_equal. apply IH. intros x. simpl. rewrite Hext. reflexivity.
Qed.

Lemma unique_aux_app (l1 : list str) :
  forall seen l2 seen',
    (forall x, In x seen' <-> In x l1 \/ In x seen) ->
    unique_aux str_eqb seen (l1 ++ l2)
    = unique_aux str_eqb seen l1 ++ unique_aux str_eqb seen' l2.
Proof.
  induction l1 as [|a l1 IH]; intros seen l2 seen' Hext; simpl.
  - apply unique_aux_ext. intros x. rewrite Hext. simpl. tauto.
  - destruct (existsb (str_eqb a) seen) eqn:Hmem.
    + apply (mem_str_iff a seen) in Hmem. apply IH.
      intros x. rewrite Hext. simpl. split.
      * intros [[Heq|Hx]|Hx]; [subst x; right; exact Hmem | left; exact Hx | right; exact Hx].
      * intros [Hx|Hx]; [left; right; exact Hx | right; exact Hx].
    + simpl. f_equal. apply IH. intros x. rewrite Hext. simpl. tauto.
Qed.

Lemma unique_aux_unique_aux (l : list str) :
  forall S T, (forall x, In x T -> In x S) ->
    unique_aux str_eqb S (unique_aux str_eqb T l) = unique_aux str_eqb S l.
Proof.
  induction l as [|a l IH]; intros S T Hsub; simpl; [reflexivity|].
  destruct (existsb (str_eqb a) T) eqn:HT.
  - apply (mem_str_iff a T) in HT. apply Hsub in HT. apply (mem_str_iff a S) in HT.
    unfold mem_str in HT. rewrite HT. apply IH. exact Hsub.
  - simpl. destruct (existsb (str_eqb a) S) eqn:HS.
    + apply IH. intros x [Heq|Hx]; [subst x; apply (mem_str_iff a S); exact HS | exact (Hsub x Hx)].
    + f_equal. apply IH. intros x [Heq|Hx]; [left; exact Heq | right; exact (Hsub x Hx)].
Qed.

Lemma unique_app_unique (a b : list str) :
  unique str_eqb (unique str_eqb a ++ unique str_eqb b) = unique str_eqb (a ++ b).
Proof.
  unfold unique.
  rewrite (unique_aux_app (unique_aux str_eqb [] a) [] (unique_aux str_eqb [] b) a).
  - rewrite (unique_aux_app a [] b a).
    + rewrite !unique_aux_unique_aux; [reflexivity | intros x [] | intros x []].
    + intros x. simpl. tauto.
  - intros x. destruct (unique_aux_spec a []) as [_ Hin]. rewrite Hin. simpl. tauto.
Qed.

Lemma read_lines_spec (ls : list str) :
  (forall l, In l ls -> exists r, read_style_mapping l = Ok r) ->
  read_lines ls = Ok (filter_map good_line ls, filter_map bad_line ls).
Proof.
  induction ls as [|l ls IH]; intros Hall; [reflexivity|].
  assert (IH' : read_lines ls = Ok (filter_map good_line ls, filter_map bad_line ls)).
  { apply IH. intros l' Hl'. apply Hall. right. exact Hl'. }
  destruct (Hall l (or_introl eq_refl)) as [r Hr].
  simpl. unfold good_line at 1, bad_line at 1. rewrite Hr, IH'. simpl.
  destruct r as [st|]; reflexivity.
Qed.

(* ---------- the theorems ---------- *)

(* TokenIterator never reads past the END token and the parser's loops never run out of fuel:
   on a well-formed token list the parser returns a mapping or LineParseError, never Crash *)
Theorem parse_style_mapping_no_crash (ts : toks) :
  wf_toks ts -> forall w, parse_style_mapping ts <> Crash w.
Proof. intros Hwf w. exact (nocrash_parse_style_mapping ts Hwf w). Qed.

Theorem read_style_mapping_total (s : str) : no_newline s -> exists r, read_style_mapping s = Ok r.
Proof.
  intros Hnn. unfold read_style_mapping.
  destruct (tokenise_total s Hnn) as [ts Hts]. rewrite Hts.
  pose proof (tokenise_shape s ts Hts) as Hwf. fold (wf_toks ts) in Hwf.
  pose proof (parse_style_mapping_no_crash ts Hwf) as Hnc.
  destruct (parse_style_mapping ts) as [[st rest]| |w].
  - exists (Some st). reflexivity.
  - exists None. reflexivity.
  - exfalso. exact (Hnc w eq_refl).
Qed.

(* the lines that are read: no newline inside, not blank, not starting with # *)
Theorem style_map_lines_ok (text : str) (l : str) :
  In l (style_map_lines text) -> no_newline l /\ l <> [] /\ hd 0 l <> 35.
Proof.
  unfold style_map_lines. intros Hin.
  destruct (filter_map_In _ _ _ Hin) as [x [Hx Hgl]].
  destruct (get_line_Some x l Hgl) as [Heq [Hne Hhd]].
  split; [|split; assumption].
  unfold no_newline. intros H10. subst l. unfold py_strip in H10.
  apply strip_with_In in H10.
  unfold split_on in Hx. revert H10. apply (split_on_aux_no_sep 10 text [] x); [intros [] | exact Hx].
Qed.

Theorem unique_spec (l : list str) :
  NoDup (unique str_eqb l) /\ (forall x, In x (unique str_eqb l) <-> In x l).
Proof.
  unfold unique. destruct (unique_aux_spec l []) as [Hnd Hin]. split; [exact Hnd|].
  intros x. rewrite Hin. split; [intros [H _]; exact H | intros H; split; [exact H | intros []]].
Qed.

(* reading ANY text returns; the mappings are those of the readable lines in order; the messages
   are one warning per distinct unreadable line, quoting it, in order of first occurrence *)
Theorem read_style_map_spec (text : str) :
  read_style_map text
  = Ok (filter_map good_line (style_map_lines text),
        unique str_eqb (filter_map bad_line (style_map_lines text))).
Proof.
  unfold read_style_map. rewrite read_lines_spec; [reflexivity|].
  intros l Hl. apply read_style_mapping_total.
  exact (proj1 (style_map_lines_ok text l Hl)).
Qed.

Theorem read_style_map_partition (text : str) (l : str) :
  In l (style_map_lines text) -> (good_line l <> None /\ bad_line l = None) \/ (good_line l = None /\ bad_line l <> None).
Proof.
  intros Hl. destruct (read_style_mapping_total l (proj1 (style_map_lines_ok text l Hl))) as [r Hr].
  unfold good_line, bad_line. rewrite Hr. destruct r as [st|].
  - left. split; [discriminate | reflexivity].
  - right. split; [reflexivity | discriminate].
Qed.

(* read_options: explicit map, then embedded map, then the defaults (unless disabled) *)
Theorem read_options_order (custom embedded : str) (include_default : bool) :
  read_options_style_map custom embedded include_default
  = Ok (filter_map good_line (style_map_lines custom)
        ++ filter_map good_line (style_map_lines embedded)
        ++ (if include_default then default_style_map else []),
        unique str_eqb (filter_map bad_line (style_map_lines custom) ++ filter_map bad_line (style_map_lines embedded))).
Proof.
  unfold read_options_style_map. rewrite !read_style_map_spec. simpl.
  rewrite unique_app_unique. reflexivity.
Qed.

(* the model's parser reads the default style-map text of options.py to exactly the objects
   the running implementation built from it *)
Theorem default_style_map_parses :
  read_style_map default_style_map_text = Ok (default_style_map, []).
Proof. vm_compute; reflexivity. Qed.
