(* GENERATED from LinksSpec.v.in by tools/strlit.py — edit the .in file *)
(* C10, "hence every generated # href resolves to an id present in the output" — STATEMENT side.
   The attribute values of a forest (ids, hrefs), what survives strip_empty and collapse, and the live bookmarks of a
   document element tree (those not under a `!` mapping).  [116;101;120;116] literals are expanded by tools/strlit.py. *)
From Mammoth Require Import Convert ConvertSpec HtmlStrip.
Local Open Scope N_scope.

Definition k_id : str := [105;100].
Definition k_href : str := [104;114;101;102].

(* every value of attribute k in a forest, in document order *)
Fixpoint node_attrs (k : str) (n : node str) : list str :=
  match n with
  | Elem t cs => (match attrs_get k (tattrs t) with Some v => [v] | None => [] end) ++ flat_map (node_attrs k) cs
  | _ => []
  end.
Definition forest_attrs (k : str) (ns : list (node str)) : list str := flat_map (node_attrs k) ns.

(* the values carried by the nodes strip_empty keeps (a node is kept exactly when `keep` holds: C14) *)
Fixpoint kept_attrs (k : str) (n : node str) : list str :=
  match n with
  | Elem t cs => if keep n
                 then (match attrs_get k (tattrs t) with Some v => [v] | None => [] end) ++ flat_map (kept_attrs k) cs
                 else []
  | _ => []
  end.

(* the bookmarks a conversion reaches: everything except what sits under a `!` mapping *)
Section Live.
  Variable o : copts.
  Fixpoint live_bookmarks (e : delem) : list str :=
    match e with
    | DBookmark name => [name]
    | DParagraph cs sid sname num => if is_ignore (para_path o sid sname num) then [] else flat_map live_bookmarks cs
    | DRun cs sid sname bold italic underline strike allcaps smallcaps valign highlight =>
        if existsb is_ignore (run_prop_paths o bold italic underline strike allcaps smallcaps valign highlight
                              ++ [run_style_path o sid sname])
        then [] else flat_map live_bookmarks cs
    | DHyperlink cs _ _ => flat_map live_bookmarks cs
    | DTable cs sid sname => if is_ignore (table_path o sid sname) then [] else flat_map live_bookmarks cs
    | DTableRow cs _ => flat_map live_bookmarks cs
    | DTableCell cs _ _ => flat_map live_bookmarks cs
    | _ => []
    end.
End Live.

(* both ends of a note reference: the reference's own id and href, the note's id and its back-link's href *)
Definition note_ends (o : copts) (forest : list (node str)) (r : str * str) : Prop :=
  In (reference_id o (fst r) (snd r)) (forest_attrs k_id forest) /\
  In ([35] ++ referent_id o (fst r) (snd r)) (forest_attrs k_href forest) /\
  In (referent_id o (fst r) (snd r)) (forest_attrs k_id forest) /\
  In ([35] ++ reference_id o (fst r) (snd r)) (forest_attrs k_href forest).

(* executable form, for testing the statements on generated documents *)
Definition note_ends_b (o : copts) (forest : list (node str)) (r : str * str) : bool :=
  mem_str (reference_id o (fst r) (snd r)) (forest_attrs k_id forest) &&
  mem_str ([35] ++ referent_id o (fst r) (snd r)) (forest_attrs k_href forest) &&
  mem_str (referent_id o (fst r) (snd r)) (forest_attrs k_id forest) &&
  mem_str ([35] ++ reference_id o (fst r) (snd r)) (forest_attrs k_href forest).

Definition links_agree (o : copts) (d : document) : bool :=
  match convert_document_forest o d with
  | Ok (forest, _) =>
      forallb (note_ends_b o forest) (t_refs (walk_list o (d_comments d) (d_children d) 0 0 0))
      && forallb (fun name => mem_str (html_id o name) (forest_attrs k_id forest)) (flat_map (live_bookmarks o) (d_children d))
  | _ => true
  end.
