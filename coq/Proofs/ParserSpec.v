(* Definitions used to STATE the style-map reader theorems (C07, C03). *)
From Mammoth Require Import Options RegexSpec.
Local Open Scope N_scope.

(* token lists as the tokeniser produces them: END exactly once, at the end *)
Definition wf_toks (ts : toks) : Prop :=
  exists pre, ts = pre ++ [mkTok T_END []] /\ Forall (fun t => ttype t <> T_END) pre.

Definition good_line (l : str) : option style :=
  match read_style_mapping l with Ok (Some st) => Some st | _ => None end.
Definition bad_line (l : str) : option str :=
  match read_style_mapping l with Ok None => Some (warn_prefix ++ l) | _ => None end.
