(* GENERATED from ListsSpec.v.in by tools/strlit.py — edit the .in file *)
(* C08 — SPECIFICATION of how consecutive paragraph blocks nest, as a stack machine emitting tag events
   (mirrors harness/props/c08.py: spec_blocks), independent of html.collapse / merge_into.
   Observable: the sequence of open / close / text events of the collapsed forest, i.e. the shape and the
   tag NAMES of the HTML (which `ul|ol` alternative created a list is not visible in the output).
   [116;101;120;116] literals are expanded by tools/strlit.py. *)
From Mammoth Require Import Html Styles MiscSpec.
Local Open Scope N_scope.

Inductive ev := EOpen (name : str) | EClose (name : str) | EText (s : str) | EForce.
Definition ev_eqb (a b : ev) : bool :=
  match a, b with
  | EOpen x, EOpen y | EClose x, EClose y | EText x, EText y => str_eqb x y
  | EForce, EForce => true
  | _, _ => false
  end.

Fixpoint events (n : node str) : list ev :=
  match n with
  | Text s => [EText s]
  | Force => [EForce]
  | Elem t cs => EOpen (tname t) :: flat_map events cs ++ [EClose (tname t)]
  end.
Definition fevents (ns : list (node str)) : list ev := flat_map events ns.

(* a paragraph block: a heading / plain paragraph (one fresh element), or a list item at depth d >= 1 of a
   bulleted (false) or numbered (true) list, written with the default map's path shape `list_path d o` *)
Inductive block :=
| BPlain (t : tag) (content : list (node str))
| BItem (d : nat) (ordered : bool) (content : list (node str)).

Definition block_nodes (b : block) : list (node str) :=
  match b with
  | BPlain t c => [Elem t c]
  | BItem d o c => wrap_elems (list_path d o) c
  end.

Definition lname (o : bool) : str := if o then [111;108] else [117;108].
Definition is_list_name (s : str) : bool := str_eqb s [117;108] || str_eqb s [111;108].
(* the paragraph's own inline content may be anything except a top-level element that is itself called ul / ol *)
Definition content_ok (c : list (node str)) : bool :=
  forallb (fun n => match n with Elem t _ => negb (is_list_name (tname t)) | _ => true end) c.
Definition block_ok (b : block) : bool :=
  match b with
  | BPlain t c => negb (tcoll t) && negb (is_list_name (tname t))
  | BItem d o c => Nat.leb 1 d && content_ok c
  end.

(* the content of a block is collapsed on its own *)
Definition content_events (c : list (node str)) : list ev := fevents (collapse (fun s => s) c).

(* stack: the types of the lists that are open, outermost first; every open list has an open li *)
Definition closes (st : list bool) : list ev := flat_map (fun o => [EClose [108;105]; EClose (lname o)]) (rev st).
Definition opens (l : list bool) : list ev := flat_map (fun o => [EOpen (lname o); EOpen [108;105]]) l.

Definition step (st : list bool) (b : block) : list ev * list bool :=
  match b with
  | BPlain t c => (closes st ++ [EOpen (tname t)] ++ content_events c ++ [EClose (tname t)], [])
  | BItem d o c =>
      let m := length st in
      (* how many of the open lists the item stays inside *)
      let k := if Nat.leb d m then (if Bool.eqb (nth (d - 1) st false) o then d else (d - 1)%nat) else m in
      if Nat.eqb k d
      then (closes (skipn k st) ++ [EClose [108;105]; EOpen [108;105]] ++ content_events c, firstn k st)
      else let opened := repeat false (d - k - 1) ++ [o] in      (* implicit levels are bulleted *)
           (closes (skipn k st) ++ opens opened ++ content_events c, firstn k st ++ opened)
  end.

Fixpoint run_blocks (st : list bool) (bs : list block) : list ev :=
  match bs with
  | [] => closes st
  | b :: bs' => let '(e, st') := step st b in e ++ run_blocks st' bs'
  end.
Definition spec_events (bs : list block) : list ev := run_blocks [] bs.

(* executable form of the statement, for testing it before (and beside) the proof *)
Definition nest_agrees (bs : list block) : bool :=
  negb (forallb block_ok bs)
  || list_eqb ev_eqb (fevents (collapse (fun s => s) (flat_map block_nodes bs))) (spec_events bs).

(* all sequences of length <= n over: plain p, and items of depth 1..dmax of both types, with text content *)
Definition alphabet (dmax : nat) : list block :=
  BPlain (mkTag [112] [] [] false None) [Text [120]]
  :: flat_map (fun d => [BItem d false [Text [97]]; BItem d true [Text [98]]]) (seq 1 dmax).
Fixpoint all_seqs (n : nat) (al : list block) : list (list block) :=
  match n with
  | O => [[]]
  | S n' => [] :: flat_map (fun b => map (cons b) (all_seqs n' al)) al
  end.
