(* GENERATED from RawSpec.v.in by tools/strlit.py — edit the .in file *)
(* C01, second sentence — SPECIFICATION of what extract_raw_text returns, on the XML of the main part alone:
   "the same body text with every paragraph followed by exactly two newlines and tab elements as tab characters".

   The live content of Proofs/LiveSpec.v with one addition: the END of every (logical) paragraph is marked.
   A marked item is `Some item` or `None` (= a paragraph ends here).  The marks sit where the property puts them:
   after the paragraph's own content and BEFORE the text-box content that follows its host paragraph (that content is
   made of paragraphs of its own); a paragraph whose mark is deleted has no end of its own - it ends with the next one.

   Domain of the theorem: wf_body (LiveSpec) and no vertical-merge continuation cells (`no_vmerge`): a continuation cell is
   removed by the row-span sweep exactly when a cell above owns its column - the table-geometry fact proved for C09 - and
   Word writes an empty paragraph into every such cell, so whether those two newlines appear depends on the tiling; the
   statement here stays with tables whose cells are all real cells.  (The character content is covered for every table by
   C01_docx_items; the C01 check compares extract_raw_text on merged tables too.)
   [116;101;120;116] literals are expanded by tools/strlit.py. *)
From Mammoth Require Import Reader ReaderTables Docx Api LiveSpec.
Local Open Scope N_scope.

Definition mitem := option item.

(* the marked content of a document element tree *)
Fixpoint pitems (e : delem) : list mitem :=
  match e with
  | DText s => map (fun c => Some (IChar c)) s
  | DTab => [Some (IChar 9)]
  | DNoteRef t i => [Some (INote t i)]
  | DCommentRef i => [Some (IComment i)]
  | DParagraph cs _ _ _ => flat_map pitems cs ++ [None]
  | DRun cs _ _ _ _ _ _ _ _ _ _ => flat_map pitems cs
  | DHyperlink cs _ _ => flat_map pitems cs
  | DTable cs _ _ => flat_map pitems cs
  | DTableRow cs _ => flat_map pitems cs
  | DTableCell cs _ _ => flat_map pitems cs
  | _ => []
  end.
Definition pitems_all (es : list delem) : list mitem := flat_map pitems es.

(* raw text of a marked item: characters as they are (a tab element IS the character 9), references nothing,
   the end of a paragraph exactly two newlines *)
Definition expand (m : mitem) : str :=
  match m with
  | Some (IChar c) => [c]
  | Some _ => []
  | None => [10; 10]
  end.

(* forgetting the marks *)
Fixpoint unmark (l : list mitem) : list item :=
  match l with
  | [] => []
  | Some i :: r => i :: unmark r
  | None :: r => unmark r
  end.

(* ---------- the specification on XML: LiveSpec.lives with paragraph ends ---------- *)
Fixpoint lives_p (fuel : nat) (pend : list xml) (l : list xml) {struct fuel} : list mitem * list mitem :=
  match fuel with
  | O => ([], [])
  | S f =>
      let sub := lives_p f [] in
      let one := fun (x : xml) =>
        match x with
        | XText _ => ([], [])
        | XElem n _ cs =>
            if str_eqb n [119;58;116] then (map (fun c => Some (IChar c)) (inner_text x), [])
            else if str_eqb n [119;58;116;97;98] then ([Some (IChar 9)], [])
            else if str_eqb n [119;58;110;111;66;114;101;97;107;72;121;112;104;101;110] then ([Some (IChar 8209)], [])
            else if str_eqb n [119;58;115;111;102;116;72;121;112;104;101;110] then ([Some (IChar 173)], [])
            else if str_eqb n [119;58;115;121;109] then (match sym_char x with Some u => [Some (IChar u)] | None => [] end, [])
            else if str_eqb n [119;58;102;111;111;116;110;111;116;101;82;101;102;101;114;101;110;99;101] then (match attr [119;58;105;100] x with Some i => [Some (INote [102;111;111;116;110;111;116;101] i)] | None => [] end, [])
            else if str_eqb n [119;58;101;110;100;110;111;116;101;82;101;102;101;114;101;110;99;101] then (match attr [119;58;105;100] x with Some i => [Some (INote [101;110;100;110;111;116;101] i)] | None => [] end, [])
            else if str_eqb n [119;58;99;111;109;109;101;110;116;82;101;102;101;114;101;110;99;101] then (match attr [119;58;105;100] x with Some i => [Some (IComment i)] | None => [] end, [])
            else if str_eqb n [119;58;112;105;99;116] then (let '(i, e) := sub cs in ([], e ++ i))
            else if str_eqb n [109;99;58;65;108;116;101;114;110;97;116;101;67;111;110;116;101;110;116] then sub (xchildren (find_child_or_null [109;99;58;70;97;108;108;98;97;99;107] x))
            else if str_eqb n [119;58;115;100;116] then (if is_checkbox_sdt x then ([], []) else sub (xchildren (find_child_or_null [119;58;115;100;116;67;111;110;116;101;110;116] x)))
            else if str_eqb n [119;58;116;99] then (if cell_continues x then ([], []) else sub cs)
            else if mem_str n containers then sub cs
            else ([], [])
        end in
      (fix seq (pend : list xml) (l : list xml) {struct l} : list mitem * list mitem :=
         match l with
         | [] => ([], [])
         | XText _ :: l' => seq pend l'
         | XElem n a cs :: l' =>
             let x := XElem n a cs in
             if str_eqb n [119;58;112] then
               if para_deleted x then seq (pend ++ cs) l'
               else let '(i1, e1) := sub (pend ++ cs) in
                    let '(i2, e2) := seq [] l' in
                    (i1 ++ [None] ++ e1 ++ i2, e2)
             else let '(i1, e1) := one x in
                  let '(i2, e2) := seq pend l' in
                  (i1 ++ i2, e1 ++ e2)
         end) pend l
  end.

Definition live_body_p (l : list xml) : list mitem * list mitem := lives_p (S (xsizes l)) [] l.

(* ---------- the extra domain condition: every w:tc is a real cell ---------- *)
Fixpoint no_vmerge (x : xml) : bool :=
  match x with
  | XText _ => true
  | XElem n _ cs => negb (str_eqb n [119;58;116;99] && cell_continues x) && forallb no_vmerge cs
  end.

(* ---------- executable comparisons, used by the harness to test the statements on generated packages ---------- *)
Definition mitem_eqb (a b : mitem) : bool :=
  match a, b with
  | Some x, Some y => item_eqb x y
  | None, None => true
  | _, _ => false
  end.

Definition in_raw_domain (s : source) : bool :=
  match main_body (src_pkg s) with Some l => wf_body l && forallb no_vmerge l | None => false end.

(* true unless the package is in the domain, is read successfully, and the text extract_raw_text returns differs from the
   expansion of the marked live items of the body XML *)
Definition raw_agrees (s : source) : bool :=
  match main_body (src_pkg s), extract_raw_text s with
  | Some l, Ok (t, _) =>
      if wf_body l && forallb no_vmerge l
      then str_eqb t (flat_map expand (fst (live_body_p l)))
           && items_eqb (unmark (fst (live_body_p l))) (fst (live_body l))
      else true
  | _, _ => true
  end.
