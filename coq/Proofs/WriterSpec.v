(* An independent reader of HTML fragments, used only to STATE the writer theorems (C02). *)
From Mammoth Require Import Html Writer.
Local Open Scope N_scope.

Inductive token :=
| TStart (name : str) (attrs : list (str * str))
| TEnd (name : str)
| TSelf (name : str) (attrs : list (str * str))
| TText (s : str).

(* what the forest says should be written *)
Fixpoint events_node (n : node str) : list token :=
  match n with
  | Text s => [TText s]
  | Force => []
  | Elem t cs =>
      if is_void t cs then [TSelf (tname t) (tattrs t)]
      else [TStart (tname t) (tattrs t)] ++ flat_map events_node cs ++ [TEnd (tname t)]
  end.
Definition events (ns : list (node str)) : list token := flat_map events_node ns.

(* adjacent text is indistinguishable in the output, empty text invisible *)
Fixpoint norm_events (ts : list token) : list token :=
  match ts with
  | [] => []
  | TText a :: ts' =>
      match norm_events ts' with
      | TText b :: r => TText (a ++ b) :: r
      | r => match a with [] => r | _ => TText a :: r end
      end
  | t :: ts' => t :: norm_events ts'
  end.

(* start/end tags balance and nest: checked with a stack of open names *)
Fixpoint balanced (stack : list str) (ts : list token) : bool :=
  match ts with
  | [] => match stack with [] => true | _ => false end
  | TStart n _ :: ts' => balanced (n :: stack) ts'
  | TEnd n :: ts' => match stack with m :: st => str_eqb n m && balanced st ts' | [] => false end
  | _ :: ts' => balanced stack ts'
  end.

(* ---------- entity decoding ---------- *)
Definition e_amp : str := [38;97;109;112;59].
Definition e_lt : str := [38;108;116;59].
Definition e_gt : str := [38;103;116;59].
Definition e_quot : str := [38;113;117;111;116;59].

Definition ent_prefix (s : str) : option (N * str) :=
  if starts_with e_amp s then Some (38, skipn 5 s)
  else if starts_with e_lt s then Some (60, skipn 4 s)
  else if starts_with e_gt s then Some (62, skipn 4 s)
  else if starts_with e_quot s then Some (34, skipn 6 s)
  else None.

Fixpoint decode_fuel (f : nat) (s : str) : str :=
  match f with
  | O => []
  | S f' =>
      match s with
      | [] => []
      | c :: r =>
          match ent_prefix s with
          | Some (d, r') => d :: decode_fuel f' r'
          | None => c :: decode_fuel f' r
          end
      end
  end.
Definition decode_entities (s : str) : str := decode_fuel (length s) s.

(* every ampersand starts one of the four entities *)
Fixpoint amps_ok_fuel (f : nat) (s : str) : bool :=
  match f with
  | O => true
  | S f' =>
      match s with
      | [] => true
      | c :: r =>
          match ent_prefix s with
          | Some (_, r') => amps_ok_fuel f' r'
          | None => negb (N.eqb c 38) && amps_ok_fuel f' r
          end
      end
  end.
Definition amps_ok (s : str) : bool := amps_ok_fuel (length s) s.

(* ---------- lexer ---------- *)
Definition name_char (c : N) : bool :=
  negb (N.eqb c 32 || N.eqb c 34 || N.eqb c 47 || N.eqb c 60 || N.eqb c 61 || N.eqb c 62 || N.eqb c 38).
Definition plain_name (s : str) : bool := match s with [] => false | _ => forallb name_char s end.

Fixpoint span (f : N -> bool) (s : str) : str * str :=
  match s with
  | [] => ([], [])
  | c :: r => if f c then let (a, b) := span f r in (c :: a, b) else ([], s)
  end.

(* attributes: ( key="value")*, optionally followed by " /" ; fuel = length *)
Fixpoint lex_attrs (f : nat) (s : str) (acc : list (str * str)) : option (list (str * str) * bool) :=
  match f with
  | O => None
  | S f' =>
      match s with
      | [] => Some (rev acc, false)
      | [32; 47] => Some (rev acc, true)
      | 32 :: r =>
          let (k, r1) := span name_char r in
          match k, r1 with
          | _ :: _, 61 :: 34 :: r2 =>
              let (v, r3) := span (fun c => negb (N.eqb c 34)) r2 in
              match r3 with
              | 34 :: r4 =>
                  if amps_ok v && negb (existsb (fun c => N.eqb c 60 || N.eqb c 62) v)
                  then lex_attrs f' r4 ((k, decode_entities v) :: acc)
                  else None
              | _ => None
              end
          | _, _ => None
          end
      | _ => None
      end
  end.

Definition lex_tag (body : str) : option token :=
  match body with
  | 47 :: nm => if plain_name nm then Some (TEnd nm) else None
  | _ =>
      let (nm, r) := span name_char body in
      if plain_name nm then
        match lex_attrs (S (length r)) r [] with
        | Some (attrs, true) => Some (TSelf nm attrs)
        | Some (attrs, false) => Some (TStart nm attrs)
        | None => None
        end
      else None
  end.

Inductive mode := MText (acc : str) | MTag (acc : str).   (* accumulators reversed *)

Definition flush_text (acc : str) (out : list token) : option (list token) :=
  match acc with
  | [] => Some out
  | _ => let t := rev acc in
         if amps_ok t && negb (existsb (N.eqb 34) t) then Some (TText (decode_entities t) :: out) else None
  end.

Fixpoint lex_run (s : str) (m : mode) (out : list token) : option (list token) :=
  match s with
  | [] => match m with MText acc => match flush_text acc out with Some o => Some (rev o) | None => None end
                     | MTag _ => None end
  | c :: r =>
      match m with
      | MText acc =>
          if N.eqb c 60 then match flush_text acc out with Some o => lex_run r (MTag []) o | None => None end
          else if N.eqb c 62 then None
          else lex_run r (MText (c :: acc)) out
      | MTag acc =>
          if N.eqb c 62 then match lex_tag (rev acc) with Some t => lex_run r (MText []) (t :: out) | None => None end
          else if N.eqb c 60 then None
          else lex_run r (MTag (c :: acc)) out
      end
  end.
Definition lex_html (s : str) : option (list token) := lex_run s (MText []) [].

(* names and attribute keys of a forest are plain *)
Fixpoint plain_node (n : node str) : bool :=
  match n with
  | Elem t cs => plain_name (tname t) && forallb (fun kv => plain_name (fst kv)) (tattrs t) && forallb plain_node cs
  | _ => true
  end.

Definition token_eqb (a b : token) : bool :=
  match a, b with
  | TStart n x, TStart m y => str_eqb n m && attrs_eqb x y
  | TSelf n x, TSelf m y => str_eqb n m && attrs_eqb x y
  | TEnd n, TEnd m => str_eqb n m
  | TText s, TText t => str_eqb s t
  | _, _ => false
  end.

(* text carried by a token stream; the skeleton of a token (all document strings erased) *)
Definition tokens_text (ts : list token) : str :=
  flat_map (fun t => match t with TText s => s | _ => [] end) ts.
Definition tok_skel (t : token) : token :=
  match t with
  | TStart n a => TStart n (map (fun kv => (fst kv, [])) a)
  | TSelf n a => TSelf n (map (fun kv => (fst kv, [])) a)
  | TEnd n => TEnd n
  | TText _ => TText []
  end.

(* substitute every document string (text and attribute values) *)
Definition map_tag (f : str -> str) (t : tag) : tag :=
  mkTag (tname t) (talts t) (map (fun kv => (fst kv, f (snd kv))) (tattrs t)) (tcoll t) (tsep t).
Fixpoint map_strings (f : str -> str) (n : node str) : node str :=
  match n with
  | Text s => Text (f s)
  | Force => Force
  | Elem t cs => Elem (map_tag f t) (map (map_strings f) cs)
  end.
