(* GENERATED from ClosedSpec.v.in by tools/strlit.py — edit the .in file *)
(* C18 — STATEMENT side of "conversion reads nothing outside the given file except linked images".
   In the model everything outside the package is the environment of the source: `src_linked` (what opening each
   external target yields) and `src_named` (whether the input has a name to resolve relative targets against).
   The theorems say when the result cannot depend on that environment.
   [116;101;120;116] literals are expanded by tools/strlit.py. *)
From Mammoth Require Import Api.
Local Open Scope N_scope.

(* an a:blip that can only be satisfied from outside: r:link without r:embed *)
Definition link_only_blip (x : xml) : bool :=
  match x with
  | XElem n _ _ => str_eqb n [97;58;98;108;105;112] && match attr [114;58;101;109;98;101;100] x, attr [114;58;108;105;110;107] x with None, Some _ => true | _, _ => false end
  | XText _ => false
  end.
Fixpoint links_free_xml (x : xml) : bool :=
  match x with
  | XText _ => true
  | XElem _ _ cs => negb (link_only_blip x) && forallb links_free_xml cs
  end.
(* no XML part of the package contains a link-only blip *)
Definition links_free (p : package) : bool :=
  forallb (fun e => match snd e with PXml x => links_free_xml x | _ => true end) p.

(* two sources with the same package: they differ at most in the environment *)
Definition same_package (s s' : source) : Prop := src_pkg s = src_pkg s'.
