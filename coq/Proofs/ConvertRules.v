(* Decision rules of the converter (C03, C09, C11): statements fixed; proofs to be filled. *)
From Mammoth Require Import Convert ConvertSpec StrFacts.
From Coq Require Import Lia.
Local Open Scope N_scope.

(* ---------- first match wins ---------- *)
Theorem find_style_app (a b : list style) (t : target) :
  find_style (a ++ b) t = match find_style a t with Some s => Some s | None => find_style b t end.
Proof.
  induction a as [|s a IHa]; simpl.
  - reflexivity.
  - destruct (matches (s_matcher s) t); [reflexivity | exact IHa].
Qed.

Theorem find_style_first (sm : list style) (t : target) (s : style) :
  find_style sm t = Some s <->
  exists pre post, sm = pre ++ s :: post /\ matches (s_matcher s) t = true
                   /\ Forall (fun s' => matches (s_matcher s') t = false) pre.
Proof.
  split.
  - revert s. induction sm as [|s0 sm IHsm]; intros s Hf; simpl in Hf.
    + discriminate.
    + destruct (matches (s_matcher s0) t) eqn:Hm.
      * injection Hf as Hs. subst s0. exists [], sm. repeat split; [exact Hm | constructor].
      * destruct (IHsm s Hf) as [pre [post [Heq [Hms Hall]]]].
        exists (s0 :: pre), post. subst sm. repeat split; [exact Hms | constructor; assumption].
  - intros [pre [post [Heq [Hms Hall]]]]. subst sm.
    induction Hall as [|s0 pre Hs0 Hall IH]; simpl.
    + rewrite Hms. reflexivity.
    + rewrite Hs0. exact IH.
Qed.

Theorem find_style_none (sm : list style) (t : target) :
  find_style sm t = None <-> Forall (fun s' => matches (s_matcher s') t = false) sm.
Proof.
  induction sm as [|s0 sm IHsm]; simpl.
  - split; intros _; [constructor | reflexivity].
  - destruct (matches (s_matcher s0) t) eqn:Hm.
    + split; intros H; [discriminate | inversion H as [|x l Hx Hl]; subst; congruence].
    + rewrite IHsm. split; intros H.
      * constructor; assumption.
      * inversion H as [|x l Hx Hl]; subst; assumption.
Qed.

(* ---------- when a mapping matches ---------- *)
Definition mkind (m : matcher) : N :=
  match m with
  | MParagraph _ _ _ => 0 | MRun _ _ => 1 | MTable _ _ => 2 | MBold => 3 | MItalic => 4 | MUnderline => 5
  | MStrike => 6 | MAllCaps => 7 | MSmallCaps => 8 | MHighlight _ => 9 | MCommentRef => 10 | MBreak _ => 11 end.
Definition tkind (t : target) : N :=
  match t with
  | TPara _ _ _ => 0 | TRun _ _ => 1 | TTable _ _ => 2 | TBold => 3 | TItalic => 4 | TUnderline => 5
  | TStrike => 6 | TAllCaps => 7 | TSmallCaps => 8 | THighlight _ => 9 | TCommentRef => 10 | TBreak _ => 11 end.

Theorem matches_kind (m : matcher) (t : target) : matches m t = true -> mkind m = tkind t.
Proof. destruct m, t; simpl; intros H; try discriminate H; reflexivity. Qed.

(* style ID: exact; style name: the element must have one, compared through upper(); numbering: equal *)
Definition sid_rel (m e : option str) : Prop := forall i, m = Some i -> e = Some i.
Definition sname_rel (m : option smatch) (e : option str) : Prop :=
  forall sm, m = Some sm -> exists n, e = Some n /\
    match sm with
    | SEq v => upper v = upper n
    | SPrefix v => exists rest, upper n = upper v ++ rest
    end.
Definition num_rel (m e : option numlevel) : Prop := forall l, m = Some l -> e = Some l.

(* reflection helpers *)
Lemma starts_with_iff (p s : str) : starts_with p s = true <-> exists rest, s = p ++ rest.
Proof.
  revert s. induction p as [|x p IHp]; intros s; simpl.
  - split; [intros _; exists s; reflexivity | intros _; reflexivity].
  - destruct s as [|y s].
    + split; [discriminate | intros [rest Hr]; discriminate Hr].
    + rewrite andb_true_iff, N.eqb_eq, IHp. split.
      * intros [Hxy [rest Hr]]. subst. exists rest. reflexivity.
      * intros [rest Hr]. injection Hr as Hxy Hs. split; [symmetry; exact Hxy | exists rest; exact Hs].
Qed.

Lemma level_eqb_iff (a b : numlevel) : level_eqb a b = true <-> a = b.
Proof.
  destruct a as [ai ao], b as [bi bo]. unfold level_eqb. simpl.
  rewrite andb_true_iff, str_eqb_iff, Bool.eqb_true_iff. split.
  - intros [Hi Ho]. subst. reflexivity.
  - intros H. injection H as Hi Ho. split; assumption.
Qed.

Lemma sid_ok_iff (m e : option str) : sid_ok m e = true <-> sid_rel m e.
Proof.
  unfold sid_ok, sid_rel. destruct m as [i|].
  - destruct e as [j|].
    + rewrite str_eqb_iff. split.
      * intros Hij i0 Hi0. injection Hi0 as Hi0. subst. reflexivity.
      * intros H. specialize (H i eq_refl). injection H as H. symmetry. exact H.
    + split; [discriminate | intros H; specialize (H i eq_refl); discriminate H].
  - split; [intros _ i Hi; discriminate Hi | intros _; reflexivity].
Qed.

Lemma num_ok_iff (m e : option numlevel) : num_ok m e = true <-> num_rel m e.
Proof.
  unfold num_ok, num_rel. destruct m as [i|].
  - destruct e as [j|].
    + rewrite level_eqb_iff. split.
      * intros Hij i0 Hi0. injection Hi0 as Hi0. subst. reflexivity.
      * intros H. specialize (H i eq_refl). injection H as H. symmetry. exact H.
    + split; [discriminate | intros H; specialize (H i eq_refl); discriminate H].
  - split; [intros _ i Hi; discriminate Hi | intros _; reflexivity].
Qed.

Lemma smatch_matches_iff (sm : smatch) (n : str) :
  smatch_matches sm n = true <->
  match sm with
  | SEq v => upper v = upper n
  | SPrefix v => exists rest, upper n = upper v ++ rest
  end.
Proof.
  destruct sm as [v|v]; unfold smatch_matches.
  - apply str_eqb_iff.
  - apply starts_with_iff.
Qed.

Lemma sname_ok_iff (m : option smatch) (e : option str) : sname_ok m e = true <-> sname_rel m e.
Proof.
  unfold sname_ok, sname_rel. destruct m as [sm|].
  - destruct e as [n|].
    + rewrite smatch_matches_iff. split.
      * intros H sm0 Hsm0. injection Hsm0 as Hsm0. subst sm0. exists n. split; [reflexivity | exact H].
      * intros H. destruct (H sm eq_refl) as [n0 [Hn0 Hm]]. injection Hn0 as Hn0. subst n0. exact Hm.
    + split; [discriminate | intros H; destruct (H sm eq_refl) as [n0 [Hn0 _]]; discriminate Hn0].
  - split; [intros _ sm Hsm; discriminate Hsm | intros _; reflexivity].
Qed.

Theorem matches_paragraph_iff i n l ei en el :
  matches (MParagraph i n l) (TPara ei en el) = true <-> sid_rel i ei /\ sname_rel n en /\ num_rel l el.
Proof.
  simpl. rewrite !andb_true_iff, sid_ok_iff, sname_ok_iff, num_ok_iff. tauto.
Qed.
Theorem matches_run_iff i n ei en :
  matches (MRun i n) (TRun ei en) = true <-> sid_rel i ei /\ sname_rel n en.
Proof.
  simpl. rewrite andb_true_iff, sid_ok_iff, sname_ok_iff. tauto.
Qed.
Theorem matches_table_iff i n ei en :
  matches (MTable i n) (TTable ei en) = true <-> sid_rel i ei /\ sname_rel n en.
Proof.
  simpl. rewrite andb_true_iff, sid_ok_iff, sname_ok_iff. tauto.
Qed.
Theorem matches_highlight_iff c ec :
  matches (MHighlight c) (THighlight ec) = true <-> (forall x, c = Some x -> x = ec).
Proof.
  simpl. destruct c as [x|].
  - rewrite str_eqb_iff. split.
    + intros Hx x0 Hx0. injection Hx0 as Hx0. subst. reflexivity.
    + intros H. apply H. reflexivity.
  - split; [intros _ x Hx; discriminate Hx | intros _; reflexivity].
Qed.
Theorem matches_break_iff b eb : matches (MBreak b) (TBreak eb) = true <-> b = eb.
Proof. simpl. apply str_eqb_iff. Qed.

(* ---------- unfolding the visitor one step at a time ---------- *)
Local Arguments visit : simpl never.

(* the local [fix va] of [visit], as a constant (delta-beta convertible with the local fix) *)
Definition va_def (o : copts) (cm : list comment) (hdr : bool) : list delem -> M (list (node str)) :=
  fix va (l : list delem) : M (list (node str)) :=
    match l with
    | [] => retM []
    | c :: l' => a <~ visit o cm c hdr ;; b <~ va l' ;; retM (a ++ b)
    end.

(* the local [fix vt] of the table case *)
Definition vt_def (o : copts) (cm : list comment) : list delem -> bool -> M (list (node str) * list (node str)) :=
  fix vt (l : list delem) (inhead : bool) : M (list (node str) * list (node str)) :=
    match l with
    | [] => retM ([], [])
    | c :: l' =>
        let h := inhead && (match c with DTableRow _ true => true | _ => false end) in
        r <~ visit o cm c h ;;
        rest <~ vt l' h ;;
        retM (if h then (r ++ fst rest, snd rest) else (fst rest, r ++ snd rest))
    end.

Lemma bindM_eq {A B} (m : M A) (f : A -> M B) (st : cstate) :
  bindM m f st = match m st with Ok (a, st') => f a st' | LineError => LineError | Crash w => Crash w end.
Proof. reflexivity. Qed.

Lemma bindM_ext_l {A B} (m1 m2 : M A) (f : A -> M B) (st : cstate) :
  m1 st = m2 st -> bindM m1 f st = bindM m2 f st.
Proof. intros H. rewrite !bindM_eq, H. reflexivity. Qed.

Lemma visit_list_cons o cm c l hdr :
  visit_list o cm (c :: l) hdr = (a <~ visit o cm c hdr ;; b <~ visit_list o cm l hdr ;; retM (a ++ b)).
Proof. reflexivity. Qed.

Lemma va_def_cons o cm hdr c l :
  va_def o cm hdr (c :: l) = (a <~ visit o cm c hdr ;; b <~ va_def o cm hdr l ;; retM (a ++ b)).
Proof. reflexivity. Qed.

Lemma va_def_eq o cm hdr l st : va_def o cm hdr l st = visit_list o cm l hdr st.
Proof.
  revert st. induction l as [|c l IHl]; intros st.
  - reflexivity.
  - rewrite va_def_cons, visit_list_cons, !bindM_eq.
    destruct (visit o cm c hdr st) as [[a st1]| |]; try reflexivity.
    rewrite !bindM_eq, IHl. reflexivity.
Qed.

(* _find_html_path with a warning description *)
Lemma find_html_path_warn o t d kind sid sname st :
  find_html_path o t d (Some (kind, sid, sname)) st =
  Ok (match find_style (o_style_map o) t with Some s => s_path s | None => d end,
      fold_left (fun s m => add_msg m s) (style_warning kind (has_style o t) sid sname) st).
Proof.
  unfold find_html_path, style_warning, has_style.
  destruct (find_style (o_style_map o) t) as [s|]; [reflexivity|].
  destruct sid as [i|]; reflexivity.
Qed.

Lemma find_html_path_nowarn o t d st :
  find_html_path o t d None st =
  Ok (match find_style (o_style_map o) t with Some s => s_path s | None => d end, st).
Proof.
  unfold find_html_path. destruct (find_style (o_style_map o) t) as [s|]; reflexivity.
Qed.

(* ---------- how each element is rendered (unfolding equations of the visitor) ---------- *)
Section Rules.
  Variable o : copts.
  Variable cm : list comment.

  Lemma visit_para_unf cs sid sname num hdr :
    visit o cm (DParagraph cs sid sname num) hdr =
    (p <~ find_html_path o (TPara sid sname num) (PElems [fresh_tag [112]]) (Some (k_paragraph, sid, sname)) ;;
     match p with
     | PIgnore => retM []
     | PElems l =>
         content <~ va_def o cm hdr cs ;;
         retM (wrap_elems l (if o_ignore_empty o then content else Force :: content))
     end).
  Proof. reflexivity. Qed.

  Lemma visit_run_unf cs sid sname bold italic underline strike allcaps smallcaps valign highlight hdr :
    visit o cm (DRun cs sid sname bold italic underline strike allcaps smallcaps valign highlight) hdr =
    (rp <~ find_html_path o (TRun sid sname) (PElems []) (Some (k_run, sid, sname)) ;;
     let paths := run_prop_paths o bold italic underline strike allcaps smallcaps valign highlight ++ [rp] in
     if existsb is_ignore paths then retM (apply_paths paths [])
     else (content <~ va_def o cm hdr cs ;; retM (apply_paths paths content))).
  Proof. reflexivity. Qed.

  Lemma visit_table_unf cs sid sname hdr :
    visit o cm (DTable cs sid sname) hdr =
    (p <~ find_html_path o (TTable sid sname) (PElems [fresh_tag [116;97;98;108;101]]) None ;;
     match p with
     | PIgnore => retM []
     | PElems l =>
         hb <~ vt_def o cm cs true ;;
         match cs with
         | c0 :: _ =>
             if (match c0 with DTableRow _ true => true | _ => false end)
             then retM (wrap_elems l [Force; Elem (plain_tag [116;104;101;97;100] []) (fst hb);
                                      Elem (plain_tag [116;98;111;100;121] []) (snd hb)])
             else retM (wrap_elems l (Force :: snd hb))
         | [] => retM (wrap_elems l [Force])
         end
     end).
  Proof. reflexivity. Qed.

  Lemma visit_row_unf cs h hdr :
    visit o cm (DTableRow cs h) hdr =
    (content <~ va_def o cm hdr cs ;; retM [Elem (plain_tag [116;114] []) (Force :: content)]).
  Proof. reflexivity. Qed.

  Lemma visit_cell_unf cs colspan rowspan hdr :
    visit o cm (DTableCell cs colspan rowspan) hdr =
    (let name := if hdr then [116;104] else [116;100] in
     let attrs := if N.eqb colspan 1 then [] else attrs_set [99;111;108;115;112;97;110] (str_of_N colspan) [] in
     let attrs := if N.eqb rowspan 1 then attrs else attrs_set [114;111;119;115;112;97;110] (str_of_N rowspan) attrs in
     content <~ va_def o cm hdr cs ;;
     retM [Elem (plain_tag name attrs) (Force :: content)]).
  Proof. reflexivity. Qed.

  Lemma visit_break_unf bt hdr :
    visit o cm (DBreak bt) hdr =
    match find_style (o_style_map o) (TBreak bt) with
    | Some s => retM (match s_path s with PIgnore => [] | PElems l => wrap_elems l [] end)
    | None => retM (if str_eqb bt s_line then [Elem (fresh_tag [98;114]) []] else [])
    end.
  Proof. reflexivity. Qed.

  (* a `!` mapping drops the element together with its contents: no node, no side effect other
     than nothing (children are never generated) *)
  Theorem ignore_drops_paragraph cs sid sname num hdr st :
    para_path o sid sname num = PIgnore ->
    visit o cm (DParagraph cs sid sname num) hdr st = Ok ([], st).
  Proof.
    intros Hp. unfold para_path in Hp.
    rewrite visit_para_unf, bindM_eq, find_html_path_warn. unfold has_style.
    destruct (find_style (o_style_map o) (TPara sid sname num)) as [s|].
    - rewrite Hp. reflexivity.
    - discriminate Hp.
  Qed.

  Theorem ignore_drops_table cs sid sname hdr st :
    table_path o sid sname = PIgnore -> visit o cm (DTable cs sid sname) hdr st = Ok ([], st).
  Proof.
    intros Hp. unfold table_path in Hp.
    rewrite visit_table_unf, bindM_eq, find_html_path_nowarn, Hp. reflexivity.
  Qed.

  (* paragraph: the matched path (fresh p when nothing matches) around the children; a warning iff
     nothing matched and the paragraph has a style ID; a force-write marker iff empty paragraphs are kept *)
  Theorem visit_paragraph_eq cs sid sname num hdr st l :
    para_path o sid sname num = PElems l ->
    visit o cm (DParagraph cs sid sname num) hdr st =
    match visit_list o cm cs hdr
            (fold_left (fun s m => add_msg m s) (style_warning k_paragraph (has_style o (TPara sid sname num)) sid sname) st) with
    | Ok (content, st') => Ok (wrap_elems l (if o_ignore_empty o then content else Force :: content), st')
    | LineError => LineError
    | Crash w => Crash w
    end.
  Proof.
    intros Hp. unfold para_path in Hp.
    rewrite visit_para_unf, bindM_eq, find_html_path_warn, Hp, bindM_eq, va_def_eq.
    destruct (visit_list o cm cs hdr _) as [[content st']| |]; reflexivity.
  Qed.

  (* run: wrappers (run style outermost, then bold, italic, sup/sub, underline, strike, all caps,
     small caps, highlight innermost) applied around the children; nothing for an absent property *)
  Theorem visit_run_eq cs sid sname bold italic underline strike allcaps smallcaps valign highlight hdr st :
    let paths := run_prop_paths o bold italic underline strike allcaps smallcaps valign highlight ++ [run_style_path o sid sname] in
    let st1 := fold_left (fun s m => add_msg m s) (style_warning k_run (has_style o (TRun sid sname)) sid sname) st in
    visit o cm (DRun cs sid sname bold italic underline strike allcaps smallcaps valign highlight) hdr st =
    if existsb is_ignore paths then Ok (apply_paths paths [], st1)
    else match visit_list o cm cs hdr st1 with
         | Ok (content, st') => Ok (apply_paths paths content, st')
         | LineError => LineError
         | Crash w => Crash w
         end.
  Proof.
    intros paths st1. subst paths st1.
    rewrite visit_run_unf, bindM_eq, find_html_path_warn.
    fold (run_style_path o sid sname).
    cbv zeta.
    destruct (existsb is_ignore _); [reflexivity|].
    rewrite bindM_eq, va_def_eq.
    destruct (visit_list o cm cs hdr _) as [[content st']| |]; reflexivity.
  Qed.

  Theorem apply_paths_no_ignore (paths : list hpath) (inner : list (node str)) :
    existsb is_ignore paths = false ->
    apply_paths paths inner = fold_right (fun t acc => [Elem t acc]) inner (flat_map path_tags (rev paths)).
  Proof.
    unfold apply_paths. revert inner. induction paths as [|p ps IHps]; intros inner Hex.
    - reflexivity.
    - simpl in Hex. apply orb_false_iff in Hex. destruct Hex as [Hp Hps].
      destruct p as [|l]; [discriminate Hp|].
      simpl. rewrite IHps by exact Hps.
      rewrite flat_map_app, fold_right_app. simpl. rewrite app_nil_r. reflexivity.
  Qed.

  (* an unformatted, unstyled, unmapped run adds no element at all *)
  Theorem plain_run_adds_nothing cs hdr st :
    find_style (o_style_map o) (TRun None None) = None ->
    visit o cm (DRun cs None None false false false false false false s_baseline None) hdr st
    = visit_list o cm cs hdr st.
  Proof.
    intros Hf. rewrite visit_run_eq.
    unfold run_prop_paths, run_style_path, has_style, style_warning. rewrite Hf. simpl.
    destruct (visit_list o cm cs hdr st) as [[content st']| |]; reflexivity.
  Qed.

  Theorem prop_path_default (t : target) (d : option str) :
    find_style (o_style_map o) t = None ->
    prop_path o t d = match d with Some x => PElems [coll_tag x []] | None => PElems [] end.
  Proof. intros Hf. unfold prop_path. rewrite Hf. reflexivity. Qed.

  (* break: the mapped path, else br for line breaks only *)
  Theorem visit_break_eq bt hdr st :
    visit o cm (DBreak bt) hdr st =
    Ok (match find_style (o_style_map o) (TBreak bt) with
        | Some s => match s_path s with PIgnore => [] | PElems l => wrap_elems l [] end
        | None => if str_eqb bt s_line then [Elem (fresh_tag [98;114]) []] else []
        end, st).
  Proof.
    rewrite visit_break_unf.
    destruct (find_style (o_style_map o) (TBreak bt)) as [s|]; reflexivity.
  Qed.

  (* ---------- tables (C09) ---------- *)
  Theorem visit_cell_eq cs colspan rowspan hdr st :
    visit o cm (DTableCell cs colspan rowspan) hdr st =
    match visit_list o cm cs hdr st with
    | Ok (content, st') =>
        Ok ([Elem (plain_tag (if hdr then [116;104] else [116;100])
                     ((if N.eqb colspan 1 then [] else [([99;111;108;115;112;97;110], str_of_N colspan)])
                      ++ (if N.eqb rowspan 1 then [] else [([114;111;119;115;112;97;110], str_of_N rowspan)])))
                  (Force :: content)], st')
    | LineError => LineError
    | Crash w => Crash w
    end.
  Proof.
    rewrite visit_cell_unf. cbv zeta. rewrite bindM_eq, va_def_eq.
    destruct (visit_list o cm cs hdr st) as [[content st']| |]; try reflexivity.
    destruct (N.eqb colspan 1), (N.eqb rowspan 1); reflexivity.
  Qed.

  Theorem visit_row_eq cs h hdr st :
    visit o cm (DTableRow cs h) hdr st =
    match visit_list o cm cs hdr st with
    | Ok (content, st') => Ok ([Elem (plain_tag [116;114] []) (Force :: content)], st')
    | LineError => LineError
    | Crash w => Crash w
    end.
  Proof.
    rewrite visit_row_unf, bindM_eq, va_def_eq.
    destruct (visit_list o cm cs hdr st) as [[content st']| |]; reflexivity.
  Qed.

  (* leading header rows / the rest *)
  Definition is_head (c : delem) : bool := match c with DTableRow _ true => true | _ => false end.
  Fixpoint take_heads (l : list delem) : list delem :=
    match l with c :: l' => if is_head c then c :: take_heads l' else [] | [] => [] end.
  Fixpoint drop_heads (l : list delem) : list delem :=
    match l with c :: l' => if is_head c then drop_heads l' else l | [] => [] end.

  Lemma vt_def_cons c l inhead :
    vt_def o cm (c :: l) inhead =
    (r <~ visit o cm c (inhead && is_head c) ;;
     rest <~ vt_def o cm l (inhead && is_head c) ;;
     retM (if inhead && is_head c then (r ++ fst rest, snd rest) else (fst rest, r ++ snd rest))).
  Proof. reflexivity. Qed.

  Lemma vt_def_false l st :
    vt_def o cm l false st =
    match visit_list o cm l false st with
    | Ok (b, st') => Ok (([], b), st')
    | LineError => LineError
    | Crash w => Crash w
    end.
  Proof.
    revert st. induction l as [|c l IHl]; intros st.
    - reflexivity.
    - rewrite vt_def_cons, visit_list_cons. cbn [andb]. rewrite !bindM_eq.
      destruct (visit o cm c false st) as [[r st1]| |]; try reflexivity.
      rewrite !bindM_eq, IHl.
      destruct (visit_list o cm l false st1) as [[b st2]| |]; reflexivity.
  Qed.

  Lemma vt_def_true l st :
    vt_def o cm l true st =
    match visit_list o cm (take_heads l) true st with
    | Ok (h, st1) =>
        match visit_list o cm (drop_heads l) false st1 with
        | Ok (b, st2) => Ok ((h, b), st2)
        | LineError => LineError
        | Crash w => Crash w
        end
    | LineError => LineError
    | Crash w => Crash w
    end.
  Proof.
    revert st. induction l as [|c l IHl]; intros st.
    - reflexivity.
    - rewrite vt_def_cons. cbn [andb take_heads drop_heads].
      destruct (is_head c) eqn:Hc.
      + rewrite visit_list_cons, !bindM_eq.
        destruct (visit o cm c true st) as [[r st1]| |]; try reflexivity.
        rewrite !bindM_eq, IHl.
        destruct (visit_list o cm (take_heads l) true st1) as [[h st2]| |]; try reflexivity.
        cbv beta iota delta [retM].
        destruct (visit_list o cm (drop_heads l) false st2) as [[b st3]| |]; reflexivity.
      + rewrite visit_list_cons, !bindM_eq.
        change (visit_list o cm [] true st) with (Ok (@nil (node str), st)). cbv iota beta.
        rewrite bindM_eq.
        destruct (visit o cm c false st) as [[r st1]| |]; try reflexivity.
        rewrite !bindM_eq, vt_def_false.
        destruct (visit_list o cm l false st1) as [[b st2]| |]; reflexivity.
  Qed.

  Theorem visit_table_eq cs sid sname hdr st l :
    table_path o sid sname = PElems l ->
    visit o cm (DTable cs sid sname) hdr st =
    match take_heads cs with
    | [] =>
        match visit_list o cm cs false st with
        | Ok (content, st') => Ok (wrap_elems l (Force :: content), st')
        | LineError => LineError
        | Crash w => Crash w
        end
    | heads =>
        match visit_list o cm heads true st with
        | Ok (h, st1) =>
            match visit_list o cm (drop_heads cs) false st1 with
            | Ok (b, st2) => Ok (wrap_elems l [Force; Elem (plain_tag [116;104;101;97;100] []) h;
                                                Elem (plain_tag [116;98;111;100;121] []) b], st2)
            | LineError => LineError
            | Crash w => Crash w
            end
        | LineError => LineError
        | Crash w => Crash w
        end
    end.
  Proof.
    intros Hp. unfold table_path in Hp.
    rewrite visit_table_unf, bindM_eq, find_html_path_nowarn, Hp. cbv iota beta.
    rewrite bindM_eq, vt_def_true.
    destruct cs as [|c0 cs'].
    - reflexivity.
    - fold (is_head c0). cbn [take_heads drop_heads].
      destruct (is_head c0) eqn:Hc.
      + destruct (visit_list o cm (c0 :: take_heads cs') true st) as [[h st1]| |]; try reflexivity.
        destruct (visit_list o cm (drop_heads cs') false st1) as [[b st2]| |]; reflexivity.
      + change (visit_list o cm [] true st) with (Ok (@nil (node str), st)). cbv iota beta.
        destruct (visit_list o cm (c0 :: cs') false st) as [[b st2]| |]; reflexivity.
  Qed.
End Rules.
