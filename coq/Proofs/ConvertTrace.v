(* The visitor against the reading-order specification (C01, C10, C16, C17): statements fixed; proofs to be filled. *)
From Mammoth Require Import Convert ConvertSpec WriterSpec HtmlCollapseSpec.
From Mammoth Require Import StrFacts HtmlStrip HtmlCollapse WriterFacts ParserFacts ConvertFacts.
From Coq Require Import Lia.
Local Open Scope N_scope.

Section Trace.
  Variable o : copts.
  Variable cm : list comment.

  (* THE inductive fact: whatever the visitor returns, its text, the note references it registered,
     the comment references it rendered, the warnings it emitted and the image-converter calls it made
     are exactly those of the reading-order traversal `walk`, appended to the state it started from *)
  Theorem visit_walk (e : delem) (hdr : bool) (st st' : cstate) (ns : list (node str)) :
    visit o cm e hdr st = Ok (ns, st') ->
    let w := walk o cm e (st_nn st) (st_nc st) (st_imgs st) in
    forest_text ns = t_text w /\
    st_notes st' = st_notes st ++ t_refs w /\
    map (fun lc => c_id (snd lc)) (st_comments st') = map (fun lc => c_id (snd lc)) (st_comments st) ++ t_crefs w /\
    st_msgs st' = st_msgs st ++ t_msgs w /\
    st_imgs st' = st_imgs st + t_imgs w.
  Proof.
    intros H. destruct (visit_ok o cm e hdr st st' ns H) as [(H1 & _ & _) (S1 & S2 & S3 & S4)].
    cbv zeta. split; [exact H1|]. split; [exact S1|]. split; [exact S2|]. split; [exact S3 | exact S4].
  Qed.

  Theorem visit_list_walk (l : list delem) (hdr : bool) (st st' : cstate) (ns : list (node str)) :
    visit_list o cm l hdr st = Ok (ns, st') ->
    let w := walk_list o cm l (st_nn st) (st_nc st) (st_imgs st) in
    forest_text ns = t_text w /\
    st_notes st' = st_notes st ++ t_refs w /\
    map (fun lc => c_id (snd lc)) (st_comments st') = map (fun lc => c_id (snd lc)) (st_comments st) ++ t_crefs w /\
    st_msgs st' = st_msgs st ++ t_msgs w /\
    st_imgs st' = st_imgs st + t_imgs w.
  Proof.
    intros H. destruct (visit_list_ok o cm l (all_Pv o cm l) hdr st st' ns H) as [(H1 & _ & _) (S1 & S2 & S3 & S4)].
    cbv zeta. split; [exact H1|]. split; [exact S1|]. split; [exact S2|]. split; [exact S3 | exact S4].
  Qed.

  (* the only way the visitor can fail is a rendered comment reference whose comment does not exist *)
  Theorem visit_total (e : delem) (hdr : bool) (st : cstate) :
    crefs_resolve cm (t_crefs (walk o cm e (st_nn st) (st_nc st) (st_imgs st))) = true ->
    exists ns st', visit o cm e hdr st = Ok (ns, st').
  Proof. intros H. exact (visit_total_all o cm e hdr st H). Qed.

  (* C17: the img elements in the output are exactly those of the images visited, in order, unless
     the style map itself generates elements named img *)
  Theorem visit_images (e : delem) (hdr : bool) (st st' : cstate) (ns : list (node str)) :
    Forall (fun t => str_eqb (tname t) [105;109;103] = false) (style_tags (o_style_map o)) ->
    visit o cm e hdr st = Ok (ns, st') ->
    flat_map img_elems ns = t_imgnodes (walk o cm e (st_nn st) (st_nc st) (st_imgs st)).
  Proof.
    intros Himg H. destruct (visit_ok o cm e hdr st st' ns H) as [(_ & H2 & _) _]. exact (H2 Himg).
  Qed.

  (* C16: a subtree without anomalies emits no warning *)
  Theorem walk_clean (e : delem) (nn nc ni : N) : clean o e = true -> t_msgs (walk o cm e nn nc ni) = [].
  Proof. intros H. exact (walk_clean_all o cm e nn nc ni H). Qed.

  (* the forest only contains separators / non-plain names that the style map put there *)
  Theorem visit_no_sep (e : delem) (hdr : bool) (st st' : cstate) (ns : list (node str)) :
    Forall (fun t => tag_no_sep t = true) (style_tags (o_style_map o)) ->
    visit o cm e hdr st = Ok (ns, st') -> forallb no_sep_node ns = true.
  Proof.
    intros Hs H. destruct (visit_ok o cm e hdr st st' ns H) as [(_ & _ & H3) _].
    apply tags_no_sep. revert H3. apply Forall_impl. intros t Ht. exact (tag_ok_no_sep o t Hs Ht).
  Qed.

  Theorem visit_plain (e : delem) (hdr : bool) (st st' : cstate) (ns : list (node str)) :
    Forall (fun t => plain_name (tname t) = true /\ forallb (fun kv => plain_name (fst kv)) (tattrs t) = true)
           (style_tags (o_style_map o)) ->
    visit o cm e hdr st = Ok (ns, st') -> forallb plain_node ns = true.
  Proof.
    intros Hs H. destruct (visit_ok o cm e hdr st st' ns H) as [(_ & _ & H3) _].
    apply tags_plain. revert H3. apply Forall_impl. intros t Ht. exact (tag_ok_plain o t Hs Ht).
  Qed.

  (* C10: note reference k is labelled [k] and carries the ids derived from (type, id) *)
  Theorem visit_noteref_eq (ty id : str) (hdr : bool) (st : cstate) :
    visit o cm (DNoteRef ty id) hdr st =
    Ok (note_ref_nodes o ty id (st_nn st + 1),
        mkSt (st_msgs st) (st_notes st ++ [(ty, id)]) (st_comments st) (st_imgs st)).
  Proof. rewrite visit_DNoteRef, of_nat_app_length. reflexivity. Qed.

  (* the notes list: one li per note, in order, with the referent id; its last child links back to the reference id *)
  Theorem visit_notes_shape (ns : list note) (st st' : cstate) (nl : list (node str)) :
    visit_notes o cm ns st = Ok (nl, st') ->
    map (node_attr [105;100]) nl = map (fun n => Some (referent_id o (n_type n) (n_id n))) ns /\
    Forall2 (fun li n => exists body, li = Elem (plain_tag [108;105] [([105;100], referent_id o (n_type n) (n_id n))])
                                             (body ++ [back_link (reference_id o (n_type n) (n_id n))])) nl ns.
  Proof.
    intros H. destruct (visit_notes_ok o cm ns st st' nl H) as [_ HF2]. split; [|exact HF2].
    clear H. induction HF2 as [|li n nl0 ns0 [body ->] _ IH]; [reflexivity|].
    cbn [map]. rewrite IH. reflexivity.
  Qed.

  Theorem visit_notes_walk (ns : list note) (st st' : cstate) (nl : list (node str)) :
    visit_notes o cm ns st = Ok (nl, st') ->
    let w := notes_trace o cm ns (st_nn st) (st_nc st) (st_imgs st) in
    forest_text nl = t_text w /\ st_notes st' = st_notes st ++ t_refs w /\ st_msgs st' = st_msgs st ++ t_msgs w.
  Proof.
    intros H. destruct (visit_notes_ok o cm ns st st' nl H) as [[(H1 & _ & _) (S1 & _ & S3 & _)] _].
    cbv zeta. split; [exact H1|]. split; [exact S1 | exact S3].
  Qed.
End Trace.

Theorem resolve_notes_spec (refs : list (str * str)) (ns : list note) (l : list note) :
  resolve_notes refs ns = Ok l -> map (fun n => (n_type n, n_id n)) l = refs.
Proof. apply resolve_notes_map. Qed.

(* document level *)
Theorem visit_document_shape (o : copts) (d : document) (st : cstate) (forest : list (node str)) :
  visit_document o d init_state = Ok (forest, st) ->
  exists body nl cl st1 notes,
    visit_list o (d_comments d) (d_children d) false init_state = Ok (body, st1) /\
    resolve_notes (st_notes st1) (d_notes d) = Ok notes /\
    forest = body ++ [Elem (plain_tag [111;108] []) nl; Elem (plain_tag [100;108] []) cl] /\
    map (node_attr [105;100]) nl = map (fun r => Some (referent_id o (fst r) (snd r))) (st_notes st1) /\
    st_notes st1 = t_refs (walk_list o (d_comments d) (d_children d) 0 0 0).
Proof.
  intros H. apply visit_document_inv in H.
  destruct H as (body & st1 & notes & nl & st2 & cl & Hb & Hr & Hn & Hc & ->).
  exists body, nl, cl, st1, notes.
  split; [exact Hb|]. split; [exact Hr|]. split; [reflexivity|]. split.
  - destruct (visit_notes_shape o (d_comments d) notes st1 st2 nl Hn) as [Hm _].
    rewrite Hm, <- (resolve_notes_spec _ _ _ Hr), map_map. reflexivity.
  - destruct (visit_list_walk o (d_comments d) _ _ _ _ _ Hb) as (_ & S1 & _). exact S1.
Qed.

(* C16: the messages of a conversion are the warnings of the traversal, each once, in order *)
Theorem convert_messages_unique (o : copts) (d : document) (forest : list (node str)) (msgs : list str) :
  convert_document_forest o d = Ok (forest, msgs) ->
  NoDup msgs /\
  exists st body, visit_document o d init_state = Ok (body, st) /\ msgs = unique str_eqb (st_msgs st).
Proof.
  unfold convert_document_forest.
  destruct (visit_document o d init_state) as [[nodes st]| |w] eqn:Hv; intros H; try discriminate.
  injection H as H1 H2. subst forest msgs. split.
  - apply unique_spec.
  - exists st, nodes. split; reflexivity.
Qed.

(* C01: without separators the HTML text is the text of the visited forest: strip_empty and
   collapse neither lose, duplicate nor reorder text, and the writer's output lexes back to it *)
Theorem convert_text (o : copts) (d : document) (html : str) (msgs : list str) :
  Forall (fun t => tag_no_sep t = true) (style_tags (o_style_map o)) ->
  Forall (fun t => plain_name (tname t) = true /\ forallb (fun kv => plain_name (fst kv)) (tattrs t) = true)
         (style_tags (o_style_map o)) ->
  convert_document_html o d = Ok (html, msgs) ->
  exists nodes st ts,
    visit_document o d init_state = Ok (nodes, st) /\
    lex_html html = Some ts /\ tokens_text ts = forest_text nodes.
Proof.
  intros Hsep Hplain. unfold convert_document_html, convert_document_forest.
  destruct (visit_document o d init_state) as [[nodes st]| |w] eqn:Hv; intros H; try discriminate.
  cbn [obind fst snd] in H. injection H as H1 H2. subst html msgs.
  pose proof (visit_document_tags o d init_state nodes st Hv) as Ht.
  pose proof (strip_empty_tags _ nodes Ht) as Hts.
  pose proof (collapse_tags _ (fun s : str => s) _ Hts) as Htc.
  assert (Hns : forallb no_sep_node (strip_empty nodes) = true).
  { apply tags_no_sep. revert Hts. apply Forall_impl. intros t Hok. exact (tag_ok_no_sep o t Hsep Hok). }
  assert (Hpl : forallb plain_node (collapse (fun s : str => s) (strip_empty nodes)) = true).
  { apply tags_plain. revert Htc. apply Forall_impl. intros t Hok. exact (tag_ok_plain o t Hplain Hok). }
  destruct (write_text _ Hpl) as (ts & Hlex & Htxt).
  exists nodes, st, ts. split; [reflexivity|]. split; [exact Hlex|].
  rewrite Htxt, (collapse_text_nosep _ Hns). apply strip_text.
Qed.
