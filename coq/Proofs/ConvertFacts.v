(* Helper facts for the visitor (Model/Convert.v): monad inversion, a strong induction principle for
   [delem], per-constructor equations for [visit] and [walk], and the combined invariant relating
   the visitor to the reading-order traversal of ConvertSpec.v. *)
From Mammoth Require Import Convert ConvertSpec WriterSpec HtmlCollapseSpec StrFacts HtmlStrip HtmlCollapse.
From Coq Require Import Lia.
Local Open Scope N_scope.

(* ---------- the state monad ---------- *)

Lemma bindM_inv {A B} (m : M A) (f : A -> M B) (st : cstate) (r : B * cstate) :
  bindM m f st = Ok r -> exists a st1, m st = Ok (a, st1) /\ f a st1 = Ok r.
Proof.
  unfold bindM. destruct (m st) as [[a st1]| |w]; intros H; try discriminate.
  exists a, st1. split; [reflexivity | exact H].
Qed.

Lemma bindM_intro {A B} (m : M A) (f : A -> M B) (st st1 : cstate) (a : A) (r : outcome (B * cstate)) :
  m st = Ok (a, st1) -> f a st1 = r -> bindM m f st = r.
Proof. unfold bindM. intros H1 H2. rewrite H1. exact H2. Qed.

Lemma retM_inv {A} (a x : A) (st st' : cstate) : retM a st = Ok (x, st') -> x = a /\ st' = st.
Proof. unfold retM. intros H. injection H as H1 H2. subst. split; reflexivity. Qed.

(* ---------- induction on document elements ---------- *)

Section DelemInd.
  Variable P : delem -> Prop.
  Hypothesis HPara : forall cs sid sname num, Forall P cs -> P (DParagraph cs sid sname num).
  Hypothesis HRun : forall cs sid sname b i u s ac sc va hl, Forall P cs -> P (DRun cs sid sname b i u s ac sc va hl).
  Hypothesis HText : forall s, P (DText s).
  Hypothesis HHyper : forall cs t f, Forall P cs -> P (DHyperlink cs t f).
  Hypothesis HCheck : forall c, P (DCheckbox c).
  Hypothesis HTable : forall cs sid sname, Forall P cs -> P (DTable cs sid sname).
  Hypothesis HRow : forall cs h, Forall P cs -> P (DTableRow cs h).
  Hypothesis HCell : forall cs c r, Forall P cs -> P (DTableCell cs c r).
  Hypothesis HBreak : forall bt, P (DBreak bt).
  Hypothesis HTab : P DTab.
  Hypothesis HImage : forall a c s, P (DImage a c s).
  Hypothesis HBook : forall n, P (DBookmark n).
  Hypothesis HNote : forall t i, P (DNoteRef t i).
  Hypothesis HCref : forall c, P (DCommentRef c).

  Fixpoint delem_ind' (e : delem) : P e :=
    match e with
    | DParagraph cs sid sname num =>
        HPara cs sid sname num
          ((fix go (l : list delem) : Forall P l :=
              match l with [] => Forall_nil P | c :: l' => Forall_cons c (delem_ind' c) (go l') end) cs)
    | DRun cs sid sname b i u s ac sc va hl =>
        HRun cs sid sname b i u s ac sc va hl
          ((fix go (l : list delem) : Forall P l :=
              match l with [] => Forall_nil P | c :: l' => Forall_cons c (delem_ind' c) (go l') end) cs)
    | DText s => HText s
    | DHyperlink cs t f =>
        HHyper cs t f
          ((fix go (l : list delem) : Forall P l :=
              match l with [] => Forall_nil P | c :: l' => Forall_cons c (delem_ind' c) (go l') end) cs)
    | DCheckbox c => HCheck c
    | DTable cs sid sname =>
        HTable cs sid sname
          ((fix go (l : list delem) : Forall P l :=
              match l with [] => Forall_nil P | c :: l' => Forall_cons c (delem_ind' c) (go l') end) cs)
    | DTableRow cs h =>
        HRow cs h
          ((fix go (l : list delem) : Forall P l :=
              match l with [] => Forall_nil P | c :: l' => Forall_cons c (delem_ind' c) (go l') end) cs)
    | DTableCell cs c r =>
        HCell cs c r
          ((fix go (l : list delem) : Forall P l :=
              match l with [] => Forall_nil P | c :: l' => Forall_cons c (delem_ind' c) (go l') end) cs)
    | DBreak bt => HBreak bt
    | DTab => HTab
    | DImage a c s => HImage a c s
    | DBookmark n => HBook n
    | DNoteRef t i => HNote t i
    | DCommentRef c => HCref c
    end.
End DelemInd.

(* ---------- the local fixpoints of [visit], named ---------- *)

Definition va_ (o : copts) (cm : list comment) (hdr : bool) : list delem -> M (list (node str)) :=
  fix va (l : list delem) : M (list (node str)) :=
    match l with
    | [] => retM []
    | c :: l' => a <~ visit o cm c hdr ;; b <~ va l' ;; retM (a ++ b)
    end.

Lemma va_eq (o : copts) (cm : list comment) (hdr : bool) (l : list delem) :
  va_ o cm hdr l = visit_list o cm l hdr.
Proof.
  induction l as [|c l IH].
  - reflexivity.
  - change (va_ o cm hdr (c :: l)) with (a <~ visit o cm c hdr ;; b <~ va_ o cm hdr l ;; retM (a ++ b)).
    rewrite IH. reflexivity.
Qed.

Definition is_head (c : delem) : bool := match c with DTableRow _ true => true | _ => false end.

Definition vt_ (o : copts) (cm : list comment) : list delem -> bool -> M (list (node str) * list (node str)) :=
  fix vt (l : list delem) (inhead : bool) : M (list (node str) * list (node str)) :=
    match l with
    | [] => retM ([], [])
    | c :: l' =>
        let h := inhead && is_head c in
        r <~ visit o cm c h ;;
        rest <~ vt l' h ;;
        retM (if h then (r ++ fst rest, snd rest) else (fst rest, r ++ snd rest))
    end.

Lemma vt_nil o cm inhead : vt_ o cm [] inhead = retM ([], []).
Proof. reflexivity. Qed.

Lemma vt_cons o cm c l inhead :
  vt_ o cm (c :: l) inhead =
  (r <~ visit o cm c (inhead && is_head c) ;;
   rest <~ vt_ o cm l (inhead && is_head c) ;;
   retM (if inhead && is_head c then (r ++ fst rest, snd rest) else (fst rest, r ++ snd rest))).
Proof. reflexivity. Qed.

Section VisitEq.
  Variable o : copts.
  Variable cm : list comment.

  Lemma visit_list_nil hdr : visit_list o cm [] hdr = retM [].
  Proof. reflexivity. Qed.

  Lemma visit_list_cons c l hdr :
    visit_list o cm (c :: l) hdr = (a <~ visit o cm c hdr ;; b <~ visit_list o cm l hdr ;; retM (a ++ b)).
  Proof. reflexivity. Qed.

  Lemma visit_DText s hdr : visit o cm (DText s) hdr = retM [Text s].
  Proof. reflexivity. Qed.

  Lemma visit_DTab hdr : visit o cm DTab hdr = retM [Text [9]].
  Proof. reflexivity. Qed.

  Lemma visit_DParagraph cs sid sname num hdr :
    visit o cm (DParagraph cs sid sname num) hdr =
    (p <~ find_html_path o (TPara sid sname num) (PElems [fresh_tag [112]]) (Some (k_paragraph, sid, sname)) ;;
     match p with
     | PIgnore => retM []
     | PElems l =>
         content <~ visit_list o cm cs hdr ;;
         retM (wrap_elems l (if o_ignore_empty o then content else Force :: content))
     end).
  Proof. rewrite <- (va_eq o cm hdr cs). reflexivity. Qed.

  Lemma visit_DRun cs sid sname bold italic underline strike allcaps smallcaps valign highlight hdr :
    visit o cm (DRun cs sid sname bold italic underline strike allcaps smallcaps valign highlight) hdr =
    (rp <~ find_html_path o (TRun sid sname) (PElems []) (Some (k_run, sid, sname)) ;;
     if existsb is_ignore (run_prop_paths o bold italic underline strike allcaps smallcaps valign highlight ++ [rp])
     then retM (apply_paths (run_prop_paths o bold italic underline strike allcaps smallcaps valign highlight ++ [rp]) [])
     else (content <~ visit_list o cm cs hdr ;;
           retM (apply_paths (run_prop_paths o bold italic underline strike allcaps smallcaps valign highlight ++ [rp])
                             content))).
  Proof. rewrite <- (va_eq o cm hdr cs). reflexivity. Qed.

  Definition hyper_attrs (target : link_target) (frame : option str) : list (str * str) :=
    let href := match target with LHref h => h | LAnchor a => [35] ++ html_id o a end in
    let attrs := attrs_set [104;114;101;102] href [] in
    match frame with Some f => attrs_set [116;97;114;103;101;116] f attrs | None => attrs end.

  Lemma visit_DHyperlink cs target frame hdr :
    visit o cm (DHyperlink cs target frame) hdr =
    (content <~ visit_list o cm cs hdr ;; retM [Elem (coll_tag [97] (hyper_attrs target frame)) content]).
  Proof. rewrite <- (va_eq o cm hdr cs). reflexivity. Qed.

  Definition checkbox_attrs (checked : bool) : list (str * str) :=
    let attrs := attrs_set [116;121;112;101] [99;104;101;99;107;98;111;120] [] in
    if checked then attrs_set [99;104;101;99;107;101;100] [99;104;101;99;107;101;100] attrs else attrs.

  Lemma visit_DCheckbox checked hdr :
    visit o cm (DCheckbox checked) hdr = retM [Elem (plain_tag [105;110;112;117;116] (checkbox_attrs checked)) []].
  Proof. reflexivity. Qed.

  Lemma visit_DBookmark name hdr :
    visit o cm (DBookmark name) hdr = retM [Elem (coll_tag [97] [([105;100], html_id o name)]) [Force]].
  Proof. reflexivity. Qed.

  Lemma visit_DTable cs sid sname hdr :
    visit o cm (DTable cs sid sname) hdr =
    (p <~ find_html_path o (TTable sid sname) (PElems [fresh_tag [116;97;98;108;101]]) None ;;
     match p with
     | PIgnore => retM []
     | PElems l =>
         hb <~ vt_ o cm cs true ;;
         match cs with
         | c0 :: _ =>
             if is_head c0
             then retM (wrap_elems l [Force; Elem (plain_tag [116;104;101;97;100] []) (fst hb);
                                      Elem (plain_tag [116;98;111;100;121] []) (snd hb)])
             else retM (wrap_elems l (Force :: snd hb))
         | [] => retM (wrap_elems l [Force])
         end
     end).
  Proof. reflexivity. Qed.

  Lemma visit_DTableRow cs h hdr :
    visit o cm (DTableRow cs h) hdr =
    (content <~ visit_list o cm cs hdr ;; retM [Elem (plain_tag [116;114] []) (Force :: content)]).
  Proof. rewrite <- (va_eq o cm hdr cs). reflexivity. Qed.

  Definition cell_attrs (colspan rowspan : N) : list (str * str) :=
    let attrs := if N.eqb colspan 1 then [] else attrs_set [99;111;108;115;112;97;110] (str_of_N colspan) [] in
    if N.eqb rowspan 1 then attrs else attrs_set [114;111;119;115;112;97;110] (str_of_N rowspan) attrs.

  Lemma visit_DTableCell cs colspan rowspan hdr :
    visit o cm (DTableCell cs colspan rowspan) hdr =
    (content <~ visit_list o cm cs hdr ;;
     retM [Elem (plain_tag (if hdr then [116;104] else [116;100]) (cell_attrs colspan rowspan)) (Force :: content)]).
  Proof. rewrite <- (va_eq o cm hdr cs). reflexivity. Qed.

  Lemma visit_DBreak bt hdr :
    visit o cm (DBreak bt) hdr =
    match find_style (o_style_map o) (TBreak bt) with
    | Some s => retM (match s_path s with PIgnore => [] | PElems l => wrap_elems l [] end)
    | None => retM (if str_eqb bt s_line then [Elem (fresh_tag [98;114]) []] else [])
    end.
  Proof. reflexivity. Qed.

  Lemma visit_DImage alt ctype src hdr : visit o cm (DImage alt ctype src) hdr = visit_image o alt ctype src.
  Proof. reflexivity. Qed.

  Lemma visit_DNoteRef ty id hdr st :
    visit o cm (DNoteRef ty id) hdr st =
    Ok (note_ref_nodes o ty id (N.of_nat (length (st_notes st ++ [(ty, id)]))),
        mkSt (st_msgs st) (st_notes st ++ [(ty, id)]) (st_comments st) (st_imgs st)).
  Proof. reflexivity. Qed.

  Definition cref_label (c : comment) (st : cstate) : str :=
    [91] ++ (match c_initials c with Some i => i | None => [] end)
         ++ str_of_N (N.of_nat (length (st_comments st)) + 1) ++ [93].

  Definition cref_anchor (cid : str) (label : str) : node str :=
    Elem (plain_tag [97] (attrs_set [104;114;101;102] ([35] ++ referent_id o [99;111;109;109;101;110;116] cid)
                            (attrs_set [105;100] (reference_id o [99;111;109;109;101;110;116] cid) [])))
         [Text label].

  Lemma visit_DCommentRef cid hdr :
    visit o cm (DCommentRef cid) hdr =
    match comment_ref_path o with
    | PIgnore => retM []
    | PElems l =>
        fun st =>
          match find_comment cid cm None with
          | None => Crash 10
          | Some c =>
              Ok (wrap_elems l [cref_anchor cid (cref_label c st)],
                  mkSt (st_msgs st) (st_notes st) (st_comments st ++ [(cref_label c st, c)]) (st_imgs st))
          end
    end.
  Proof.
    unfold comment_ref_path.
    change (visit o cm (DCommentRef cid) hdr) with
      (match find_style (o_style_map o) TCommentRef with
       | None | Some {| s_path := PIgnore |} => retM []
       | Some {| s_path := PElems l |} =>
           fun st =>
             match find_comment cid cm None with
             | None => Crash 10
             | Some c =>
                 Ok (wrap_elems l [cref_anchor cid (cref_label c st)],
                     mkSt (st_msgs st) (st_notes st) (st_comments st ++ [(cref_label c st, c)]) (st_imgs st))
             end
       end).
    destruct (find_style (o_style_map o) TCommentRef) as [[m [|l]]|]; reflexivity.
  Qed.
End VisitEq.

(* ---------- the local fixpoint of [walk], named ---------- *)

Definition wa_ (o : copts) (cm : list comment) : list delem -> N -> N -> N -> trace :=
  fix wa (l : list delem) (nn nc ni : N) : trace :=
    match l with
    | [] => tr_empty
    | c :: l' =>
        let a := walk o cm c nn nc ni in
        tr_app a (wa l' (nn + N.of_nat (length (t_refs a))) (nc + N.of_nat (length (t_crefs a))) (ni + t_imgs a))
    end.

Lemma wa_eq o cm l : forall nn nc ni, wa_ o cm l nn nc ni = walk_list o cm l nn nc ni.
Proof.
  induction l as [|c l IH]; intros nn nc ni.
  - reflexivity.
  - change (wa_ o cm (c :: l) nn nc ni) with
      (tr_app (walk o cm c nn nc ni)
              (wa_ o cm l (nn + N.of_nat (length (t_refs (walk o cm c nn nc ni))))
                   (nc + N.of_nat (length (t_crefs (walk o cm c nn nc ni))))
                   (ni + t_imgs (walk o cm c nn nc ni)))).
    rewrite IH. reflexivity.
Qed.

Section WalkEq.
  Variable o : copts.
  Variable cm : list comment.

  Lemma walk_list_cons c l nn nc ni :
    walk_list o cm (c :: l) nn nc ni =
    tr_app (walk o cm c nn nc ni)
           (walk_list o cm l (nn + N.of_nat (length (t_refs (walk o cm c nn nc ni))))
                      (nc + N.of_nat (length (t_crefs (walk o cm c nn nc ni))))
                      (ni + t_imgs (walk o cm c nn nc ni))).
  Proof. reflexivity. Qed.

  Lemma walk_DParagraph cs sid sname num nn nc ni :
    walk o cm (DParagraph cs sid sname num) nn nc ni =
    let w := mkTr [] [] [] (style_warning k_paragraph (has_style o (TPara sid sname num)) sid sname) 0 [] in
    if is_ignore (para_path o sid sname num) then w else tr_app w (walk_list o cm cs nn nc ni).
  Proof. rewrite <- wa_eq. reflexivity. Qed.

  Lemma walk_DRun cs sid sname bold italic underline strike allcaps smallcaps valign highlight nn nc ni :
    walk o cm (DRun cs sid sname bold italic underline strike allcaps smallcaps valign highlight) nn nc ni =
    let w := mkTr [] [] [] (style_warning k_run (has_style o (TRun sid sname)) sid sname) 0 [] in
    if existsb is_ignore (run_prop_paths o bold italic underline strike allcaps smallcaps valign highlight
                          ++ [run_style_path o sid sname])
    then w else tr_app w (walk_list o cm cs nn nc ni).
  Proof. rewrite <- wa_eq. reflexivity. Qed.

  Lemma walk_DHyperlink cs t f nn nc ni : walk o cm (DHyperlink cs t f) nn nc ni = walk_list o cm cs nn nc ni.
  Proof. rewrite <- wa_eq. reflexivity. Qed.

  Lemma walk_DTable cs sid sname nn nc ni :
    walk o cm (DTable cs sid sname) nn nc ni =
    if is_ignore (table_path o sid sname) then tr_empty else walk_list o cm cs nn nc ni.
  Proof. rewrite <- wa_eq. reflexivity. Qed.

  Lemma walk_DTableRow cs h nn nc ni : walk o cm (DTableRow cs h) nn nc ni = walk_list o cm cs nn nc ni.
  Proof. rewrite <- wa_eq. reflexivity. Qed.

  Lemma walk_DTableCell cs c r nn nc ni : walk o cm (DTableCell cs c r) nn nc ni = walk_list o cm cs nn nc ni.
  Proof. rewrite <- wa_eq. reflexivity. Qed.
End WalkEq.

Section WalkEqLeaf.
  Variable o : copts.
  Variable cm : list comment.

  Lemma walk_DText s nn nc ni : walk o cm (DText s) nn nc ni = mkTr s [] [] [] 0 [].
  Proof. reflexivity. Qed.
  Lemma walk_DTab nn nc ni : walk o cm DTab nn nc ni = mkTr [9] [] [] [] 0 [].
  Proof. reflexivity. Qed.
  Lemma walk_DCheckbox c nn nc ni : walk o cm (DCheckbox c) nn nc ni = tr_empty.
  Proof. reflexivity. Qed.
  Lemma walk_DBookmark n nn nc ni : walk o cm (DBookmark n) nn nc ni = tr_empty.
  Proof. reflexivity. Qed.
  Lemma walk_DBreak b nn nc ni : walk o cm (DBreak b) nn nc ni = tr_empty.
  Proof. reflexivity. Qed.
  Lemma walk_DImage alt ctype src nn nc ni :
    walk o cm (DImage alt ctype src) nn nc ni =
    match conv_attrs (o_conv o) (ni + 1) alt ctype src with
    | inl m => mkTr [] [] [] [m] (if counts_failed_calls (o_conv o) then 1 else 0) []
    | inr a => mkTr [] [] [] [] 1
                 [Elem (plain_tag [105;109;103] (attrs_update (if truthy alt then [(k_alt, fmt_opt alt)] else []) a)) []]
    end.
  Proof. reflexivity. Qed.
  Lemma walk_DNoteRef ty id nn nc ni :
    walk o cm (DNoteRef ty id) nn nc ni = mkTr ([91] ++ str_of_N (nn + 1) ++ [93]) [(ty, id)] [] [] 0 [].
  Proof. reflexivity. Qed.
  Lemma walk_DCommentRef cid nn nc ni :
    walk o cm (DCommentRef cid) nn nc ni =
    match comment_ref_path o with
    | PIgnore => tr_empty
    | PElems _ =>
        mkTr ([91] ++ (match find_comment cid cm None with
                       | Some c => match c_initials c with Some i => i | None => [] end
                       | None => [] end) ++ str_of_N (nc + 1) ++ [93]) [] [cid] [] 0 []
    end.
  Proof. reflexivity. Qed.
End WalkEqLeaf.

(* ---------- tags of a forest ---------- *)

Definition s_img : str := [105;109;103].
Definition keys_plain (a : list (str * str)) : bool := forallb (fun kv => plain_name (fst kv)) a.
Definition builtin_tag (t : tag) : Prop :=
  tsep t = None /\ plain_name (tname t) = true /\ keys_plain (tattrs t) = true.

Fixpoint node_tags {A} (n : node A) : list tag :=
  match n with Elem t cs => t :: flat_map node_tags cs | _ => [] end.
Definition forest_tags {A} (ns : list (node A)) : list tag := flat_map node_tags ns.

Lemma forest_tags_app {A} (a b : list (node A)) : forest_tags (a ++ b) = forest_tags a ++ forest_tags b.
Proof. unfold forest_tags. apply flat_map_app. Qed.

Lemma keys_plain_set k v d : plain_name k = true -> keys_plain d = true -> keys_plain (attrs_set k v d) = true.
Proof.
  intros Hk. induction d as [|[k' v'] d IH]; intros Hd.
  - simpl. unfold keys_plain. simpl. rewrite Hk. reflexivity.
  - unfold keys_plain in *. cbn [attrs_set]. cbn [forallb fst] in Hd.
    apply andb_true_iff in Hd. destruct Hd as [Hk' Hd].
    destruct (str_eqb k k').
    + cbn [forallb fst]. rewrite Hk, Hd. reflexivity.
    + destruct (str_ltb k k').
      * cbn [forallb fst]. rewrite Hk, Hk', Hd. reflexivity.
      * cbn [forallb fst]. rewrite Hk', (IH Hd). reflexivity.
Qed.

Lemma keys_plain_update d a : keys_plain d = true -> keys_plain a = true -> keys_plain (attrs_update d a) = true.
Proof.
  unfold attrs_update. revert d. induction a as [|[k v] a IH]; intros d Hd Ha.
  - exact Hd.
  - cbn [fold_left fst snd]. unfold keys_plain in Ha. cbn [forallb fst] in Ha.
    apply andb_true_iff in Ha. destruct Ha as [Hk Ha].
    apply IH; [apply keys_plain_set; assumption | exact Ha].
Qed.

Lemma conv_attrs_plain c k alt ct src a : conv_attrs c k alt ct src = inr a -> keys_plain a = true.
Proof.
  unfold conv_attrs. destruct c as [|with_alt| |]; [destruct src| destruct src | | destruct src]; intros H; try discriminate;
    injection H as H; subst a; try reflexivity.
  destruct with_alt; reflexivity.
Qed.

Lemma find_style_In sm t s : find_style sm t = Some s -> In s sm.
Proof.
  induction sm as [|s0 sm IH]; simpl; intros H; [discriminate|].
  destruct (matches (s_matcher s0) t).
  - injection H as H. left. exact H.
  - right. apply IH. exact H.
Qed.

Lemma find_comment_id cid cs : forall found c,
  (forall c0, found = Some c0 -> c_id c0 = cid) -> find_comment cid cs found = Some c -> c_id c = cid.
Proof.
  induction cs as [|c1 cs IH]; intros found c Hf H; simpl in H.
  - apply Hf. exact H.
  - apply (IH _ c) in H; [exact H|]. intros c0 E. destruct (str_eqb (c_id c1) cid) eqn:Ec.
    + injection E as E. subst c0. apply str_eqb_iff. exact Ec.
    + apply Hf. exact E.
Qed.

Lemma of_nat_app_length {X} (a b : list X) :
  N.of_nat (length (a ++ b)) = N.of_nat (length a) + N.of_nat (length b).
Proof. rewrite app_length, Nat2N.inj_add. reflexivity. Qed.

(* ---------- the combined invariant ---------- *)

Definition cidf (lc : str * comment) : str := c_id (snd lc).

Section Inv.
  Variable o : copts.
  Variable cm : list comment.

  Definition sm_tag (t : tag) : Prop := In t (style_tags (o_style_map o)).
  Definition tag_ok (t : tag) : Prop := sm_tag t \/ builtin_tag t.
  Definition wtag (t : tag) : Prop := sm_tag t \/ (builtin_tag t /\ str_eqb (tname t) s_img = false).
  Definition no_img_styles : Prop :=
    Forall (fun t => str_eqb (tname t) s_img = false) (style_tags (o_style_map o)).

  Lemma wtag_ok t : wtag t -> tag_ok t.
  Proof. intros [H|[H _]]; [left|right]; exact H. Qed.

  Lemma wtag_noimg t : no_img_styles -> wtag t -> str_eqb (tname t) s_img = false.
  Proof.
    intros Hn [H|[_ H]]; [|exact H]. unfold no_img_styles in Hn. rewrite Forall_forall in Hn. apply Hn. exact H.
  Qed.

  Lemma wtag_builtin name attrs coll :
    plain_name name = true -> str_eqb name s_img = false -> keys_plain attrs = true ->
    wtag (mkTag name [] attrs coll None).
  Proof. intros H1 H2 H3. right. split; [split; [reflexivity | split; assumption] | exact H2]. Qed.

  Lemma style_path_wtag s : In s (o_style_map o) -> Forall wtag (path_tags (s_path s)).
  Proof.
    intros Hin. apply Forall_forall. intros t Ht. left. unfold sm_tag, style_tags.
    apply in_flat_map. exists s. split; assumption.
  Qed.

  Lemma found_path_wtag t d l :
    Forall wtag d ->
    match find_style (o_style_map o) t with Some s => s_path s | None => PElems d end = PElems l ->
    Forall wtag l.
  Proof.
    intros Hd. destruct (find_style (o_style_map o) t) as [s|] eqn:Hf; intros H.
    - apply find_style_In in Hf. apply style_path_wtag in Hf. rewrite H in Hf. exact Hf.
    - injection H as H. subst. exact Hd.
  Qed.

  Definition nodes_ok (ns : list (node str)) (tx : str) (im : list (node str)) : Prop :=
    forest_text ns = tx /\ (no_img_styles -> flat_map img_elems ns = im) /\ Forall tag_ok (forest_tags ns).

  Lemma nodes_ok_nil : nodes_ok [] [] [].
  Proof. split; [reflexivity | split; [intros _; reflexivity | constructor]]. Qed.

  Lemma nodes_ok_app a b ta tb ia ib :
    nodes_ok a ta ia -> nodes_ok b tb ib -> nodes_ok (a ++ b) (ta ++ tb) (ia ++ ib).
  Proof.
    intros (A1 & A2 & A3) (B1 & B2 & B3). split; [|split].
    - rewrite forest_text_app, A1, B1. reflexivity.
    - intros Hn. rewrite flat_map_app, (A2 Hn), (B2 Hn). reflexivity.
    - rewrite forest_tags_app. apply Forall_app. split; assumption.
  Qed.

  Lemma nodes_ok_elem t cs tx im : wtag t -> nodes_ok cs tx im -> nodes_ok [Elem t cs] tx im.
  Proof.
    intros Ht (A1 & A2 & A3). split; [|split].
    - rewrite forest_text_single. exact A1.
    - intros Hn. cbn [flat_map img_elems]. rewrite app_nil_r.
      change [105;109;103] with s_img. rewrite (wtag_noimg t Hn Ht). exact (A2 Hn).
    - unfold forest_tags. cbn [flat_map node_tags]. rewrite app_nil_r. constructor; [apply wtag_ok; exact Ht | exact A3].
  Qed.

  Lemma nodes_ok_force ns tx im : nodes_ok ns tx im -> nodes_ok (Force :: ns) tx im.
  Proof. intros H. exact H. Qed.

  Lemma nodes_ok_text s : nodes_ok [Text s] s [].
  Proof.
    split; [apply forest_text_single | split; [intros _; reflexivity | constructor]].
  Qed.

  Lemma nodes_ok_wrap l ns tx im : Forall wtag l -> nodes_ok ns tx im -> nodes_ok (wrap_elems l ns) tx im.
  Proof.
    intros Hl Hn. induction Hl as [|t l Ht Hl IH].
    - exact Hn.
    - cbn [wrap_elems fold_right]. apply nodes_ok_elem; [exact Ht | exact IH].
  Qed.

  Lemma nodes_ok_two t1 t2 a b tx im :
    wtag t1 -> wtag t2 -> nodes_ok (a ++ b) tx im -> nodes_ok [Elem t1 a; Elem t2 b] tx im.
  Proof.
    intros H1 H2 (A1 & A2 & A3). split; [|split].
    - rewrite <- A1. unfold forest_text. cbn [flat_map node_text]. rewrite flat_map_app, app_nil_r. reflexivity.
    - intros Hn. rewrite <- (A2 Hn). cbn [flat_map img_elems]. change [105;109;103] with s_img.
      rewrite (wtag_noimg t1 Hn H1), (wtag_noimg t2 Hn H2), flat_map_app, app_nil_r. reflexivity.
    - rewrite forest_tags_app in A3. apply Forall_app in A3. destruct A3 as [Fa Fb].
      unfold forest_tags. cbn [flat_map node_tags]. rewrite app_nil_r.
      constructor; [apply wtag_ok; exact H1|]. apply Forall_app. split; [exact Fa|].
      constructor; [apply wtag_ok; exact H2 | exact Fb].
  Qed.

  Definition paths_wtag (paths : list hpath) : Prop := Forall (fun p => Forall wtag (path_tags p)) paths.

  Lemma apply_paths_cons p ps inner :
    apply_paths (p :: ps) inner =
    apply_paths ps (match p with PIgnore => [] | PElems l => wrap_elems l inner end).
  Proof. reflexivity. Qed.

  Lemma nodes_ok_paths paths : paths_wtag paths -> existsb is_ignore paths = false ->
    forall inner tx im, nodes_ok inner tx im -> nodes_ok (apply_paths paths inner) tx im.
  Proof.
    intros Hp. induction Hp as [|p ps Hp1 Hps IH]; intros He inner tx im Hn.
    - exact Hn.
    - rewrite apply_paths_cons. cbn [existsb] in He. apply orb_false_iff in He. destruct He as [He1 He2].
      destruct p as [|l]; [discriminate|]. apply IH; [exact He2|]. apply nodes_ok_wrap; [exact Hp1 | exact Hn].
  Qed.

  Lemma nodes_ok_paths_empty paths : paths_wtag paths ->
    forall inner, nodes_ok inner [] [] -> nodes_ok (apply_paths paths inner) [] [].
  Proof.
    intros Hp. induction Hp as [|p ps Hp1 Hps IH]; intros inner Hn.
    - exact Hn.
    - rewrite apply_paths_cons. destruct p as [|l]; apply IH.
      + apply nodes_ok_nil.
      + apply nodes_ok_wrap; [exact Hp1 | exact Hn].
  Qed.

  Lemma prop_path_wtag t d :
    match d with Some x => plain_name x = true /\ str_eqb x s_img = false | None => True end ->
    Forall wtag (path_tags (prop_path o t d)).
  Proof.
    intros Hd. unfold prop_path. destruct (find_style (o_style_map o) t) as [s|] eqn:Hf.
    - apply style_path_wtag. apply find_style_In in Hf. exact Hf.
    - destruct d as [x|]; cbn [path_tags].
      + destruct Hd as [H1 H2]. constructor; [|constructor]. apply wtag_builtin; [exact H1 | exact H2 | reflexivity].
      + constructor.
  Qed.

  Lemma run_prop_paths_wtag b i u s ac sc va hl : paths_wtag (run_prop_paths o b i u s ac sc va hl).
  Proof.
    unfold run_prop_paths, paths_wtag.
    repeat (apply Forall_app; split).
    - destruct hl as [c|]; [|constructor].
      destruct (find_style (o_style_map o) (THighlight c)) as [st|] eqn:Hf; [|constructor].
      constructor; [|constructor]. apply style_path_wtag. apply find_style_In in Hf. exact Hf.
    - destruct sc; constructor; [|constructor]. apply prop_path_wtag. exact I.
    - destruct ac; constructor; [|constructor]. apply prop_path_wtag. exact I.
    - destruct s; constructor; [|constructor]. apply prop_path_wtag. split; reflexivity.
    - destruct u; constructor; [|constructor]. apply prop_path_wtag. exact I.
    - destruct (str_eqb va s_subscript); constructor; [|constructor]. cbn [path_tags].
      constructor; [|constructor]. apply wtag_builtin; reflexivity.
    - destruct (str_eqb va s_superscript); constructor; [|constructor]. cbn [path_tags].
      constructor; [|constructor]. apply wtag_builtin; reflexivity.
    - destruct i; constructor; [|constructor]. apply prop_path_wtag. split; reflexivity.
    - destruct b; constructor; [|constructor]. apply prop_path_wtag. split; reflexivity.
  Qed.

  (* ----- the state part ----- *)
  Definition state_ok (st st' : cstate) (w : trace) : Prop :=
    st_notes st' = st_notes st ++ t_refs w /\
    map cidf (st_comments st') = map cidf (st_comments st) ++ t_crefs w /\
    st_msgs st' = st_msgs st ++ t_msgs w /\
    st_imgs st' = st_imgs st + t_imgs w.

  Definition tr_ok (st st' : cstate) (ns : list (node str)) (w : trace) : Prop :=
    nodes_ok ns (t_text w) (t_imgnodes w) /\ state_ok st st' w.

  Lemma state_ok_refl st tx im : state_ok st st (mkTr tx [] [] [] 0 im).
  Proof.
    unfold state_ok. cbn [t_refs t_crefs t_msgs t_imgs]. rewrite !app_nil_r, N.add_0_r.
    repeat split; reflexivity.
  Qed.

  Lemma state_ok_trans st st1 st2 wa wb :
    state_ok st st1 wa -> state_ok st1 st2 wb -> state_ok st st2 (tr_app wa wb).
  Proof.
    intros (A1 & A2 & A3 & A4) (B1 & B2 & B3 & B4). unfold state_ok, tr_app.
    cbn [t_refs t_crefs t_msgs t_imgs].
    rewrite B1, B2, B3, B4, A1, A2, A3, A4, <- !app_assoc, N.add_assoc. repeat split; reflexivity.
  Qed.

  Lemma state_ok_counters st st1 w :
    state_ok st st1 w ->
    st_nn st1 = st_nn st + N.of_nat (length (t_refs w)) /\
    st_nc st1 = st_nc st + N.of_nat (length (t_crefs w)) /\
    st_imgs st1 = st_imgs st + t_imgs w.
  Proof.
    intros (A1 & A2 & A3 & A4). unfold st_nn, st_nc. split; [|split].
    - rewrite A1. apply of_nat_app_length.
    - rewrite <- (map_length cidf (st_comments st1)), A2, of_nat_app_length, map_length. reflexivity.
    - exact A4.
  Qed.

  Lemma tr_ok_seq st st1 st2 a b wa wb :
    tr_ok st st1 a wa -> tr_ok st1 st2 b wb -> tr_ok st st2 (a ++ b) (tr_app wa wb).
  Proof.
    intros [A1 A2] [B1 B2]. split.
    - apply nodes_ok_app; assumption.
    - exact (state_ok_trans _ _ _ _ _ A2 B2).
  Qed.

  Lemma tr_ok_map st st' ns ns' w :
    tr_ok st st' ns w -> (forall tx im, nodes_ok ns tx im -> nodes_ok ns' tx im) -> tr_ok st st' ns' w.
  Proof. intros [A1 A2] H. split; [apply H; exact A1 | exact A2]. Qed.

  Lemma tr_ok_leaf st ns : nodes_ok ns [] [] -> tr_ok st st ns tr_empty.
  Proof. intros H. split; [exact H | apply state_ok_refl]. Qed.
End Inv.

(* ---------- the visitor satisfies the invariant ---------- *)

Section Main.
  Variable o : copts.
  Variable cm : list comment.

  Lemma find_html_path_warn t d kind sid sname st p st1 :
    find_html_path o t d (Some (kind, sid, sname)) st = Ok (p, st1) ->
    p = match find_style (o_style_map o) t with Some s => s_path s | None => d end /\
    state_ok st st1 (mkTr [] [] [] (style_warning kind (has_style o t) sid sname) 0 []) /\
    st_nn st1 = st_nn st /\ st_nc st1 = st_nc st /\ st_imgs st1 = st_imgs st.
  Proof.
    unfold find_html_path, has_style, style_warning.
    destruct (find_style (o_style_map o) t) as [s|]; [|destruct sid as [i|]]; intros H; injection H as H1 H2; subst p st1.
    - split; [reflexivity|]. split; [apply state_ok_refl|]. repeat split; reflexivity.
    - split; [reflexivity|]. split; [|repeat split; reflexivity].
      unfold state_ok, add_msg. cbn [st_notes st_comments st_msgs st_imgs t_refs t_crefs t_msgs t_imgs].
      rewrite !app_nil_r, N.add_0_r. repeat split; reflexivity.
    - split; [reflexivity|]. split; [apply state_ok_refl|]. repeat split; reflexivity.
  Qed.

  Lemma find_html_path_nowarn t d st p st1 :
    find_html_path o t d None st = Ok (p, st1) ->
    p = match find_style (o_style_map o) t with Some s => s_path s | None => d end /\ st1 = st.
  Proof.
    unfold find_html_path. destruct (find_style (o_style_map o) t) as [s|]; intros H; injection H as H1 H2; subst;
      split; reflexivity.
  Qed.

  Definition Pv (e : delem) : Prop :=
    forall hdr st st' ns, visit o cm e hdr st = Ok (ns, st') ->
      tr_ok o st st' ns (walk o cm e (st_nn st) (st_nc st) (st_imgs st)).

  Lemma visit_list_ok l : Forall Pv l ->
    forall hdr st st' ns, visit_list o cm l hdr st = Ok (ns, st') ->
      tr_ok o st st' ns (walk_list o cm l (st_nn st) (st_nc st) (st_imgs st)).
  Proof.
    intros HF. induction HF as [|c l Hc Hl IH]; intros hdr st st' ns H.
    - rewrite visit_list_nil in H. apply retM_inv in H. destruct H as [-> ->].
      apply tr_ok_leaf. apply nodes_ok_nil.
    - rewrite visit_list_cons in H.
      apply bindM_inv in H. destruct H as (a & st1 & Ha & H).
      apply bindM_inv in H. destruct H as (b & st2 & Hb & H).
      apply retM_inv in H. destruct H as [-> ->].
      rewrite walk_list_cons. apply Hc in Ha. apply IH in Hb.
      destruct (state_ok_counters _ _ _ (proj2 Ha)) as (E1 & E2 & E3).
      rewrite E1, E2, E3 in Hb. exact (tr_ok_seq o _ _ _ _ _ _ _ Ha Hb).
  Qed.

  Lemma vt_ok l : Forall Pv l ->
    forall inhead st st' hb, vt_ o cm l inhead st = Ok (hb, st') ->
      tr_ok o st st' (fst hb ++ snd hb) (walk_list o cm l (st_nn st) (st_nc st) (st_imgs st)) /\
      (inhead && match l with c0 :: _ => is_head c0 | [] => false end = false -> fst hb = []).
  Proof.
    intros HF. induction HF as [|c l Hc Hl IH]; intros inhead st st' hb H.
    - rewrite vt_nil in H. apply retM_inv in H. destruct H as [-> ->]. split.
      + apply tr_ok_leaf. apply nodes_ok_nil.
      + intros _. reflexivity.
    - rewrite vt_cons in H.
      apply bindM_inv in H. destruct H as (r & st1 & Hr & H).
      apply bindM_inv in H. destruct H as (rest & st2 & Hrest & H).
      apply retM_inv in H. destruct H as [-> ->].
      rewrite walk_list_cons. apply Hc in Hr. apply IH in Hrest. destruct Hrest as [Hrest Hfst].
      destruct (state_ok_counters _ _ _ (proj2 Hr)) as (E1 & E2 & E3).
      rewrite E1, E2, E3 in Hrest.
      destruct (inhead && is_head c) eqn:Hh.
      + split; [|intros Hf; discriminate]. cbn [fst snd]. rewrite <- app_assoc.
        exact (tr_ok_seq o _ _ _ _ _ _ _ Hr Hrest).
      + rewrite (Hfst eq_refl) in *. cbn [fst snd app] in *. split; [|intros _; reflexivity].
        exact (tr_ok_seq o _ _ _ _ _ _ _ Hr Hrest).
  Qed.

  Lemma tr_ok_pre st st1 st2 ns wm wl :
    state_ok st st1 wm -> t_text wm = [] -> t_imgnodes wm = [] -> tr_ok o st1 st2 ns wl ->
    tr_ok o st st2 ns (tr_app wm wl).
  Proof.
    intros Hs Ht Hi Hl.
    assert (H0 : tr_ok o st st1 [] wm).
    { split; [rewrite Ht, Hi; apply nodes_ok_nil | exact Hs]. }
    exact (tr_ok_seq o _ _ _ _ _ _ _ H0 Hl).
  Qed.

  Theorem visit_ok (e : delem) : Pv e.
  Proof.
    induction e as [cs sid sname num IH | cs sid sname b i u s ac sc va hl IH | s | cs t f IH | c
                   | cs sid sname IH | cs h IH | cs c r IH | bt | | a c s | n | ty id | cid] using delem_ind';
      intros hdr st st' ns H.
    - (* paragraph *)
      rewrite visit_DParagraph in H. rewrite walk_DParagraph. cbv zeta.
      apply bindM_inv in H. destruct H as (p & st1 & Hp & H).
      apply find_html_path_warn in Hp. destruct Hp as (Ep & Hs & E1 & E2 & E3).
      fold (para_path o sid sname num) in Ep. subst p.
      destruct (para_path o sid sname num) as [|l] eqn:Hpp; cbn [is_ignore].
      + apply retM_inv in H. destruct H as [-> ->]. split; [apply nodes_ok_nil | exact Hs].
      + apply bindM_inv in H. destruct H as (content & st2 & Hc & H).
        apply retM_inv in H. destruct H as [-> ->].
        apply (visit_list_ok cs IH) in Hc. rewrite E1, E2, E3 in Hc.
        apply (tr_ok_map o _ _ content).
        * apply (tr_ok_pre _ _ _ _ _ _ Hs eq_refl eq_refl Hc).
        * intros tx im Hn. apply nodes_ok_wrap.
          -- unfold para_path in Hpp. apply (found_path_wtag o _ _ _) in Hpp; [exact Hpp|].
             constructor; [|constructor]. apply wtag_builtin; reflexivity.
          -- destruct (o_ignore_empty o); [exact Hn | apply nodes_ok_force; exact Hn].
    - (* run *)
      rewrite visit_DRun in H. rewrite walk_DRun. cbv zeta.
      apply bindM_inv in H. destruct H as (p & st1 & Hp & H).
      apply find_html_path_warn in Hp. destruct Hp as (Ep & Hs & E1 & E2 & E3).
      fold (run_style_path o sid sname) in Ep. subst p.
      assert (Hpw : paths_wtag o (run_prop_paths o b i u s ac sc va hl ++ [run_style_path o sid sname])).
      { apply Forall_app. split; [apply run_prop_paths_wtag|]. constructor; [|constructor].
        unfold run_style_path. destruct (find_style (o_style_map o) (TRun sid sname)) as [s0|] eqn:Hf.
        - apply style_path_wtag. apply find_style_In in Hf. exact Hf.
        - constructor. }
      destruct (existsb is_ignore (run_prop_paths o b i u s ac sc va hl ++ [run_style_path o sid sname])) eqn:Hex.
      + apply retM_inv in H. destruct H as [-> ->]. split; [|exact Hs].
        apply nodes_ok_paths_empty; [exact Hpw | apply nodes_ok_nil].
      + apply bindM_inv in H. destruct H as (content & st2 & Hc & H).
        apply retM_inv in H. destruct H as [-> ->].
        apply (visit_list_ok cs IH) in Hc. rewrite E1, E2, E3 in Hc.
        apply (tr_ok_map o _ _ content).
        * apply (tr_ok_pre _ _ _ _ _ _ Hs eq_refl eq_refl Hc).
        * intros tx im Hn. apply nodes_ok_paths; assumption.
    - (* text *)
      rewrite visit_DText in H. apply retM_inv in H. destruct H as [-> ->]. rewrite walk_DText.
      split; [apply nodes_ok_text | apply state_ok_refl].
    - (* hyperlink *)
      rewrite visit_DHyperlink in H. rewrite walk_DHyperlink.
      apply bindM_inv in H. destruct H as (content & st2 & Hc & H).
      apply retM_inv in H. destruct H as [-> ->].
      apply (visit_list_ok cs IH) in Hc. apply (tr_ok_map o _ _ content); [exact Hc|].
      intros tx im Hn. apply nodes_ok_elem; [|exact Hn].
      apply wtag_builtin; [reflexivity | reflexivity |].
      unfold hyper_attrs. cbv zeta. destruct f as [fr|]; repeat (apply keys_plain_set; [reflexivity|]); reflexivity.
    - (* checkbox *)
      rewrite visit_DCheckbox in H. apply retM_inv in H. destruct H as [-> ->]. rewrite walk_DCheckbox.
      apply tr_ok_leaf. apply nodes_ok_elem; [|apply nodes_ok_nil].
      apply wtag_builtin; [reflexivity | reflexivity |]. destruct c; reflexivity.
    - (* table *)
      rewrite visit_DTable in H. rewrite walk_DTable.
      apply bindM_inv in H. destruct H as (p & st1 & Hp & H).
      apply find_html_path_nowarn in Hp. destruct Hp as [Ep ->].
      fold (table_path o sid sname) in Ep. subst p.
      destruct (table_path o sid sname) as [|l] eqn:Hpp; cbn [is_ignore].
      + apply retM_inv in H. destruct H as [-> ->]. apply tr_ok_leaf. apply nodes_ok_nil.
      + assert (Hl : Forall (wtag o) l).
        { unfold table_path in Hpp. apply (found_path_wtag o _ _ _) in Hpp; [exact Hpp|].
          constructor; [|constructor]. apply wtag_builtin; reflexivity. }
        apply bindM_inv in H. destruct H as (hb & st2 & Hvt & H).
        destruct cs as [|c0 cs'].
        * rewrite vt_nil in Hvt. apply retM_inv in Hvt. destruct Hvt as [-> ->].
          apply retM_inv in H. destruct H as [-> ->].
          apply tr_ok_leaf. apply nodes_ok_wrap; [exact Hl|]. apply nodes_ok_force. apply nodes_ok_nil.
        * apply (vt_ok (c0 :: cs') IH) in Hvt. destruct Hvt as [Hvt Hfst].
          destruct (is_head c0) eqn:Hc0.
          -- apply retM_inv in H. destruct H as [-> ->].
             apply (tr_ok_map o _ _ _ _ _ Hvt). intros tx im Hn.
             apply nodes_ok_wrap; [exact Hl|]. apply nodes_ok_force.
             apply nodes_ok_two; [apply wtag_builtin; reflexivity | apply wtag_builtin; reflexivity | exact Hn].
          -- apply retM_inv in H. destruct H as [-> ->].
             apply (tr_ok_map o _ _ _ _ _ Hvt). intros tx im Hn.
             rewrite (Hfst eq_refl) in Hn.
             apply nodes_ok_wrap; [exact Hl|]. apply nodes_ok_force. exact Hn.
    - (* row *)
      rewrite visit_DTableRow in H. rewrite walk_DTableRow.
      apply bindM_inv in H. destruct H as (content & st2 & Hc & H).
      apply retM_inv in H. destruct H as [-> ->].
      apply (visit_list_ok cs IH) in Hc. apply (tr_ok_map o _ _ content); [exact Hc|].
      intros tx im Hn. apply nodes_ok_elem; [|apply nodes_ok_force; exact Hn].
      apply wtag_builtin; reflexivity.
    - (* cell *)
      rewrite visit_DTableCell in H. rewrite walk_DTableCell.
      apply bindM_inv in H. destruct H as (content & st2 & Hc & H).
      apply retM_inv in H. destruct H as [-> ->].
      apply (visit_list_ok cs IH) in Hc. apply (tr_ok_map o _ _ content); [exact Hc|].
      intros tx im Hn. apply nodes_ok_elem; [|apply nodes_ok_force; exact Hn].
      apply wtag_builtin; [destruct hdr; reflexivity | destruct hdr; reflexivity |].
      unfold cell_attrs. cbv zeta. destruct (N.eqb c 1); destruct (N.eqb r 1);
        repeat (apply keys_plain_set; [reflexivity|]); reflexivity.
    - (* break *)
      rewrite visit_DBreak in H. rewrite walk_DBreak.
      destruct (find_style (o_style_map o) (TBreak bt)) as [s|] eqn:Hf.
      + apply retM_inv in H. destruct H as [-> ->]. apply tr_ok_leaf.
        apply find_style_In in Hf. apply style_path_wtag in Hf.
        destruct (s_path s) as [|l]; [apply nodes_ok_nil|].
        apply nodes_ok_wrap; [exact Hf | apply nodes_ok_nil].
      + apply retM_inv in H. destruct H as [-> ->]. apply tr_ok_leaf.
        destruct (str_eqb bt s_line); [|apply nodes_ok_nil].
        apply nodes_ok_elem; [apply wtag_builtin; reflexivity | apply nodes_ok_nil].
    - (* tab *)
      rewrite visit_DTab in H. apply retM_inv in H. destruct H as [-> ->]. rewrite walk_DTab.
      split; [apply nodes_ok_text | apply state_ok_refl].
    - (* image *)
      rewrite visit_DImage in H. rewrite walk_DImage. unfold visit_image in H. cbv zeta in H.
      destruct (conv_attrs (o_conv o) (st_imgs st + 1) a c s) as [m|at_] eqn:Hca.
      + injection H as H1 H2. subst ns st'. split; [apply nodes_ok_nil|].
        destruct (counts_failed_calls (o_conv o));
          unfold state_ok, add_msg; cbn [st_notes st_comments st_msgs st_imgs t_refs t_crefs t_msgs t_imgs];
          rewrite ?app_nil_r, ?N.add_0_r; repeat split; reflexivity.
      + injection H as H1 H2. subst ns st'. split.
        * cbn [t_text t_imgnodes]. split; [reflexivity|]. split; [intros _; reflexivity|].
          unfold forest_tags. cbn [flat_map node_tags app]. constructor; [|constructor].
          right. split; [reflexivity|]. split; [reflexivity|]. cbn [tattrs plain_tag].
          apply keys_plain_update; [destruct (truthy a); reflexivity | exact (conv_attrs_plain _ _ _ _ _ _ Hca)].
        * unfold state_ok. cbn [st_notes st_comments st_msgs st_imgs t_refs t_crefs t_msgs t_imgs].
          rewrite !app_nil_r. repeat split; reflexivity.
    - (* bookmark *)
      rewrite visit_DBookmark in H. apply retM_inv in H. destruct H as [-> ->]. rewrite walk_DBookmark.
      apply tr_ok_leaf. apply nodes_ok_elem; [apply wtag_builtin; reflexivity|].
      apply nodes_ok_force. apply nodes_ok_nil.
    - (* note reference *)
      rewrite visit_DNoteRef in H. injection H as H1 H2. subst ns st'. rewrite walk_DNoteRef.
      rewrite of_nat_app_length. change (N.of_nat (length [(ty, id)])) with 1. fold (st_nn st).
      split.
      + cbn [t_text t_imgnodes]. unfold note_ref_nodes. split; [|split].
        * unfold forest_text. cbn [flat_map node_text]. rewrite !app_nil_r. reflexivity.
        * intros _. reflexivity.
        * unfold forest_tags. cbn [flat_map node_tags app]. constructor; [|constructor; [|constructor]].
          -- right. split; [reflexivity|]. split; reflexivity.
          -- right. split; [reflexivity|]. split; [reflexivity|]. cbn [tattrs plain_tag].
             repeat (apply keys_plain_set; [reflexivity|]). reflexivity.
      + unfold state_ok. cbn [st_notes st_comments st_msgs st_imgs t_refs t_crefs t_msgs t_imgs].
        rewrite !app_nil_r, N.add_0_r. repeat split; reflexivity.
    - (* comment reference *)
      rewrite visit_DCommentRef in H. rewrite walk_DCommentRef.
      destruct (comment_ref_path o) as [|l] eqn:Hcp.
      + apply retM_inv in H. destruct H as [-> ->]. apply tr_ok_leaf. apply nodes_ok_nil.
      + destruct (find_comment cid cm None) as [c|] eqn:Hfc; [|discriminate].
        injection H as H1 H2. subst ns st'.
        assert (Hl : Forall (wtag o) l).
        { unfold comment_ref_path in Hcp.
          destruct (find_style (o_style_map o) TCommentRef) as [s|] eqn:Hf; [|discriminate].
          apply find_style_In in Hf. apply style_path_wtag in Hf. rewrite Hcp in Hf. exact Hf. }
        split.
        * cbn [t_text t_imgnodes]. apply nodes_ok_wrap; [exact Hl|]. unfold cref_anchor.
          apply nodes_ok_elem; [|apply nodes_ok_text].
          apply wtag_builtin; [reflexivity | reflexivity |].
          repeat (apply keys_plain_set; [reflexivity|]). reflexivity.
        * unfold state_ok. cbn [st_notes st_comments st_msgs st_imgs t_refs t_crefs t_msgs t_imgs].
          rewrite !app_nil_r, N.add_0_r, map_app. cbn [map cidf snd].
          change (cidf (cref_label c st, c)) with (c_id c).
          rewrite (find_comment_id cid cm None c); [repeat split; reflexivity | intros c0 E; discriminate | exact Hfc].
  Qed.
End Main.

(* ---------- totality ---------- *)

Section Total.
  Variable o : copts.
  Variable cm : list comment.

  Lemma crefs_resolve_app a b : crefs_resolve cm (a ++ b) = crefs_resolve cm a && crefs_resolve cm b.
  Proof.
    induction a as [|c a IH]; [reflexivity|]. cbn [app crefs_resolve].
    destruct (find_comment c cm None); [exact IH | reflexivity].
  Qed.

  Lemma find_html_path_total t d w st : exists p st1, find_html_path o t d w st = Ok (p, st1).
  Proof.
    unfold find_html_path. destruct (find_style (o_style_map o) t) as [s|]; [eauto|].
    destruct w as [[[kind [sid|]] sname]|]; eauto.
  Qed.

  Definition Pt (e : delem) : Prop :=
    forall hdr st, crefs_resolve cm (t_crefs (walk o cm e (st_nn st) (st_nc st) (st_imgs st))) = true ->
      exists ns st', visit o cm e hdr st = Ok (ns, st').

  Lemma visit_list_total l : Forall Pt l ->
    forall hdr st, crefs_resolve cm (t_crefs (walk_list o cm l (st_nn st) (st_nc st) (st_imgs st))) = true ->
      exists ns st', visit_list o cm l hdr st = Ok (ns, st').
  Proof.
    intros HF. induction HF as [|c l Hc Hl IH]; intros hdr st H.
    - exists [], st. reflexivity.
    - rewrite walk_list_cons in H. cbn [tr_app t_crefs] in H. rewrite crefs_resolve_app in H.
      apply andb_true_iff in H. destruct H as [H1 H2].
      destruct (Hc hdr st H1) as (a & st1 & Ha).
      pose proof (visit_ok o cm c hdr st st1 a Ha) as Hok.
      destruct (state_ok_counters _ _ _ (proj2 Hok)) as (E1 & E2 & E3).
      rewrite <- E1, <- E2, <- E3 in H2.
      destruct (IH hdr st1 H2) as (b & st2 & Hb).
      exists (a ++ b), st2. rewrite visit_list_cons.
      apply (bindM_intro _ _ _ _ _ _ Ha). apply (bindM_intro _ _ _ _ _ _ Hb). reflexivity.
  Qed.

  Lemma vt_total l : Forall Pt l ->
    forall inhead st, crefs_resolve cm (t_crefs (walk_list o cm l (st_nn st) (st_nc st) (st_imgs st))) = true ->
      exists hb st', vt_ o cm l inhead st = Ok (hb, st').
  Proof.
    intros HF. induction HF as [|c l Hc Hl IH]; intros inhead st H.
    - exists ([], []), st. reflexivity.
    - rewrite walk_list_cons in H. cbn [tr_app t_crefs] in H. rewrite crefs_resolve_app in H.
      apply andb_true_iff in H. destruct H as [H1 H2].
      destruct (Hc (inhead && is_head c) st H1) as (a & st1 & Ha).
      pose proof (visit_ok o cm c _ st st1 a Ha) as Hok.
      destruct (state_ok_counters _ _ _ (proj2 Hok)) as (E1 & E2 & E3).
      rewrite <- E1, <- E2, <- E3 in H2.
      destruct (IH (inhead && is_head c) st1 H2) as (b & st2 & Hb).
      eexists. exists st2. rewrite vt_cons.
      apply (bindM_intro _ _ _ _ _ _ Ha). apply (bindM_intro _ _ _ _ _ _ Hb). reflexivity.
  Qed.

  Theorem visit_total_all (e : delem) : Pt e.
  Proof.
    induction e as [cs sid sname num IH | cs sid sname b i u s ac sc va hl IH | s | cs t f IH | c
                   | cs sid sname IH | cs h IH | cs c r IH | bt | | a c s | n | ty id | cid] using delem_ind';
      intros hdr st H.
    - (* paragraph *)
      rewrite visit_DParagraph. rewrite walk_DParagraph in H. cbv zeta in H.
      destruct (find_html_path_total (TPara sid sname num) (PElems [fresh_tag [112]])
                  (Some (k_paragraph, sid, sname)) st) as (p & st1 & Hp).
      pose proof (find_html_path_warn o _ _ _ _ _ _ _ _ Hp) as (Ep & _ & E1 & E2 & E3).
      fold (para_path o sid sname num) in Ep. subst p.
      destruct (para_path o sid sname num) as [|l]; cbn [is_ignore] in H.
      + exists [], st1. apply (bindM_intro _ _ _ _ _ _ Hp). reflexivity.
      + cbn [tr_app t_crefs app] in H. rewrite <- E1, <- E2, <- E3 in H.
        destruct (visit_list_total cs IH hdr st1 H) as (content & st2 & Hc).
        eexists. exists st2. apply (bindM_intro _ _ _ _ _ _ Hp). apply (bindM_intro _ _ _ _ _ _ Hc). reflexivity.
    - (* run *)
      rewrite visit_DRun. rewrite walk_DRun in H. cbv zeta in H.
      destruct (find_html_path_total (TRun sid sname) (PElems []) (Some (k_run, sid, sname)) st) as (p & st1 & Hp).
      pose proof (find_html_path_warn o _ _ _ _ _ _ _ _ Hp) as (Ep & _ & E1 & E2 & E3).
      fold (run_style_path o sid sname) in Ep. subst p.
      destruct (existsb is_ignore (run_prop_paths o b i u s ac sc va hl ++ [run_style_path o sid sname])) eqn:Hex.
      + eexists. exists st1. apply (bindM_intro _ _ _ _ _ _ Hp). rewrite Hex. reflexivity.
      + cbn [tr_app t_crefs app] in H. rewrite <- E1, <- E2, <- E3 in H.
        destruct (visit_list_total cs IH hdr st1 H) as (content & st2 & Hc).
        eexists. exists st2. apply (bindM_intro _ _ _ _ _ _ Hp). rewrite Hex.
        apply (bindM_intro _ _ _ _ _ _ Hc). reflexivity.
    - eexists. exists st. reflexivity.
    - (* hyperlink *)
      rewrite visit_DHyperlink. rewrite walk_DHyperlink in H.
      destruct (visit_list_total cs IH hdr st H) as (content & st2 & Hc).
      eexists. exists st2. apply (bindM_intro _ _ _ _ _ _ Hc). reflexivity.
    - eexists. exists st. reflexivity.
    - (* table *)
      rewrite visit_DTable. rewrite walk_DTable in H.
      destruct (find_html_path_total (TTable sid sname) (PElems [fresh_tag [116;97;98;108;101]]) None st)
        as (p & st1 & Hp).
      pose proof (find_html_path_nowarn o _ _ _ _ _ Hp) as [Ep ->].
      fold (table_path o sid sname) in Ep. subst p.
      destruct (table_path o sid sname) as [|l]; cbn [is_ignore] in H.
      + exists [], st. apply (bindM_intro _ _ _ _ _ _ Hp). reflexivity.
      + destruct (vt_total cs IH true st H) as (hb & st2 & Hvt).
        destruct cs as [|c0 cs']; [|destruct (is_head c0) eqn:Hc0];
          eexists; exists st2; apply (bindM_intro _ _ _ _ _ _ Hp); apply (bindM_intro _ _ _ _ _ _ Hvt);
          try rewrite Hc0; reflexivity.
    - (* row *)
      rewrite visit_DTableRow. rewrite walk_DTableRow in H.
      destruct (visit_list_total cs IH hdr st H) as (content & st2 & Hc).
      eexists. exists st2. apply (bindM_intro _ _ _ _ _ _ Hc). reflexivity.
    - (* cell *)
      rewrite visit_DTableCell. rewrite walk_DTableCell in H.
      destruct (visit_list_total cs IH hdr st H) as (content & st2 & Hc).
      eexists. exists st2. apply (bindM_intro _ _ _ _ _ _ Hc). reflexivity.
    - rewrite visit_DBreak. destruct (find_style (o_style_map o) (TBreak bt)); eexists; exists st; reflexivity.
    - eexists. exists st. reflexivity.
    - rewrite visit_DImage. unfold visit_image. cbv zeta.
      destruct (conv_attrs (o_conv o) (st_imgs st + 1) a c s); eexists; eexists; reflexivity.
    - eexists. exists st. reflexivity.
    - rewrite visit_DNoteRef. eexists. eexists. reflexivity.
    - rewrite visit_DCommentRef. rewrite walk_DCommentRef in H.
      destruct (comment_ref_path o) as [|l].
      + exists [], st. reflexivity.
      + cbn [t_crefs crefs_resolve] in H.
        destruct (find_comment cid cm None) as [c|]; [|discriminate]. eexists. eexists. reflexivity.
  Qed.
End Total.

(* ---------- notes, comments, the document ---------- *)

Lemma notes_trace_cons o cm n ns nn nc ni :
  notes_trace o cm (n :: ns) nn nc ni =
  tr_app (note_trace o cm n nn nc ni)
         (notes_trace o cm ns (nn + N.of_nat (length (t_refs (note_trace o cm n nn nc ni))))
                      (nc + N.of_nat (length (t_crefs (note_trace o cm n nn nc ni))))
                      (ni + t_imgs (note_trace o cm n nn nc ni))).
Proof. reflexivity. Qed.

Section Doc.
  Variable o : copts.
  Variable cm : list comment.

  Lemma all_Pv l : Forall (Pv o cm) l.
  Proof. apply Forall_forall. intros e _. apply visit_ok. Qed.

  Lemma nodes_ok_back_link r : nodes_ok o [back_link r] ([32] ++ up_arrow) [].
  Proof.
    unfold back_link. apply nodes_ok_elem; [apply wtag_builtin; reflexivity|].
    apply (nodes_ok_app o [Text [32]] _ [32] up_arrow [] []); [apply nodes_ok_text|].
    apply nodes_ok_elem; [apply wtag_builtin; reflexivity | apply nodes_ok_text].
  Qed.

  Definition note_li (n : note) (body : list (node str)) : node str :=
    Elem (plain_tag [108;105] [([105;100], referent_id o (n_type n) (n_id n))])
         (body ++ [back_link (reference_id o (n_type n) (n_id n))]).

  Lemma visit_note_ok n st st' nl :
    visit_note o cm n st = Ok (nl, st') ->
    (exists body, nl = [note_li n body]) /\
    tr_ok o st st' nl (note_trace o cm n (st_nn st) (st_nc st) (st_imgs st)).
  Proof.
    unfold visit_note. intros H.
    apply bindM_inv in H. destruct H as (body & st2 & Hb & H).
    apply retM_inv in H. destruct H as [-> ->].
    split; [exists body; reflexivity|].
    apply (visit_list_ok o cm _ (all_Pv _)) in Hb. unfold note_trace.
    assert (Hbl : tr_ok o st2 st2 [back_link (reference_id o (n_type n) (n_id n))]
                        (mkTr ([32] ++ up_arrow) [] [] [] 0 [])).
    { split; [apply nodes_ok_back_link | apply state_ok_refl]. }
    apply (tr_ok_map o _ _ _ _ _ (tr_ok_seq o _ _ _ _ _ _ _ Hb Hbl)).
    intros tx im Hn. apply nodes_ok_elem; [apply wtag_builtin; reflexivity | exact Hn].
  Qed.

  Lemma visit_notes_cons n ns :
    visit_notes o cm (n :: ns) = (a <~ visit_note o cm n ;; b <~ visit_notes o cm ns ;; retM (a ++ b)).
  Proof. reflexivity. Qed.

  Lemma visit_notes_ok ns : forall st st' nl,
    visit_notes o cm ns st = Ok (nl, st') ->
    tr_ok o st st' nl (notes_trace o cm ns (st_nn st) (st_nc st) (st_imgs st)) /\
    Forall2 (fun li n => exists body, li = note_li n body) nl ns.
  Proof.
    induction ns as [|n ns IH]; intros st st' nl H.
    - apply retM_inv in H. destruct H as [-> ->]. split; [|constructor].
      apply tr_ok_leaf. apply nodes_ok_nil.
    - rewrite visit_notes_cons in H.
      apply bindM_inv in H. destruct H as (a & st1 & Ha & H).
      apply bindM_inv in H. destruct H as (b & st2 & Hb & H).
      apply retM_inv in H. destruct H as [-> ->].
      apply visit_note_ok in Ha. destruct Ha as [[body ->] Ha].
      apply IH in Hb. destruct Hb as [Hb HF2].
      destruct (state_ok_counters _ _ _ (proj2 Ha)) as (E1 & E2 & E3).
      rewrite E1, E2, E3 in Hb. rewrite notes_trace_cons. split.
      + exact (tr_ok_seq o _ _ _ _ _ _ _ Ha Hb).
      + cbn [app]. constructor; [exists body; reflexivity | exact HF2].
  Qed.

  Lemma visit_comment_tags lc st st' ns :
    visit_comment o cm lc st = Ok (ns, st') -> Forall (tag_ok o) (forest_tags ns).
  Proof.
    destruct lc as [label c]. unfold visit_comment. intros H.
    apply bindM_inv in H. destruct H as (body & st2 & Hb & H).
    apply retM_inv in H. destruct H as [-> ->].
    apply (visit_list_ok o cm _ (all_Pv _)) in Hb. destruct Hb as [Hb _].
    pose proof (nodes_ok_app o _ _ _ _ _ _ (nodes_ok_text o ([67;111;109;109;101;110;116;32] ++ label))
                  (nodes_ok_app o _ _ _ _ _ _ Hb (nodes_ok_back_link (reference_id o k_comment (c_id c))))) as Hn.
    apply (nodes_ok_two o (plain_tag [100;116] [([105;100], referent_id o k_comment (c_id c))])
                        (plain_tag [100;100] [])) in Hn;
      [| apply wtag_builtin; reflexivity | apply wtag_builtin; reflexivity].
    exact (proj2 (proj2 Hn)).
  Qed.

  Lemma visit_comments_tags fuel : forall i st st' cl,
    visit_comments o cm fuel i st = Ok (cl, st') -> Forall (tag_ok o) (forest_tags cl).
  Proof.
    induction fuel as [|f IH]; intros i st st' cl H.
    - discriminate.
    - cbn [visit_comments] in H. destruct (nth_error (st_comments st) i) as [lc|].
      + apply bindM_inv in H. destruct H as (a & st1 & Ha & H).
        apply bindM_inv in H. destruct H as (b & st2 & Hb & H).
        apply retM_inv in H. destruct H as [-> ->].
        rewrite forest_tags_app. apply Forall_app. split.
        * exact (visit_comment_tags _ _ _ _ Ha).
        * exact (IH _ _ _ _ Hb).
      + injection H as H1 H2. subst. constructor.
  Qed.
End Doc.

Lemma visit_document_inv o d st forest st' :
  visit_document o d st = Ok (forest, st') ->
  exists body st1 notes nl st2 cl,
    visit_list o (d_comments d) (d_children d) false st = Ok (body, st1) /\
    resolve_notes (st_notes st1) (d_notes d) = Ok notes /\
    visit_notes o (d_comments d) notes st1 = Ok (nl, st2) /\
    visit_comments o (d_comments d) 1000 0 st2 = Ok (cl, st') /\
    forest = body ++ [Elem (plain_tag [111;108] []) nl; Elem (plain_tag [100;108] []) cl].
Proof.
  unfold visit_document. intros H.
  apply bindM_inv in H. destruct H as (body & st1 & Hb & H). cbv beta in H.
  destruct (resolve_notes (st_notes st1) (d_notes d)) as [notes| |w] eqn:Hr; try discriminate.
  apply bindM_inv in H. destruct H as (nl & st2 & Hn & H).
  apply bindM_inv in H. destruct H as (cl & st3 & Hc & H).
  apply retM_inv in H. destruct H as [-> ->].
  exists body, st1, notes, nl, st2, cl. repeat split; assumption.
Qed.

Lemma visit_document_tags o d st forest st' :
  visit_document o d st = Ok (forest, st') -> Forall (tag_ok o) (forest_tags forest).
Proof.
  intros H. apply visit_document_inv in H.
  destruct H as (body & st1 & notes & nl & st2 & cl & Hb & Hr & Hn & Hc & ->).
  apply (visit_list_ok o _ _ (all_Pv _ _ _)) in Hb. apply visit_notes_ok in Hn. destruct Hn as [Hn _].
  apply visit_comments_tags in Hc.
  rewrite forest_tags_app. apply Forall_app. split; [exact (proj2 (proj2 (proj1 Hb)))|].
  unfold forest_tags. cbn [flat_map node_tags]. rewrite app_nil_r.
  constructor; [right; repeat split; reflexivity|]. apply Forall_app. split; [exact (proj2 (proj2 (proj1 Hn)))|].
  constructor; [right; repeat split; reflexivity | exact Hc].
Qed.

(* ---------- strip_empty and collapse do not invent tags ---------- *)

Section TagsPreserved.
  Variable P : tag -> Prop.

  Lemma forest_tags_cons {A} (c : node A) cs : forest_tags (c :: cs) = node_tags c ++ forest_tags cs.
  Proof. reflexivity. Qed.

  Lemma strip_forest_tags cs :
    Forall (fun c => Forall P (node_tags c) -> Forall P (forest_tags (strip_node c))) cs ->
    Forall P (forest_tags cs) -> Forall P (forest_tags (flat_map strip_node cs)).
  Proof.
    intros HF. induction HF as [|c cs Hc Hcs IH]; intros H.
    - constructor.
    - rewrite forest_tags_cons in H. apply Forall_app in H. destruct H as [H1 H2].
      cbn [flat_map]. rewrite forest_tags_app. apply Forall_app. split; [apply Hc; exact H1 | apply IH; exact H2].
  Qed.

  Lemma strip_node_tags n : Forall P (node_tags n) -> Forall P (forest_tags (strip_node n)).
  Proof.
    induction n as [a| |t cs IH] using node_ind'; intros H.
    - destruct a; constructor.
    - constructor.
    - rewrite strip_node_Elem. cbn [node_tags] in H. inversion H as [|t' l' Ht Hcs]; subst.
      pose proof (strip_forest_tags cs IH Hcs) as Hs.
      destruct (flat_map strip_node cs) as [|x xs].
      + destruct (is_void t cs); [|constructor]. unfold forest_tags. cbn [flat_map node_tags app].
        constructor; [exact Ht | constructor].
      + unfold forest_tags at 1. cbn [flat_map node_tags]. rewrite app_nil_r. constructor; [exact Ht | exact Hs].
  Qed.

  Lemma strip_empty_tags ns : Forall P (forest_tags ns) -> Forall P (forest_tags (strip_empty ns)).
  Proof.
    apply strip_forest_tags. apply Forall_forall. intros c _. apply strip_node_tags.
  Qed.

  Context {A : Type} (mk : str -> A).

  Definition tg_pres (c : node A) : Prop :=
    forall acc, Forall P (forest_tags acc) -> Forall P (node_tags c) -> Forall P (forest_tags (merge_into mk acc c)).

  Lemma tg_default (acc : list (node A)) c :
    Forall P (forest_tags acc) -> Forall P (node_tags c) -> Forall P (forest_tags (acc ++ [c])).
  Proof.
    intros Ha Hc. rewrite forest_tags_app. apply Forall_app. split; [exact Ha|].
    rewrite forest_tags_cons. apply Forall_app. split; [exact Hc | constructor].
  Qed.

  Lemma merge_all_tags (ncs : list (node A)) :
    Forall tg_pres ncs ->
    forall a, Forall P (forest_tags a) -> Forall P (forest_tags ncs) -> Forall P (forest_tags (merge_all mk ncs a)).
  Proof.
    intros HF. induction HF as [|c ncs Hc Hncs IH]; intros a Ha Hn.
    - exact Ha.
    - rewrite merge_all_cons. rewrite forest_tags_cons in Hn. apply Forall_app in Hn. destruct Hn as [Hn1 Hn2].
      apply IH; [apply Hc; assumption | exact Hn2].
  Qed.

  Lemma sep_nodes_tags t : forest_tags (sep_nodes mk t) = [].
  Proof. unfold sep_nodes. destruct (tsep t) as [[|c s]|]; reflexivity. Qed.

  Lemma merge_into_tags (cn : node A) : tg_pres cn.
  Proof.
    induction cn as [a| |nt ncs IH] using node_ind'; intros acc Hacc Hcn.
    - rewrite merge_into_Text. apply tg_default; assumption.
    - rewrite merge_into_Force. apply tg_default; assumption.
    - rewrite merge_into_Elem.
      destruct (unsnoc acc) as [[init [a|lt lcs|]]|] eqn:Hu; try (apply tg_default; assumption).
      destruct (tcoll nt && is_match lt nt) eqn:Hc; try (apply tg_default; assumption).
      apply unsnoc_Some in Hu. subst acc.
      rewrite forest_tags_app in Hacc. apply Forall_app in Hacc. destruct Hacc as [Hinit Hlast].
      rewrite forest_tags_cons in Hlast. apply Forall_app in Hlast. destruct Hlast as [Hlast _].
      cbn [node_tags] in Hlast, Hcn.
      inversion Hlast as [|x1 l1 Hlt Hlcs]; subst. inversion Hcn as [|x2 l2 Hnt Hncs]; subst.
      rewrite forest_tags_app. apply Forall_app. split; [exact Hinit|].
      rewrite forest_tags_cons. apply Forall_app. split; [|constructor].
      cbn [node_tags]. constructor; [exact Hlt|].
      apply (merge_all_tags ncs IH); [|exact Hncs].
      rewrite forest_tags_app, sep_nodes_tags, app_nil_r. exact Hlcs.
  Qed.

  Definition tg_coll (c : node A) : Prop :=
    Forall P (node_tags c) -> Forall P (node_tags (collapse_node mk c)).

  Lemma fold_cstep_tags (cs : list (node A)) :
    Forall tg_coll cs ->
    forall a, Forall P (forest_tags a) -> Forall P (forest_tags cs) ->
      Forall P (forest_tags (fold_left (cstep mk) cs a)).
  Proof.
    intros HF. induction HF as [|c cs Hc Hcs IH]; intros a Ha Hn.
    - exact Ha.
    - change (fold_left (cstep mk) (c :: cs) a)
        with (fold_left (cstep mk) cs (merge_into mk a (collapse_node mk c))).
      rewrite forest_tags_cons in Hn. apply Forall_app in Hn. destruct Hn as [Hn1 Hn2].
      apply IH; [|exact Hn2]. apply merge_into_tags; [exact Ha | apply Hc; exact Hn1].
  Qed.

  Lemma collapse_node_tags (n : node A) : tg_coll n.
  Proof.
    induction n as [a| |t cs IH] using node_ind'; intros Hn.
    - exact Hn.
    - exact Hn.
    - rewrite collapse_node_Elem, collapse_unfold. cbn [node_tags] in *.
      inversion Hn as [|x l Ht Hcs]; subst. constructor; [exact Ht|].
      apply (fold_cstep_tags cs IH); [constructor | exact Hcs].
  Qed.

  Lemma collapse_tags (ns : list (node A)) : Forall P (forest_tags ns) -> Forall P (forest_tags (collapse mk ns)).
  Proof.
    intros H. rewrite collapse_unfold. apply fold_cstep_tags; [|constructor | exact H].
    apply Forall_forall. intros n _. apply collapse_node_tags.
  Qed.
End TagsPreserved.

(* ---------- from tags to the boolean predicates ---------- *)

Section TagsBool.
  Variable p : tag -> bool.
  Variable f : node str -> bool.
  Hypothesis HfE : forall t cs, f (Elem t cs) = p t && forallb f cs.
  Hypothesis HfT : forall a, f (Text a) = true.
  Hypothesis HfF : f Force = true.

  Lemma tags_bool_forest ns :
    Forall (fun n => Forall (fun t => p t = true) (node_tags n) -> f n = true) ns ->
    Forall (fun t => p t = true) (forest_tags ns) -> forallb f ns = true.
  Proof.
    intros HF. induction HF as [|c cs Hc Hcs IH]; intros H.
    - reflexivity.
    - rewrite forest_tags_cons in H. apply Forall_app in H. destruct H as [H1 H2].
      cbn [forallb]. rewrite (Hc H1), (IH H2). reflexivity.
  Qed.

  Lemma tags_bool_node n : Forall (fun t => p t = true) (node_tags n) -> f n = true.
  Proof.
    induction n as [a| |t cs IH] using node_ind'; intros H.
    - apply HfT.
    - apply HfF.
    - cbn [node_tags] in H. inversion H as [|x l Ht Hcs]; subst.
      rewrite HfE, Ht, (tags_bool_forest cs IH Hcs). reflexivity.
  Qed.

  Lemma tags_bool ns : Forall (fun t => p t = true) (forest_tags ns) -> forallb f ns = true.
  Proof. apply tags_bool_forest. apply Forall_forall. intros n _. apply tags_bool_node. Qed.
End TagsBool.

Definition plain_t (t : tag) : bool := plain_name (tname t) && keys_plain (tattrs t).

Lemma tags_no_sep (ns : list (node str)) :
  Forall (fun t => tag_no_sep t = true) (forest_tags ns) -> forallb no_sep_node ns = true.
Proof. apply tags_bool; reflexivity. Qed.

Lemma tags_plain (ns : list (node str)) :
  Forall (fun t => plain_t t = true) (forest_tags ns) -> forallb plain_node ns = true.
Proof. apply tags_bool; reflexivity. Qed.

Lemma tag_ok_no_sep o t :
  Forall (fun t => tag_no_sep t = true) (style_tags (o_style_map o)) -> tag_ok o t -> tag_no_sep t = true.
Proof.
  intros Hs [H|(H & _ & _)].
  - rewrite Forall_forall in Hs. apply Hs. exact H.
  - unfold tag_no_sep. rewrite H. reflexivity.
Qed.

Lemma tag_ok_plain o t :
  Forall (fun t => plain_name (tname t) = true /\ forallb (fun kv => plain_name (fst kv)) (tattrs t) = true)
         (style_tags (o_style_map o)) ->
  tag_ok o t -> plain_t t = true.
Proof.
  intros Hs [H|(_ & H1 & H2)]; unfold plain_t.
  - rewrite Forall_forall in Hs. destruct (Hs t H) as [H1 H2]. rewrite H1. exact H2.
  - rewrite H1. exact H2.
Qed.

(* ---------- clean subtrees emit no warning ---------- *)

Section CleanFacts.
  Variable o : copts.
  Variable cm : list comment.

  Lemma clean_DParagraph cs sid sname num :
    clean o (DParagraph cs sid sname num) =
    (match sid with Some _ => has_style o (TPara sid sname num) | None => true end) && forallb (clean o) cs.
  Proof. reflexivity. Qed.
  Lemma clean_DRun cs sid sname b i u s ac sc va hl :
    clean o (DRun cs sid sname b i u s ac sc va hl) =
    (match sid with Some _ => has_style o (TRun sid sname) | None => true end) && forallb (clean o) cs.
  Proof. reflexivity. Qed.
  Lemma clean_DHyperlink cs t f : clean o (DHyperlink cs t f) = forallb (clean o) cs.
  Proof. reflexivity. Qed.
  Lemma clean_DTable cs sid sname : clean o (DTable cs sid sname) = forallb (clean o) cs.
  Proof. reflexivity. Qed.
  Lemma clean_DTableRow cs h : clean o (DTableRow cs h) = forallb (clean o) cs.
  Proof. reflexivity. Qed.
  Lemma clean_DTableCell cs c r : clean o (DTableCell cs c r) = forallb (clean o) cs.
  Proof. reflexivity. Qed.

  Definition Pc (e : delem) : Prop :=
    forall nn nc ni, clean o e = true -> t_msgs (walk o cm e nn nc ni) = [].

  Lemma walk_list_clean l : Forall Pc l ->
    forall nn nc ni, forallb (clean o) l = true -> t_msgs (walk_list o cm l nn nc ni) = [].
  Proof.
    intros HF. induction HF as [|c l Hc Hl IH]; intros nn nc ni H.
    - reflexivity.
    - cbn [forallb] in H. apply andb_true_iff in H. destruct H as [H1 H2].
      rewrite walk_list_cons. cbn [tr_app t_msgs]. rewrite (Hc _ _ _ H1), (IH _ _ _ H2). reflexivity.
  Qed.

  Lemma style_warning_clean kind t sid sname :
    match sid with Some _ => has_style o t | None => true end = true ->
    style_warning kind (has_style o t) sid sname = [].
  Proof.
    unfold style_warning. destruct sid as [i|]; intros H.
    - rewrite H. reflexivity.
    - destruct (has_style o t); reflexivity.
  Qed.

  Theorem walk_clean_all (e : delem) : Pc e.
  Proof.
    induction e as [cs sid sname num IH | cs sid sname b i u s ac sc va hl IH | s | cs t f IH | c
                   | cs sid sname IH | cs h IH | cs c r IH | bt | | a c s | n | ty id | cid] using delem_ind';
      intros nn nc ni H; try reflexivity.
    - rewrite clean_DParagraph in H. apply andb_true_iff in H. destruct H as [H1 H2].
      rewrite walk_DParagraph. cbv zeta. rewrite (style_warning_clean _ _ _ _ H1).
      destruct (is_ignore (para_path o sid sname num)); [reflexivity|].
      cbn [tr_app t_msgs app]. apply walk_list_clean; assumption.
    - rewrite clean_DRun in H. apply andb_true_iff in H. destruct H as [H1 H2].
      rewrite walk_DRun. cbv zeta. rewrite (style_warning_clean _ _ _ _ H1).
      destruct (existsb is_ignore _); [reflexivity|].
      cbn [tr_app t_msgs app]. apply walk_list_clean; assumption.
    - rewrite clean_DHyperlink in H. rewrite walk_DHyperlink. apply walk_list_clean; assumption.
    - rewrite clean_DTable in H. rewrite walk_DTable.
      destruct (is_ignore (table_path o sid sname)); [reflexivity|]. apply walk_list_clean; assumption.
    - rewrite clean_DTableRow in H. rewrite walk_DTableRow. apply walk_list_clean; assumption.
    - rewrite clean_DTableCell in H. rewrite walk_DTableCell. apply walk_list_clean; assumption.
    - rewrite walk_DImage. unfold conv_attrs.
      destruct s as [bs|m]; cbn [clean] in H; destruct (o_conv o); try discriminate; reflexivity.
    - rewrite walk_DCommentRef. destruct (comment_ref_path o); reflexivity.
  Qed.
End CleanFacts.

(* ---------- note resolution ---------- *)

Lemma find_note_key ty id ns : forall found n,
  (forall n0, found = Some n0 -> n_type n0 = ty /\ n_id n0 = id) ->
  find_note ty id ns found = Some n -> n_type n = ty /\ n_id n = id.
Proof.
  induction ns as [|n1 ns IH]; intros found n Hf H; simpl in H.
  - apply Hf. exact H.
  - apply (IH _ n) in H; [exact H|]. intros n0 E.
    destruct (str_eqb (n_type n1) ty && str_eqb (n_id n1) id) eqn:Ec.
    + injection E as E. subst n0. apply andb_true_iff in Ec. destruct Ec as [E1 E2].
      split; apply str_eqb_iff; assumption.
    + apply Hf. exact E.
Qed.

Lemma resolve_notes_map (refs : list (str * str)) (ns : list note) : forall l,
  resolve_notes refs ns = Ok l -> map (fun n => (n_type n, n_id n)) l = refs.
Proof.
  induction refs as [|[ty id] refs IH]; intros l H.
  - injection H as H. subst. reflexivity.
  - cbn [resolve_notes] in H. destruct (find_note ty id ns None) as [n|] eqn:Hf; [|discriminate].
    destruct (resolve_notes refs ns) as [r| |w]; try discriminate.
    cbn [obind] in H. injection H as H. subst l. cbn [map].
    destruct (find_note_key ty id ns None n) as [E1 E2]; [intros n0 E; discriminate | exact Hf |].
    rewrite E1, E2, (IH r eq_refl). reflexivity.
Qed.
