(* Independent reading-order specification of what the converter emits, used to STATE the
   conversion theorems (C01, C03, C10, C11, C16, C17).  Written from the property texts:
   a traversal that threads only the counters (notes, comments, images), not nodes. *)
From Mammoth Require Import Convert.
Local Open Scope N_scope.

Section Spec.
  Variable o : copts.
  Variable comments : list comment.

  (* the paths in force *)
  Definition para_path (sid sname : option str) (num : option numlevel) : hpath :=
    match find_style (o_style_map o) (TPara sid sname num) with
    | Some s => s_path s | None => PElems [fresh_tag [112]] end.
  Definition run_style_path (sid sname : option str) : hpath :=
    match find_style (o_style_map o) (TRun sid sname) with Some s => s_path s | None => PElems [] end.
  Definition table_path (sid sname : option str) : hpath :=
    match find_style (o_style_map o) (TTable sid sname) with
    | Some s => s_path s | None => PElems [fresh_tag [116;97;98;108;101]] end.
  Definition comment_ref_path : hpath :=
    match find_style (o_style_map o) TCommentRef with Some s => s_path s | None => PIgnore end.

  (* formatting wrappers of a run, innermost first (highlight ... bold), then the run style *)
  Definition run_prop_paths (bold italic underline strike allcaps smallcaps : bool) (valign : str)
             (highlight : option str) : list hpath :=
    (match highlight with
     | Some c => match find_style (o_style_map o) (THighlight c) with Some s => [s_path s] | None => [] end
     | None => [] end)
    ++ (if smallcaps then [prop_path o TSmallCaps None] else [])
    ++ (if allcaps then [prop_path o TAllCaps None] else [])
    ++ (if strike then [prop_path o TStrike (Some [115])] else [])
    ++ (if underline then [prop_path o TUnderline None] else [])
    ++ (if str_eqb valign s_subscript then [PElems [coll_tag [115;117;98] []]] else [])
    ++ (if str_eqb valign s_superscript then [PElems [coll_tag [115;117;112] []]] else [])
    ++ (if italic then [prop_path o TItalic (Some [101;109])] else [])
    ++ (if bold then [prop_path o TBold (Some [115;116;114;111;110;103])] else []).

  (* the tags wrapped around a run's content, OUTERMOST first *)
  Definition path_tags (p : hpath) : list tag := match p with PElems l => l | PIgnore => [] end.
  Definition run_wrapper_tags (sid sname : option str) (bold italic underline strike allcaps smallcaps : bool)
             (valign : str) (highlight : option str) : list tag :=
    flat_map path_tags (rev (run_prop_paths bold italic underline strike allcaps smallcaps valign highlight
                             ++ [run_style_path sid sname])).

  (* what a traversal in reading order produces, besides nodes *)
  Record trace := mkTr {
    t_text : str;                 (* text emitted, in order *)
    t_refs : list (str * str);    (* note references visited, in order *)
    t_crefs : list str;           (* comment references rendered, in order (comment ids) *)
    t_msgs : list str;            (* warnings, in order *)
    t_imgs : N;                   (* image converter calls *)
    t_imgnodes : list (node str) }.   (* the img elements produced, in order *)
  Definition tr_empty : trace := mkTr [] [] [] [] 0 [].
  Definition tr_app (a b : trace) : trace :=
    mkTr (t_text a ++ t_text b) (t_refs a ++ t_refs b) (t_crefs a ++ t_crefs b) (t_msgs a ++ t_msgs b) (t_imgs a + t_imgs b)
         (t_imgnodes a ++ t_imgnodes b).

  Definition style_warning (kind : str) (found : bool) (sid sname : option str) : list str :=
    match found, sid with false, Some i => [unrecognised_msg kind sname i] | _, _ => [] end.
  Definition has_style (t : target) : bool := match find_style (o_style_map o) t with Some _ => true | None => false end.

  (* counters: (notes so far, comment references so far, image calls so far) *)
  Fixpoint walk (e : delem) (nn nc ni : N) {struct e} : trace :=
    let walk_all := (fix wa (l : list delem) (nn nc ni : N) : trace :=
                       match l with
                       | [] => tr_empty
                       | c :: l' =>
                           let a := walk c nn nc ni in
                           tr_app a (wa l' (nn + N.of_nat (length (t_refs a))) (nc + N.of_nat (length (t_crefs a))) (ni + t_imgs a))
                       end) in
    match e with
    | DText s => mkTr s [] [] [] 0 []
    | DTab => mkTr [9] [] [] [] 0 []
    | DParagraph cs sid sname num =>
        let w := mkTr [] [] [] (style_warning k_paragraph (has_style (TPara sid sname num)) sid sname) 0 [] in
        if is_ignore (para_path sid sname num) then w else tr_app w (walk_all cs nn nc ni)
    | DRun cs sid sname bold italic underline strike allcaps smallcaps valign highlight =>
        let w := mkTr [] [] [] (style_warning k_run (has_style (TRun sid sname)) sid sname) 0 [] in
        if existsb is_ignore (run_prop_paths bold italic underline strike allcaps smallcaps valign highlight
                              ++ [run_style_path sid sname])
        then w else tr_app w (walk_all cs nn nc ni)
    | DHyperlink cs _ _ => walk_all cs nn nc ni
    | DTable cs sid sname => if is_ignore (table_path sid sname) then tr_empty else walk_all cs nn nc ni
    | DTableRow cs _ => walk_all cs nn nc ni
    | DTableCell cs _ _ => walk_all cs nn nc ni
    | DCheckbox _ | DBookmark _ | DBreak _ => tr_empty
    | DImage alt ctype src =>
        match conv_attrs (o_conv o) (ni + 1) alt ctype src with
        | inl m => mkTr [] [] [] [m] (if counts_failed_calls (o_conv o) then 1 else 0) []
        | inr a => mkTr [] [] [] [] 1
                     [Elem (plain_tag [105;109;103] (attrs_update (if truthy alt then [(k_alt, fmt_opt alt)] else []) a)) []]
        end
    | DNoteRef ty id => mkTr ([91] ++ str_of_N (nn + 1) ++ [93]) [(ty, id)] [] [] 0 []
    | DCommentRef cid =>
        match comment_ref_path with
        | PIgnore => tr_empty
        | PElems _ =>
            let ini := match find_comment cid comments None with
                       | Some c => match c_initials c with Some i => i | None => [] end
                       | None => [] end in
            mkTr ([91] ++ ini ++ str_of_N (nc + 1) ++ [93]) [] [cid] [] 0 []
        end
    end.

  Fixpoint walk_list (l : list delem) (nn nc ni : N) : trace :=
    match l with
    | [] => tr_empty
    | c :: l' =>
        let a := walk c nn nc ni in
        tr_app a (walk_list l' (nn + N.of_nat (length (t_refs a))) (nc + N.of_nat (length (t_crefs a))) (ni + t_imgs a))
    end.

  (* every comment reference that is rendered resolves *)
  Fixpoint crefs_resolve (l : list str) : bool :=
    match l with [] => true | c :: l' => match find_comment c comments None with Some _ => crefs_resolve l' | None => false end end.
End Spec.

(* state <-> counters *)
Definition st_nn (st : cstate) : N := N.of_nat (length (st_notes st)).
Definition st_nc (st : cstate) : N := N.of_nat (length (st_comments st)).

(* a style map whose generated tags satisfy a predicate *)
Definition style_tags (sm : list style) : list tag := flat_map (fun s => path_tags (s_path s)) sm.
Definition tag_no_sep (t : tag) : bool := match tsep t with Some (_ :: _) => false | _ => true end.

(* the id / href of the top-level element of a node *)
Definition node_attr (k : str) (n : node str) : option str :=
  match n with Elem t _ => attrs_get k (tattrs t) | _ => None end.

(* all elements named img, in document order (children of an img are not searched: it has none) *)
Fixpoint img_elems (n : node str) : list (node str) :=
  match n with
  | Elem t cs => if str_eqb (tname t) [105;109;103] then [n] else flat_map img_elems cs
  | _ => []
  end.

(* a document subtree renders no anomaly: styled paragraphs/runs are recognised, images open *)
Section Clean.
  Variable o : copts.
  Fixpoint clean (e : delem) : bool :=
    match e with
    | DParagraph cs sid sname num =>
        (match sid with Some _ => has_style o (TPara sid sname num) | None => true end) && forallb clean cs
    | DRun cs sid sname _ _ _ _ _ _ _ _ =>
        (match sid with Some _ => has_style o (TRun sid sname) | None => true end) && forallb clean cs
    | DHyperlink cs _ _ | DTable cs _ _ | DTableRow cs _ | DTableCell cs _ _ => forallb clean cs
    | DImage _ _ (ImgError _) => match o_conv o with ConvNoOpen => true | _ => false end
    | _ => true
    end.
End Clean.

(* document-level reading order: body, then the referenced notes, then the referenced comments *)
Section DocSpec.
  Variable o : copts.
  Variable cm : list comment.
  Definition after (a : trace) (nn nc ni : N) : N * N * N :=
    (nn + N.of_nat (length (t_refs a)), nc + N.of_nat (length (t_crefs a)), ni + t_imgs a).
  Definition note_trace (n : note) (nn nc ni : N) : trace :=
    tr_app (walk_list o cm (n_body n) nn nc ni) (mkTr ([32] ++ up_arrow) [] [] [] 0 []).
  Fixpoint notes_trace (ns : list note) (nn nc ni : N) : trace :=
    match ns with
    | [] => tr_empty
    | n :: ns' => let a := note_trace n nn nc ni in
                  let '(nn', nc', ni') := after a nn nc ni in
                  tr_app a (notes_trace ns' nn' nc' ni')
    end.
End DocSpec.
