(* C09 — tables keep their grid: rows, cells, spans and header rows. *)
From Mammoth Require Import Tables TablesFacts Convert ConvertSpec ConvertRules Reader Xml TableEndSpec TableEndFacts TableXmlSpec TableXmlFacts.
Local Open Scope N_scope.

(* THE grid theorem, for every well-formed tiling encoding of any size: laying out the cells that the
   vMerge sweep keeps, with the colspans and rowspans it assigns, by the HTML table algorithm covers
   every grid position with the cell that owns it in the document — no overlap, no gap *)
Theorem C09_rowspans_layout (W : N) (rows : list (list icell)) :
  wf_tiling W rows = true ->
  html_layout (N.to_nat W) (row_spans rows) = Some (doc_grid rows []).
Proof. exact (rowspans_layout W rows). Qed.

(* one output row per input row; the cells kept are exactly the non-continuation cells, in order,
   with colspan = gridSpan *)
Theorem C09_cells_kept (W : N) (rows : list (list icell)) :
  wf_tiling W rows = true ->
  map (map oc_id) (row_spans rows) = map (fun r => map ic_id (filter (fun c => negb (ic_cont c)) r)) rows
  /\ Forall2 (fun orow irow => Forall (fun oc => exists ic, In ic irow /\ ic_id ic = oc_id oc /\ ic_span ic = oc_colspan oc) orow)
             (row_spans rows) rows.
Proof. exact (rowspans_rows W rows). Qed.

Section Structure.
  Variable o : copts.
  Variable cm : list comment.

  (* every cell yields one th (in header context) or td, with colspan / rowspan attributes exactly when they differ from 1 *)
  Theorem C09_cell cs colspan rowspan hdr st :
    visit o cm (DTableCell cs colspan rowspan) hdr st =
    match visit_list o cm cs hdr st with
    | Ok (content, st') =>
        Ok ([Elem (plain_tag (if hdr then [116;104] else [116;100])
                     ((if N.eqb colspan 1 then [] else [([99;111;108;115;112;97;110], str_of_N colspan)])
                      ++ (if N.eqb rowspan 1 then [] else [([114;111;119;115;112;97;110], str_of_N rowspan)])))
                  (Force :: content)], st')
    | LineError => LineError
    | Crash w => Crash w
    end.
  Proof. exact (visit_cell_eq o cm cs colspan rowspan hdr st). Qed.

  (* every row yields one tr *)
  Theorem C09_row cs h hdr st :
    visit o cm (DTableRow cs h) hdr st =
    match visit_list o cm cs hdr st with
    | Ok (content, st') => Ok ([Elem (plain_tag [116;114] []) (Force :: content)], st')
    | LineError => LineError
    | Crash w => Crash w
    end.
  Proof. exact (visit_row_eq o cm cs h hdr st). Qed.

  (* the leading header rows go to thead (cells th), the rest to tbody (cells td); no thead/tbody without a leading header row *)
  Theorem C09_table cs sid sname hdr st l :
    table_path o sid sname = PElems l ->
    visit o cm (DTable cs sid sname) hdr st =
    match take_heads cs with
    | [] =>
        match visit_list o cm cs false st with
        | Ok (content, st') => Ok (wrap_elems l (Force :: content), st')
        | LineError => LineError
        | Crash w => Crash w
        end
    | heads =>
        match visit_list o cm heads true st with
        | Ok (h, st1) =>
            match visit_list o cm (drop_heads cs) false st1 with
            | Ok (b, st2) => Ok (wrap_elems l [Force; Elem (plain_tag [116;104;101;97;100] []) h;
                                                Elem (plain_tag [116;98;111;100;121] []) b], st2)
            | LineError => LineError
            | Crash w => Crash w
            end
        | LineError => LineError
        | Crash w => Crash w
        end
    end.
  Proof. exact (visit_table_eq o cm cs sid sname hdr st l). Qed.
End Structure.

(* non-vacuity: a 3-column tiling with a 2x2 block, and a row made only of continuations *)
Example C09_witness :
  let rows := [[IC 2 false 1; IC 1 false 2]; [IC 2 true 3; IC 1 false 4]; [IC 1 false 5; IC 1 false 6; IC 1 true 7]] in
  wf_tiling 3 rows = true /\
  row_spans rows = [[OC 1 2 2; OC 2 1 1]; [OC 4 1 2]; [OC 5 1 1; OC 6 1 1]].
Proof. vm_compute. split; reflexivity. Qed.

(* ---------- the reader's OWN sweep (Model/Reader.v: calculate_row_spans over document elements) refines the abstract one ----------
   abs_rows: each cell of each row as (gridSpan, continuation flag, identity = row * stride + position).  For every list of rows of cells
   the reader's sweep returns, with no extras and no messages, exactly the rows `row_spans` keeps: the same cells, in order, each with its own
   children and colspan and with the rowspan the abstract sweep assigns - an equation, not a correspondence *)
Theorem C09_reader_sweep_refines (rows : list delem) :
  table_rows_ok rows = true ->
  calculate_row_spans rows = mkRR (conc_rows (find_cell rows) rows (row_spans (abs_rows rows))) [] []
  /\ length (row_spans (abs_rows rows)) = length rows.
Proof. exact (calculate_row_spans_refines rows). Qed.

(* hence the grid theorem holds for what the reader actually returns: laying out the reader's cells by the HTML table algorithm covers every
   grid position with the cell that owns it in the document *)
Theorem C09_reader_table_layout (W : N) (rows : list delem) :
  table_rows_ok rows = true -> wf_tiling W (abs_rows rows) = true ->
  match reader_ocells rows with Some ocs => html_layout (N.to_nat W) ocs | None => None end
  = Some (doc_grid (abs_rows rows) []).
Proof. exact (reader_table_layout W rows). Qed.

(* ---------- from the XML of a w:tbl element ----------
   xml_tiling tbl: for each w:tr, for each w:tc: (w:gridSpan value or 1, vMerge continuation, identity).  plain_table: the table holds only
   w:tblPr / w:tblGrid / w:tr, each row only w:trPr / w:tc (range markup between rows makes the reader give up merging, with a warning).
   Whatever the cells contain, the reader returns ONE table whose rows carry the header flags of the XML and whose cells, laid out by the HTML
   table algorithm, cover the document grid of the XML tiling *)
Theorem C09_xml_table_layout (W : N) (fuel : nat) (env : renv) (tbl : xml) (st st' : rstate) (r : rres) :
  plain_table tbl = true -> read_el fuel env tbl st = Ok (r, st') ->
  exists rows' sid sname,
    rr_elems r = [DTable rows' sid sname]
    /\ map row_header rows' = map tr_is_header (tbl_rows tbl)
    /\ (wf_tiling W (xml_tiling tbl) = true ->
        match table_ocells tbl (DTable rows' sid sname) with Some ocs => html_layout (N.to_nat W) ocs | None => None end
        = Some (doc_grid (xml_tiling tbl) [])).
Proof. exact (read_tbl_layout W fuel env tbl st st' r). Qed.

Print Assumptions C09_rowspans_layout.
Print Assumptions C09_cells_kept.
Print Assumptions C09_cell.
Print Assumptions C09_row.
Print Assumptions C09_table.
Print Assumptions C09_reader_sweep_refines.
Print Assumptions C09_reader_table_layout.
Print Assumptions C09_xml_table_layout.
