From Mammoth Require Import Tables.
Example c09_placeholder : row_spans [] = [].
Proof. reflexivity. Qed.
Print Assumptions c09_placeholder.
