From Mammoth Require Import Api Dom.
Local Open Scope N_scope.
Example c13_placeholder : convert_name (None, [97]) = [97].
Proof. reflexivity. Qed.
Print Assumptions c13_placeholder.
