(* C19 — document transforms visit each target once and leave everything else alone. *)
From Mammoth Require Import Transforms TransformsFacts.
Local Open Scope N_scope.

(* the transform function is called exactly once per element, whatever it returns ... *)
Theorem C19_called_once_per_element (f : delem -> delem) (e : delem) : length (calls f e) = dsize e.
Proof. exact (calls_length f e). Qed.
(* ... hence transforms.paragraph(f) / transforms.run(f) call f exactly once per paragraph / run of the
   original tree, however deeply nested (tables, links) *)
Theorem C19_called_once_per_target (p : delem -> bool) (t : delem -> delem) (e : delem) :
  (forall c cs, p (with_children c cs) = p c) ->
  length (filter p (calls (of_type p t) e)) = count_type p e.
Proof. exact (calls_targets p t e). Qed.
(* children before the elements that contain them; the returned element takes the place of the original *)
Theorem C19_children_first (f : delem -> delem) (e : delem) :
  exists arg, calls f e = flat_map (calls f) (match children_of e with Some cs => cs | None => [] end) ++ [arg]
              /\ each_element f e = f arg
              /\ arg = match children_of e with
                       | Some cs => with_children e (map (each_element f) cs)
                       | None => e end.
Proof. exact (each_element_root f e). Qed.
(* elements of other kinds pass through unchanged; an identity transform changes nothing at all *)
Theorem C19_other_kinds_unchanged (p : delem -> bool) (t : delem -> delem) (e : delem) : p e = false -> of_type p t e = e.
Proof. exact (of_type_other p t e). Qed.
Theorem C19_identity (p : delem -> bool) (d : document) : transform_document p (fun x => x) d = d.
Proof. exact (transform_document_id p d). Qed.
Theorem C19_identity_calls_postorder (e : delem) : calls (fun x => x) e = descendants e ++ [e].
Proof. exact (calls_id_postorder e). Qed.
(* get_descendants: every proper descendant exactly once; get_descendants_of_type: exactly those of the type *)
Theorem C19_descendants (e : delem) : S (length (descendants e)) = dsize e.
Proof. exact (descendants_length e). Qed.
Theorem C19_descendants_of_type (p : delem -> bool) (e : delem) :
  (length (descendants_of_type p e) + (if p e then 1 else 0))%nat = count_type p e.
Proof. exact (descendants_of_type_count p e). Qed.

Example C19_witness :
  let r := DRun [DText [97]] None None false false false false false false s_baseline None in
  let t := DTable [DTableRow [DTableCell [DParagraph [r; DHyperlink [r] (LHref [104]) None] None None None] 1 1] false] None None in
  length (filter is_run (calls (of_type is_run t_restyle) t)) = 2%nat /\ length (descendants t) = 8%nat.
Proof. vm_compute. split; reflexivity. Qed.

Print Assumptions C19_called_once_per_element.
Print Assumptions C19_called_once_per_target.
Print Assumptions C19_children_first.
Print Assumptions C19_other_kinds_unchanged.
Print Assumptions C19_identity.
Print Assumptions C19_identity_calls_postorder.
Print Assumptions C19_descendants.
Print Assumptions C19_descendants_of_type.
