(* GENERATED from C08.v.in by tools/strlit.py — edit the .in file *)
(* C08 — paragraphs map one-to-one, in order, to heading, list-item and paragraph blocks. *)
From Mammoth Require Import Api Cli DefaultStyleMap MiscSpec MiscFacts ConvertSpec HtmlCollapseSpec HtmlCollapse ListsSpec ListsFacts.
Local Open Scope N_scope.

(* All facts below are computed over Gen/DefaultStyleMap.v, regenerated from options.py on every run:
   an edit of the defaults re-opens them. *)
Theorem C08_headings_by_id :
  forallb (fun k => hpath_eqb (para_path default_opts (Some ([72;101;97;100;105;110;103] ++ [48 + k])) None None) (PElems [heading_tag k])) [1;2;3;4;5;6] = true.
Proof. exact default_heading_ids. Qed.
Theorem C08_headings_by_name_any_case :
  forallb (fun k => hpath_eqb (para_path default_opts (Some [88]) (Some ([72;101;97;100;105;110;103;32] ++ [48 + k])) None) (PElems [heading_tag k])
                    && hpath_eqb (para_path default_opts (Some [88]) (Some ([104;101;97;100;105;110;103;32] ++ [48 + k])) None) (PElems [heading_tag k])
                    && hpath_eqb (para_path default_opts (Some [88]) (Some ([72;69;65;68;73;78;71;32] ++ [48 + k])) None) (PElems [heading_tag k]))
          [1;2;3;4;5;6] = true.
Proof. exact default_heading_names. Qed.
(* a list paragraph at depth d (1..5): d-1 times (ul|ol > li), then ul or ol according to its own type, then li:fresh —
   so it sits inside exactly d lists, the innermost of its own type *)
Theorem C08_list_paths :
  forallb (fun d => forallb (fun o =>
     hpath_eqb (para_path default_opts None None (Some (mkLevel (str_of_N (N.of_nat d - 1)) o))) (PElems (list_path d o))) [true; false])
     [1;2;3;4;5]%nat = true.
Proof. exact default_list_paths. Qed.
Theorem C08_otherwise_p :
  hpath_eqb (para_path default_opts None None None) (PElems [fresh_tag [112]]) = true /\
  hpath_eqb (para_path default_opts None None (Some (mkLevel [53] true))) (PElems [fresh_tag [112]]) = true /\
  hpath_eqb (para_path default_opts (Some [77;121;115;116;101;114;121]) (Some [77;121;115;116;101;114;121;32;83;116;121;108;101]) None) (PElems [fresh_tag [112]]) = true.
Proof. exact default_plain. Qed.
(* every paragraph block of the default map ends in a FRESH element; by C04's merge_iff a fresh element never
   merges into its predecessor: no two paragraphs share a block *)
Theorem C08_blocks_fresh :
  forallb (fun s => match s_matcher s, s_path s with
                    | MParagraph _ _ _, PElems l => match l with [] => false | _ => negb (tcoll (last l (fresh_tag []))) end
                    | _, _ => true end) default_style_map = true.
Proof. exact default_blocks_fresh. Qed.
Theorem C08_fresh_never_merges {A} (mk : str -> A) (acc : list (node A)) (t : tag) (cs : list (node A)) :
  tcoll t = false -> merge_into mk acc (Elem t cs) = acc ++ [Elem t cs].
Proof.
  intro H. apply merge_into_refuse. intros init l _. unfold mergeable. destruct l; try reflexivity. rewrite H. reflexivity.
Qed.

(* THE NESTING THEOREM (refinement of html.collapse on the default map's list paths to a stack machine, for block
   sequences of ANY length and items of ANY depth): consecutive paragraph blocks nest exactly as Proofs/ListsSpec.v says —
   an item at depth d sits inside d lists; it continues the open list at depth d when that list has its own type,
   otherwise a new list is opened inside the open item of depth d-1; missing intermediate levels are bulleted lists with
   an empty item; a heading or plain paragraph closes every open list.  Observed through the open/close/text events of the
   collapsed forest, i.e. the shape and tag names of the HTML.  C08_list_paths above shows that the default map's paths for
   depths 1..5 are exactly `list_path d o`. *)
Theorem C08_default_lists_nest (bs : list block) :
  forallb block_ok bs = true ->
  fevents (collapse (fun s => s) (flat_map block_nodes bs)) = spec_events bs.
Proof. exact (default_lists_nest bs). Qed.

(* the machine on an example: bullet, numbered at depth 3 (one implicit level), numbered at depth 2, bullet at depth 2 *)
Example C08_nest_witness :
  forallb block_ok [BItem 1 false [Text [97]]; BItem 3 true [Text [98]]; BItem 2 true [Text [99]]; BItem 2 false [Text [100]]] = true /\
  spec_events [BItem 1 false [Text [97]]; BItem 3 true [Text [98]]; BItem 2 true [Text [99]]; BItem 2 false [Text [100]]] =
  [EOpen [117;108]; EOpen [108;105]; EText [97];
     EOpen [117;108]; EOpen [108;105]; EOpen [111;108]; EOpen [108;105]; EText [98]; EClose [108;105]; EClose [111;108]; EClose [108;105]; EClose [117;108];
     EOpen [111;108]; EOpen [108;105]; EText [99]; EClose [108;105]; EClose [111;108];
     EOpen [117;108]; EOpen [108;105]; EText [100]; EClose [108;105]; EClose [117;108];
   EClose [108;105]; EClose [117;108]].
Proof. vm_compute. split; reflexivity. Qed.

(* numbering resolution: the paragraph's own numId + ilvl take precedence (even when they resolve to nothing);
   otherwise the level of the paragraph style *)
Theorem C08_own_numbering_first (env : renv) (ps : option str) (numPr : xml) (n l : str) :
  attr [119;58;118;97;108] (find_child_or_null [119;58;110;117;109;73;100] numPr) = Some n ->
  attr [119;58;118;97;108] (find_child_or_null [119;58;105;108;118;108] numPr) = Some l ->
  read_numbering_props env ps numPr = find_level 64 (e_numbering env) (Some n) l.
Proof. exact (numbering_own_first env ps numPr n l). Qed.
Theorem C08_style_numbering_otherwise (env : renv) (sid : str) (numPr : xml) :
  attr [119;58;118;97;108] (find_child_or_null [119;58;110;117;109;73;100] numPr) = None \/ attr [119;58;118;97;108] (find_child_or_null [119;58;105;108;118;108] numPr) = None ->
  read_numbering_props env (Some sid) numPr = Ok (find_level_by_pstyle (e_numbering env) sid).
Proof. exact (numbering_style_otherwise env sid numPr). Qed.

(* non-vacuity: three items (1 bulleted, 2 numbered, 1 bulleted) collapse to one ul whose first li holds an ol *)
Example C08_witness :
  let item d o s := wrap_elems (list_path d o) [Text s] in
  collapse (fun s => s) (item 1%nat false [97] ++ item 2%nat true [98] ++ item 1%nat false [99]) =
  [Elem (list_tag false) [Elem li_fresh [Text [97]; Elem (list_tag true) [Elem li_fresh [Text [98]]]]; Elem li_fresh [Text [99]]]].
Proof. vm_compute. reflexivity. Qed.

Print Assumptions C08_headings_by_id.
Print Assumptions C08_headings_by_name_any_case.
Print Assumptions C08_list_paths.
Print Assumptions C08_otherwise_p.
Print Assumptions C08_blocks_fresh.
Print Assumptions C08_fresh_never_merges.
Print Assumptions C08_default_lists_nest.
Print Assumptions C08_own_numbering_first.
Print Assumptions C08_style_numbering_otherwise.
