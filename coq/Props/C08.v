From Mammoth Require Import Api.
Local Open Scope N_scope.
Example c08_placeholder : or_empty None = [].
Proof. reflexivity. Qed.
Print Assumptions c08_placeholder.
