From Mammoth Require Import Convert ConvertSpec ConvertRules.
Local Open Scope N_scope.
Example c11_placeholder : is_ignore PIgnore = true.
Proof. reflexivity. Qed.
Print Assumptions c11_placeholder.
