(* GENERATED from C11.v.in by tools/strlit.py — edit the .in file *)
(* C11 — run formatting becomes exactly the corresponding inline elements. *)
From Mammoth Require Import Api Cli Convert ConvertSpec ConvertRules ReaderSpec ReaderFacts MiscSpec MiscFacts HtmlCollapseSpec HtmlCollapse.
Local Open Scope N_scope.

(* ---------- how the reader decides that a property is on ---------- *)
Theorem C11_toggle_absent : read_bool_el None = false.
Proof. exact toggle_absent. Qed.
(* present: on unless w:val is false or 0 (a bare element is on) *)
Theorem C11_toggle_present (x : xml) :
  read_bool_el (Some x) = true <-> attr [119;58;118;97;108] x <> Some [102;97;108;115;101] /\ attr [119;58;118;97;108] x <> Some [48].
Proof. exact (toggle_present x). Qed.
(* underline: on only with a value other than false, 0, none *)
Theorem C11_underline (e : option xml) :
  read_underline_el e = true <->
  exists x v, e = Some x /\ attr [119;58;118;97;108] x = Some v /\ v <> [102;97;108;115;101] /\ v <> [48] /\ v <> [110;111;110;101].
Proof. exact (underline_reading e). Qed.
Theorem C11_highlight (v : option str) :
  read_highlight v = match v with
                     | Some s => if str_eqb s [] || str_eqb s [110;111;110;101] then None else Some s
                     | None => None
                     end.
Proof. exact (highlight_reading v). Qed.

Section Run.
  Variable o : copts.
  Variable cm : list comment.
  (* a run is its children wrapped in: run style path (outermost), bold, italic, sup/sub, underline,
     strike, all caps, small caps, highlight (innermost) — one entry per property that is ON, none otherwise *)
  Theorem C11_run cs sid sname bold italic underline strike allcaps smallcaps valign highlight hdr st :
    let paths := run_prop_paths o bold italic underline strike allcaps smallcaps valign highlight ++ [run_style_path o sid sname] in
    let st1 := fold_left (fun s m => add_msg m s) (style_warning k_run (has_style o (TRun sid sname)) sid sname) st in
    visit o cm (DRun cs sid sname bold italic underline strike allcaps smallcaps valign highlight) hdr st =
    if existsb is_ignore paths then Ok (apply_paths paths [], st1)
    else match visit_list o cm cs hdr st1 with
         | Ok (content, st') => Ok (apply_paths paths content, st')
         | LineError => LineError
         | Crash w => Crash w
         end.
  Proof. exact (visit_run_eq o cm cs sid sname bold italic underline strike allcaps smallcaps valign highlight hdr st). Qed.

  Theorem C11_wrappers_nest (paths : list hpath) (inner : list (node str)) :
    existsb is_ignore paths = false ->
    apply_paths paths inner = fold_right (fun t acc => [Elem t acc]) inner (flat_map path_tags (rev paths)).
  Proof. exact (apply_paths_no_ignore paths inner). Qed.

  (* the element for a property: the mapped path when a mapping exists, else strong / em / s for
     bold / italic / strikethrough, and nothing for underline, all caps, small caps *)
  Theorem C11_default_elements (t : target) (d : option str) :
    find_style (o_style_map o) t = None ->
    prop_path o t d = match d with Some x => PElems [coll_tag x []] | None => PElems [] end.
  Proof. exact (prop_path_default o t d). Qed.

  Theorem C11_no_formatting_no_element cs hdr st :
    find_style (o_style_map o) (TRun None None) = None ->
    visit o cm (DRun cs None None false false false false false false s_baseline None) hdr st = visit_list o cm cs hdr st.
  Proof. exact (plain_run_adds_nothing o cm cs hdr st). Qed.
End Run.

(* the formatting of one run never extends over the text of another: every leaf a run produces sits under exactly THAT
   run's wrappers; and by C04_paths collapsing only joins elements along legal matches with identical attributes *)
Theorem C11_formatting_local (o : copts) (cm : list comment) cs sid sname bold italic underline strike allcaps smallcaps valign highlight hdr st ns st' :
  visit o cm (DRun cs sid sname bold italic underline strike allcaps smallcaps valign highlight) hdr st = Ok (ns, st') ->
  Forall (fun p => exists rest, fst p = run_wrapper_tags o sid sname bold italic underline strike allcaps smallcaps valign highlight ++ rest)
         (leaves ns).
Proof. exact (visit_run_leaves o cm cs sid sname bold italic underline strike allcaps smallcaps valign highlight hdr st ns st'). Qed.

Example C11_witness :
  let o := mkOpts [] [] true ConvDataUri in
  run_wrapper_tags o None None true true false true false false s_superscript None
  = [coll_tag [115;116;114;111;110;103] []; coll_tag [101;109] []; coll_tag [115;117;112] []; coll_tag [115] []].
Proof. vm_compute. reflexivity. Qed.

Print Assumptions C11_toggle_absent.
Print Assumptions C11_toggle_present.
Print Assumptions C11_underline.
Print Assumptions C11_highlight.
Print Assumptions C11_run.
Print Assumptions C11_wrappers_nest.
Print Assumptions C11_default_elements.
Print Assumptions C11_no_formatting_no_element.
Print Assumptions C11_formatting_local.
