(* C03 — style mappings resolve by first match, with user > embedded > default precedence. *)
From Mammoth Require Import Convert ConvertSpec ConvertRules Options DefaultStyleMap ParserSpec ParserFacts.
Local Open Scope N_scope.

(* searching a concatenation searches the first part first: with read_options_order below this is
   "explicit style_map, then the embedded map, then the defaults" *)
Theorem C03_find_style_app (a b : list style) (t : target) :
  find_style (a ++ b) t = match find_style a t with Some s => Some s | None => find_style b t end.
Proof. exact (find_style_app a b t). Qed.

(* the style found is the FIRST one whose matcher matches *)
Theorem C03_first_match (sm : list style) (t : target) (s : style) :
  find_style sm t = Some s <->
  exists pre post, sm = pre ++ s :: post /\ matches (s_matcher s) t = true
                   /\ Forall (fun s' => matches (s_matcher s') t = false) pre.
Proof. exact (find_style_first sm t s). Qed.

Theorem C03_no_match (sm : list style) (t : target) :
  find_style sm t = None <-> Forall (fun s' => matches (s_matcher s') t = false) sm.
Proof. exact (find_style_none sm t). Qed.

(* the style map the converter searches: readable lines of style_map, then of the embedded map
   (the caller passes "" when include_embedded_style_map is off or the part is absent), then the
   built-in defaults unless disabled *)
Theorem C03_precedence (custom embedded : str) (include_default : bool) :
  read_options_style_map custom embedded include_default
  = Ok (filter_map good_line (style_map_lines custom)
        ++ filter_map good_line (style_map_lines embedded)
        ++ (if include_default then default_style_map else []),
        unique str_eqb (filter_map bad_line (style_map_lines custom) ++ filter_map bad_line (style_map_lines embedded))).
Proof. exact (read_options_order custom embedded include_default). Qed.

(* a mapping matches only when the element kind agrees ... *)
Theorem C03_kind (m : matcher) (t : target) : matches m t = true -> mkind m = tkind t.
Proof. exact (matches_kind m t). Qed.
(* ... the style ID is equal, the style name equal or a prefix after upper-casing, the list level and orderedness equal *)
Theorem C03_paragraph i n l ei en el :
  matches (MParagraph i n l) (TPara ei en el) = true <-> sid_rel i ei /\ sname_rel n en /\ num_rel l el.
Proof. exact (matches_paragraph_iff i n l ei en el). Qed.
Theorem C03_run i n ei en : matches (MRun i n) (TRun ei en) = true <-> sid_rel i ei /\ sname_rel n en.
Proof. exact (matches_run_iff i n ei en). Qed.
Theorem C03_table i n ei en : matches (MTable i n) (TTable ei en) = true <-> sid_rel i ei /\ sname_rel n en.
Proof. exact (matches_table_iff i n ei en). Qed.
Theorem C03_highlight c ec : matches (MHighlight c) (THighlight ec) = true <-> (forall x, c = Some x -> x = ec).
Proof. exact (matches_highlight_iff c ec). Qed.
Theorem C03_break b eb : matches (MBreak b) (TBreak eb) = true <-> b = eb.
Proof. exact (matches_break_iff b eb). Qed.

Section Rendering.
  Variable o : copts.
  Variable cm : list comment.
  (* nothing matches: a paragraph becomes a fresh p (para_path), a table a table (table_path), a run adds no element *)
  Theorem C03_unmatched_run cs hdr st :
    find_style (o_style_map o) (TRun None None) = None ->
    visit o cm (DRun cs None None false false false false false false s_baseline None) hdr st = visit_list o cm cs hdr st.
  Proof. exact (plain_run_adds_nothing o cm cs hdr st). Qed.
  Theorem C03_unmatched_property (t : target) (d : option str) :
    find_style (o_style_map o) t = None ->
    prop_path o t d = match d with Some x => PElems [coll_tag x []] | None => PElems [] end.
  Proof. exact (prop_path_default o t d). Qed.
  (* a `!` path drops the matched element together with its contents *)
  Theorem C03_ignore_paragraph cs sid sname num hdr st :
    para_path o sid sname num = PIgnore -> visit o cm (DParagraph cs sid sname num) hdr st = Ok ([], st).
  Proof. exact (ignore_drops_paragraph o cm cs sid sname num hdr st). Qed.
  Theorem C03_ignore_table cs sid sname hdr st :
    table_path o sid sname = PIgnore -> visit o cm (DTable cs sid sname) hdr st = Ok ([], st).
  Proof. exact (ignore_drops_table o cm cs sid sname hdr st). Qed.
End Rendering.

(* non-vacuity: a case-insensitive name match beats a later exact-id match, and a prefix decoy does not match *)
Example C03_witness :
  let m1 := mkStyle (MParagraph None (Some (SPrefix [104;101;97;100])) None) (PElems []) in   (* ^= 'head' *)
  let m2 := mkStyle (MParagraph (Some [72;49]) None None) PIgnore in                         (* .H1 *)
  find_style [m1; m2] (TPara (Some [72;49]) (Some [72;69;65;68;105;110;103]) None) = Some m1 /\
  find_style [m1; m2] (TPara (Some [72;49]) (Some [97;104;101;97;100]) None) = Some m2.
Proof. vm_compute. split; reflexivity. Qed.

Print Assumptions C03_find_style_app.
Print Assumptions C03_first_match.
Print Assumptions C03_no_match.
Print Assumptions C03_precedence.
Print Assumptions C03_kind.
Print Assumptions C03_paragraph.
Print Assumptions C03_run.
Print Assumptions C03_table.
Print Assumptions C03_highlight.
Print Assumptions C03_break.
Print Assumptions C03_unmatched_run.
Print Assumptions C03_unmatched_property.
Print Assumptions C03_ignore_paragraph.
Print Assumptions C03_ignore_table.
