From Mammoth Require Import Html.
Example c04_placeholder : collapse (fun s => s) [] = [].
Proof. reflexivity. Qed.
Print Assumptions c04_placeholder.
