(* C04 — adjacent output elements merge exactly as the freshness rules say.
   Only statements here; each is closed by `exact <lemma>` from Proofs/HtmlCollapse.v. *)
From Mammoth Require Import Html Writer HtmlCollapseSpec HtmlCollapse.
From Coq Require Import Relations.
Local Open Scope N_scope.

Section C04.
  Context {A : Type} (mk : str -> A).

  (* the code as written (mammoth.html.collapse, re-collapsing on fuel) IS the structural specification *)
  Theorem C04_code_is_spec (ns : list (node A)) (fuel : nat) :
    (fsize ns < fuel)%nat -> collapse_f mk fuel ns = Some (collapse mk ns).
  Proof. exact (collapse_f_spec mk ns fuel). Qed.

  (* "if and only if": a later sibling disappears into the element before it exactly when it is not
     fresh, one of its tag names is the earlier element's tag, and the attributes are identical *)
  Theorem C04_merge_iff (acc : list (node A)) (cn : node A) :
    length (merge_into mk acc cn) = length acc
    <-> exists init l, acc = init ++ [l] /\ mergeable l cn = true.
  Proof. exact (merge_iff mk acc cn). Qed.

  Theorem C04_match_conditions (l n : tag) :
    is_match l n = true <-> In (tname l) (tnames n) /\ tattrs l = tattrs n.
  Proof. exact (is_match_iff l n). Qed.

  (* merging appends the children, preceded by the separator, applying the same rule recursively *)
  Theorem C04_merge_shape init lt lcs nt ncs :
    tcoll nt && is_match lt nt = true ->
    merge_into mk (init ++ [Elem lt lcs]) (Elem nt ncs)
    = init ++ [Elem lt (merge_all mk ncs (lcs ++ sep_nodes mk nt))].
  Proof. exact (merge_into_merge mk init lt lcs nt ncs). Qed.

  Theorem C04_refuse_shape (acc : list (node A)) (cn : node A) :
    (forall init l, acc = init ++ [l] -> mergeable l cn = false) -> merge_into mk acc cn = acc ++ [cn].
  Proof. exact (merge_into_refuse mk acc cn). Qed.

  (* no adjacent mergeable pair is left at any depth, and the result is a fixed point *)
  Theorem C04_normal_form (ns : list (node A)) : nf_forest (collapse mk ns) = true.
  Proof. exact (collapse_nf mk ns). Qed.

  Theorem C04_idempotent (ns : list (node A)) : collapse mk (collapse mk ns) = collapse mk ns.
  Proof. exact (collapse_idem mk ns). Qed.
End C04.

(* never loses, duplicates or reorders leaves; never joins elements with different attributes, and
   tags are joined only along legal match steps.  Separator text (inr) is the only addition. *)
Theorem C04_paths {B : Type} (ns : list (node (B + str))) :
  forallb all_inl ns = true ->
  Forall2 (fun po pi => snd po = snd pi /\
                        Forall2 (fun o i => tattrs o = tattrs i /\ match_star o i) (fst po) (fst pi))
          (filter is_orig (leaves (collapse inr ns))) (leaves ns).
Proof. exact (collapse_paths ns). Qed.

Theorem C04_text_without_separators (ns : list (node str)) :
  forallb no_sep_node ns = true -> forest_text (collapse (fun s => s) ns) = forest_text ns.
Proof. exact (collapse_text_nosep ns). Qed.

(* non-vacuity: a forest in which one merge happens (through a `|` alternative, with a separator)
   and one is refused (different attributes) *)
Example C04_witness :
  let ol := mkTag [111;108] [] [] true None in
  let ulol := mkTag [117;108] [[111;108]] [] true (Some [45]) in
  let p1 := mkTag [112] [] [([97],[49])] true None in
  let p := mkTag [112] [] [] true None in
  collapse (fun s => s) [Elem ol [Text [49]]; Elem ulol [Text [50]]; Elem p1 [Text [51]]; Elem p [Text [52]]]
  = [Elem ol [Text [49]; Text [45]; Text [50]]; Elem p1 [Text [51]]; Elem p [Text [52]]].
Proof. vm_compute. reflexivity. Qed.

Print Assumptions C04_code_is_spec.
Print Assumptions C04_merge_iff.
Print Assumptions C04_match_conditions.
Print Assumptions C04_merge_shape.
Print Assumptions C04_refuse_shape.
Print Assumptions C04_normal_form.
Print Assumptions C04_idempotent.
Print Assumptions C04_paths.
Print Assumptions C04_text_without_separators.
