From Mammoth Require Import Api.
Local Open Scope N_scope.
Example c15_placeholder : or_empty None = [].
Proof. reflexivity. Qed.
Print Assumptions c15_placeholder.
