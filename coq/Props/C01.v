(* C01 — all live document text reaches the output exactly once, in order (document tree -> HTML text). *)
From Mammoth Require Import Api Convert ConvertSpec ConvertTrace WriterSpec WriterFacts HtmlStrip HtmlCollapse HtmlCollapseSpec.
Local Open Scope N_scope.

Section Visit.
  Variable o : copts.
  Variable cm : list comment.

  (* whatever the converter emits for an element, its text is the reading-order text of the element
     (`walk`: paragraphs, runs, cells in order; `[k]` at the k-th note reference; `[initials k]` at comment
     references when a mapping enables them; nothing for content under a `!` mapping) — and the note
     references it registers are exactly those of the traversal, in order *)
  Theorem C01_element_text (e : delem) (hdr : bool) (st st' : cstate) (ns : list (node str)) :
    visit o cm e hdr st = Ok (ns, st') ->
    let w := walk o cm e (st_nn st) (st_nc st) (st_imgs st) in
    forest_text ns = t_text w /\
    st_notes st' = st_notes st ++ t_refs w /\
    map (fun lc => c_id (snd lc)) (st_comments st') = map (fun lc => c_id (snd lc)) (st_comments st) ++ t_crefs w /\
    st_msgs st' = st_msgs st ++ t_msgs w /\
    st_imgs st' = st_imgs st + t_imgs w.
  Proof. exact (visit_walk o cm e hdr st st' ns). Qed.

  (* the notes come after the body in reference order, each followed by " ↑" *)
  Theorem C01_notes_text (ns : list note) (st st' : cstate) (nl : list (node str)) :
    visit_notes o cm ns st = Ok (nl, st') ->
    let w := notes_trace o cm ns (st_nn st) (st_nc st) (st_imgs st) in
    forest_text nl = t_text w /\ st_notes st' = st_notes st ++ t_refs w /\ st_msgs st' = st_msgs st ++ t_msgs w.
  Proof. exact (visit_notes_walk o cm ns st st' nl). Qed.
End Visit.

(* strip_empty and collapse neither lose, duplicate nor reorder text *)
Theorem C01_strip_keeps_text (ns : list (node str)) : forest_text (strip_empty ns) = forest_text ns.
Proof. exact (strip_text ns). Qed.
Theorem C01_collapse_keeps_text (ns : list (node str)) :
  forallb no_sep_node ns = true -> forest_text (collapse (fun s => s) ns) = forest_text ns.
Proof. exact (collapse_text_nosep ns). Qed.

(* END TO END at document level, for every document tree, every style map without :separator whose
   names are plain, every option combination: the returned HTML, read back by the independent lexer
   (tags removed, entities decoded), has exactly the text of the forest the visitor produced *)
Theorem C01_html_text (o : copts) (d : document) (html : str) (msgs : list str) :
  Forall (fun t => tag_no_sep t = true) (style_tags (o_style_map o)) ->
  Forall (fun t => plain_name (tname t) = true /\ forallb (fun kv => plain_name (fst kv)) (tattrs t) = true)
         (style_tags (o_style_map o)) ->
  convert_document_html o d = Ok (html, msgs) ->
  exists nodes st ts,
    visit_document o d init_state = Ok (nodes, st) /\
    lex_html html = Some ts /\ tokens_text ts = forest_text nodes.
Proof. exact (convert_text o d html msgs). Qed.

(* non-vacuity: two paragraphs, a note reference, a run under a `!` mapping *)
Example C01_witness :
  let sm := [mkStyle (MRun (Some [88]) None) PIgnore] in
  let o := mkOpts sm [] true ConvDataUri in
  let d := mkDoc [DParagraph [DRun [DText [97]; DNoteRef [102] [49]] None None false false false false false false s_baseline None;
                              DRun [DText [98]] (Some [88]) None false false false false false false s_baseline None] None None None;
                  DParagraph [DText [99]] None None None]
                 [mkNote [102] [49] [DParagraph [DText [110]] None None None]] [] in
  convert_document_html o d =
  Ok ([60;112;62;97;60;115;117;112;62;60;97;32;104;114;101;102;61;34;35;102;45;49;34;32;105;100;61;34;102;45;114;101;102;45;49;34;62;91;49;93;60;47;97;62;60;47;115;117;112;62;60;47;112;62;60;112;62;99;60;47;112;62;60;111;108;62;60;108;105;32;105;100;61;34;102;45;49;34;62;60;112;62;110;32;60;97;32;104;114;101;102;61;34;35;102;45;114;101;102;45;49;34;62;8593;60;47;97;62;60;47;112;62;60;47;108;105;62;60;47;111;108;62], []).
Proof. vm_compute. reflexivity. Qed.

Print Assumptions C01_element_text.
Print Assumptions C01_notes_text.
Print Assumptions C01_strip_keeps_text.
Print Assumptions C01_collapse_keeps_text.
Print Assumptions C01_html_text.
