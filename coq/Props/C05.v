From Mammoth Require Import Api.
Example c05_placeholder : or_empty None = [].
Proof. reflexivity. Qed.
Print Assumptions c05_placeholder.
