(* GENERATED from C05.v.in by tools/strlit.py — edit the .in file *)
(* C05 — converting any supported document returns a result instead of raising. *)
From Mammoth Require Import Api Cli Dom ReaderTables ReaderSpec CrashFacts CrashCodes ConvertSpec ConvertTrace ParserSpec ParserFacts MiscSpec MiscFacts.
Local Open Scope N_scope.

(* Every Python exception site of the modelled pipeline is an explicit Crash value of the model.
   THE classification theorem: for EVERY package and EVERY option combination, convert_to_html either
   returns a result, or fails with one of the enumerated causes — each of which the property places
   outside its domain (Proofs/ReaderSpec.v.in: required attributes missing, ids that do not resolve,
   unbalanced fldChar, non-numeric gridSpan / sym, ill-formed package structure, cyclic numStyleLink;
   21 = the ROOT element of a part is mc:AlternateContent, not schema-valid).  In particular a missing
   mc:Fallback (formerly Crash 20, fix 9fb343f) and a dangling numStyleLink (formerly Crash 34, fix
   7eb27cb) are NOT among them, nor is any style-map text, nor LineParseError. *)
Theorem C05_convert_to_html_failures (s : source) (a : api_opts) :
  match convert_to_html s a with
  | Ok _ => True
  | LineError => False
  | Crash w => In w (domain_codes ++ [21])
  end.
Proof. exact (convert_to_html_crash_codes_partial_list s a). Qed.

Theorem C05_convert_to_markdown_failures (s : source) (a : api_opts) :
  match convert_to_markdown s a with
  | Ok _ => True
  | LineError => False
  | Crash w => In w (domain_codes ++ [21])
  end.
Proof. exact (convert_to_markdown_crash_codes_partial_list s a). Qed.

Theorem C05_extract_raw_text_failures (s : source) :
  match extract_raw_text s with
  | Ok _ => True
  | LineError => False
  | Crash w => In w (domain_codes ++ [21])
  end.
Proof. exact (extract_raw_text_crash_codes_partial_list s). Qed.

(* the dispatch table read from the source only uses handlers the model knows *)
Theorem C05_handlers_known :
  forallb (fun h => N.leb 1 (fst (snd h)) && N.leb (fst (snd h)) 23) reader_handlers = true.
Proof. exact handler_codes_known. Qed.

(* reading the options never fails, whatever the style-map strings *)
Theorem C05_options_total (custom embedded : str) (d : bool) : exists r, read_options_style_map custom embedded d = Ok r.
Proof. eexists. exact (read_options_order custom embedded d). Qed.

(* the converter itself fails only on a rendered comment reference whose comment does not exist *)
Theorem C05_visit_total (o : copts) (cm : list comment) (e : delem) (hdr : bool) (st : cstate) :
  crefs_resolve cm (t_crefs (walk o cm e (st_nn st) (st_nc st) (st_imgs st))) = true ->
  exists ns st', visit o cm e hdr st = Ok (ns, st').
Proof. exact (visit_total o cm e hdr st). Qed.

(* the markdown writer never fails, whatever forest it is given (its element and list-state stacks stay balanced) *)
Theorem C05_markdown_writer_total (ns : list (node str)) : exists s, write_markdown ns = Ok s.
Proof. exact (write_markdown_total ns). Qed.

(* non-vacuity: the out-of-domain causes do crash the model (each hypothesis is needed) *)
Example C05_unsupported_crashes :
  let doc body := mkSource [([119;111;114;100;47;100;111;99;117;109;101;110;116;46;120;109;108], PXml (XElem [119;58;100;111;99;117;109;101;110;116] [] [XElem [119;58;98;111;100;121] [] body]))] false [] in
  let a := mkApi None true true true None ConvDataUri in
  convert_to_html (doc [XElem [119;58;112] [] [XElem [119;58;114] [] [XElem [119;58;102;108;100;67;104;97;114] [([119;58;102;108;100;67;104;97;114;84;121;112;101], [101;110;100])] []]]]) a = Crash 50 /\
  convert_to_html (doc [XElem [119;58;112] [] [XElem [119;58;114] [] [XElem [119;58;102;111;111;116;110;111;116;101;82;101;102;101;114;101;110;99;101] [] []]]]) a = Crash 57 /\
  convert_to_html (doc [XElem [119;58;112] [] [XElem [119;58;104;121;112;101;114;108;105;110;107] [([114;58;105;100], [114;73;100;57])] []]]) a = Crash 53 /\
  (exists r, convert_to_html (doc [XElem [109;99;58;65;108;116;101;114;110;97;116;101;67;111;110;116;101;110;116] [] [XElem [109;99;58;67;104;111;105;99;101] [] []]]) a = Ok r).
Proof. vm_compute. repeat split; try reflexivity. eexists; reflexivity. Qed.

Print Assumptions C05_convert_to_html_failures.
Print Assumptions C05_convert_to_markdown_failures.
Print Assumptions C05_extract_raw_text_failures.
Print Assumptions C05_handlers_known.
Print Assumptions C05_options_total.
Print Assumptions C05_visit_total.
Print Assumptions C05_markdown_writer_total.
