From Mammoth Require Import Html Writer WriterSpec.
Example c02_placeholder : write_html [] = [].
Proof. reflexivity. Qed.
Print Assumptions c02_placeholder.
