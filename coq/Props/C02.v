(* C02 — HTML output is well-formed and document strings never become markup (writer level). *)
From Mammoth Require Import Html Writer Escape WriterSpec WriterFacts.
Local Open Scope N_scope.

(* the escape table read from the source is exactly the ampersand, less-than, greater-than and double-quote characters with their four entities *)
Theorem C02_escape_table : escape_table = [(34, e_quot); (38, e_amp); (60, e_lt); (62, e_gt)].
Proof. exact escape_table_spec. Qed.

(* less-than, greater-than and double-quote never occur in escaped text or attribute values; every & starts one of the four entities *)
Theorem C02_no_raw_specials (s : str) (c : N) : In c (escape s) -> c <> 60 /\ c <> 62 /\ c <> 34.
Proof. exact (escape_no_specials s c). Qed.
Theorem C02_ampersands_are_entities (s : str) : amps_ok (escape s) = true.
Proof. exact (escape_amps_ok s). Qed.

(* every document string decodes back to exactly the original *)
Theorem C02_decode_escape (s : str) : decode_entities (escape s) = s.
Proof. exact (decode_escape s). Qed.

(* start and end tags balance and nest *)
Theorem C02_balanced (ns : list (node str)) : balanced [] (events ns) = true.
Proof. exact (events_balanced ns). Qed.

(* THE codec round trip, for every forest with plain tag and attribute names: an independent reader
   (which rejects raw < > in text, raw quotes, stray ampersands, unquoted or malformed attributes)
   recovers from the written string exactly the forest's events: names, double-quoted attribute
   values decoded to the originals, text decoded to the original, childless void elements self-closed *)
Theorem C02_lex_write (ns : list (node str)) :
  forallb plain_node ns = true -> lex_html (write_html ns) = Some (norm_events (events ns)).
Proof. exact (lex_write ns). Qed.

(* substituting document strings (text, attribute values) changes no tag, attribute name or nesting *)
Theorem C02_skeleton (f : str -> str) (ns : list (node str)) :
  map tok_skel (events (map (map_strings f) ns)) = map tok_skel (events ns).
Proof. exact (events_skeleton f ns). Qed.

Example C02_witness :
  let a := mkTag [97] [] [([104;114;101;102], [34;60;38;62])] true None in
  let br := mkTag [98;114] [] [] false None in
  forallb plain_node [Elem a [Text [60;38]; Elem br []]] = true /\
  lex_html (write_html [Elem a [Text [60;38]; Elem br []]])
  = Some [TStart [97] [([104;114;101;102], [34;60;38;62])]; TText [60;38]; TSelf [98;114] []; TEnd [97]].
Proof. vm_compute. split; reflexivity. Qed.

Print Assumptions C02_escape_table.
Print Assumptions C02_no_raw_specials.
Print Assumptions C02_ampersands_are_entities.
Print Assumptions C02_decode_escape.
Print Assumptions C02_balanced.
Print Assumptions C02_lex_write.
Print Assumptions C02_skeleton.
