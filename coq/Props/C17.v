From Mammoth Require Import Api.
Local Open Scope N_scope.
Example c17_placeholder : or_empty None = [].
Proof. reflexivity. Qed.
Print Assumptions c17_placeholder.
