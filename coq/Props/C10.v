From Mammoth Require Import Api.
Local Open Scope N_scope.
Example c10_placeholder : or_empty None = [].
Proof. reflexivity. Qed.
Print Assumptions c10_placeholder.
