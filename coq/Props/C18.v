From Mammoth Require Import Api.
Local Open Scope N_scope.
Example c18_placeholder : or_empty None = [].
Proof. reflexivity. Qed.
Print Assumptions c18_placeholder.
