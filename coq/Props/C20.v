From Mammoth Require Import Cli.
Local Open Scope N_scope.
Example c20_placeholder : image_files [] 1 = [].
Proof. reflexivity. Qed.
Print Assumptions c20_placeholder.
