From Mammoth Require Import Options.
Example c07_placeholder : style_map_lines [] = [].
Proof. reflexivity. Qed.
Print Assumptions c07_placeholder.
