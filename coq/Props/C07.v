(* C07 — reading a style map never fails and never hangs. *)
From Mammoth Require Import Options DefaultStyleMap TokenRules RegexSpec RegexFacts ParserSpec ParserFacts.
Local Open Scope N_scope.

(* ---------- totality ---------- *)
(* a line (no newline inside) always tokenises: the catch-all rule applies and no rule matches the empty string *)
Theorem C07_tokenise_total (s : str) : no_newline s -> exists ts, tokenise s = Ok ts.
Proof. exact (tokenise_total s). Qed.

(* the token iterator never reads past END and no parser loop runs out of fuel *)
Theorem C07_parser_in_bounds (ts : toks) : wf_toks ts -> forall w, parse_style_mapping ts <> Crash w.
Proof. exact (parse_style_mapping_no_crash ts). Qed.

(* every line is either applied or rejected by LineParseError (reported, then ignored) — never an exception *)
Theorem C07_line_total (s : str) : no_newline s -> exists r, read_style_mapping s = Ok r.
Proof. exact (read_style_mapping_total s). Qed.

(* blank lines and # lines are not read at all *)
Theorem C07_lines (text l : str) : In l (style_map_lines text) -> no_newline l /\ l <> [] /\ hd 0 l <> 35.
Proof. exact (style_map_lines_ok text l). Qed.

(* for EVERY text: the result is the mappings of the readable lines, in order, and one warning
   quoting each distinct unreadable line, in order of first occurrence *)
Theorem C07_read_style_map (text : str) :
  read_style_map text
  = Ok (filter_map good_line (style_map_lines text),
        unique str_eqb (filter_map bad_line (style_map_lines text))).
Proof. exact (read_style_map_spec text). Qed.

Theorem C07_applied_or_reported (text l : str) :
  In l (style_map_lines text) ->
  (good_line l <> None /\ bad_line l = None) \/ (good_line l = None /\ bad_line l <> None).
Proof. exact (read_style_map_partition text l). Qed.

Theorem C07_warnings_once (l : list str) :
  NoDup (unique str_eqb l) /\ (forall x, In x (unique str_eqb l) <-> In x l).
Proof. exact (unique_spec l). Qed.

(* ---------- no exponential backtracking (cost model of a priority-order backtracking matcher) ---------- *)
(* the token rules read from the source are deterministic: in every repetition the alternatives
   start with pairwise disjoint character classes.  FALSE for the STRING rule before fix 885c918. *)
Theorem C07_token_rules_deterministic : forallb (fun p => rule_det (snd p)) token_rules = true.
Proof. exact token_rules_deterministic. Qed.

Theorem C07_det_rule_polynomial (r : rule) (s : str) :
  rule_det r = true -> re_steps r s <= bound r (N.of_nat (length s)).
Proof. exact (det_match_bound r s). Qed.

Theorem C07_bound_is_polynomial (r : rule) :
  exists c, forall n, bound r n <= c * (n + 1) ^ N.of_nat (stars r).
Proof. exact (bound_poly r). Qed.

Theorem C07_token_rule_linear :
  exists c, forall ty r s, In (ty, r) token_rules -> re_steps r s <= c * (N.of_nat (length s) + 1).
Proof. exact token_rule_steps_linear. Qed.

Theorem C07_tokenise_quadratic :
  exists c, forall s, tokenise_steps s <= c * (N.of_nat (length s) + 1) * (N.of_nat (length s) + 1).
Proof. exact tokenise_steps_quadratic. Qed.

(* non-vacuity / witness: the old STRING rule is rejected by the determinism test and its cost on
   quote + 20 backslashes is 85967 steps; the current rule needs 65 *)
Example C07_old_rule_refuted :
  let old := [AAlt [[CSet [(39, 39)] false]]; AStar [[CSet [(92, 92)] false; CAny]; [CNot [(39, 39)] false]]; AAlt [[CSet [(39, 39)] false]]] in
  rule_det old = false /\ re_steps old (39 :: repeat 92 20) = 85967.
Proof. vm_compute. split; reflexivity. Qed.

Print Assumptions C07_tokenise_total.
Print Assumptions C07_parser_in_bounds.
Print Assumptions C07_line_total.
Print Assumptions C07_lines.
Print Assumptions C07_read_style_map.
Print Assumptions C07_applied_or_reported.
Print Assumptions C07_warnings_once.
Print Assumptions C07_token_rules_deterministic.
Print Assumptions C07_det_rule_polynomial.
Print Assumptions C07_bound_is_polynomial.
Print Assumptions C07_token_rule_linear.
Print Assumptions C07_tokenise_quadratic.
