From Mammoth Require Import Options PrintSpec.
Local Open Scope N_scope.
Example c06_placeholder : print_path AIgnore [] = [33].
Proof. reflexivity. Qed.
Print Assumptions c06_placeholder.
