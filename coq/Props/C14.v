(* C14 — empty content is dropped by default and kept on request, never the reverse (forest level). *)
From Mammoth Require Import Html Writer HtmlTables HtmlStrip.
From Mammoth Require Import Api Cli Convert ConvertSpec MiscSpec MiscFacts EmptySpec EmptyFacts.
Local Open Scope N_scope.

(* a node disappears exactly when it has no content: no non-empty text, no force-write marker
   (bookmarks, table structure, paragraphs when ignore_empty_paragraphs=False), no childless void element *)
Theorem C14_dropped_iff_empty (n : node str) : strip_node n = [] <-> keep n = false.
Proof. exact (strip_keep_iff n). Qed.

Theorem C14_strip_shape (n : node str) :
  strip_node n = if keep n then [match n with Elem t cs => Elem t (strip_empty cs) | _ => n end] else [].
Proof. exact (strip_spec n). Qed.

(* the output contains no empty text and no childless element other than br/hr/img/input, at any depth *)
Theorem C14_nothing_empty_left (ns : list (node str)) : forallb hne (strip_empty ns) = true.
Proof. exact (strip_all_kept ns). Qed.

(* nothing that has content is removed, nothing is added, order and ancestor chains are unchanged *)
Theorem C14_content_preserved (ns : list (node str)) :
  citems (strip_empty ns) = filter has_content (citems ns).
Proof. exact (strip_content_preserved ns). Qed.

Theorem C14_text_preserved (ns : list (node str)) : forest_text (strip_empty ns) = forest_text ns.
Proof. exact (strip_text ns). Qed.

Theorem C14_idempotent (ns : list (node str)) : strip_empty (strip_empty ns) = strip_empty ns.
Proof. exact (strip_idem ns). Qed.

(* "void" is exactly br, hr, img, input: the table Element._VOID_TAG_NAMES, regenerated from html/nodes.py on every run, holds
   these four names and no other — a childless element of any other name is empty content and is dropped *)
Theorem C14_void_elements_are_br_hr_img_input :
  forallb (fun n => mem_str n [[98;114]; [104;114]; [105;109;103]; [105;110;112;117;116]]) HtmlTables.void_tag_names
  && forallb (fun n => mem_str n HtmlTables.void_tag_names) [[98;114]; [104;114]; [105;109;103]; [105;110;112;117;116]] = true.
Proof. vm_compute. reflexivity. Qed.

(* conversion level: with ignore_empty_paragraphs = False every paragraph that no `!` mapping drops yields its block, empty or not *)
Theorem C14_paragraph_kept_on_request (o : copts) (cm : list comment) cs sid sname num hdr st ns st' t l :
  o_ignore_empty o = false -> para_path o sid sname num = PElems (t :: l) ->
  visit o cm (DParagraph cs sid sname num) hdr st = Ok (ns, st') ->
  exists kids, strip_empty ns = [Elem t kids].
Proof. exact (paragraph_block_kept o cm cs sid sname num hdr st ns st' t l). Qed.
(* by default (ignore_empty_paragraphs = True) a paragraph yields no block exactly when its converted content holds nothing that
   counts as content — no non-empty text, no force-write marker (bookmark, table structure), no childless void element —
   unless it is mapped to a void element and has no children at all *)
Theorem C14_paragraph_dropped_by_default (o : copts) (cm : list comment) cs sid sname num hdr st ns st' t l :
  o_ignore_empty o = true -> para_path o sid sname num = PElems (t :: l) ->
  visit o cm (DParagraph cs sid sname num) hdr st = Ok (ns, st') ->
  exists content st1,
    visit_list o cm cs hdr st1 = Ok (content, st') /\
    (strip_empty ns = [] <->
     existsb keep content = false /\ (content <> [] \/ mem_str (tname (last (t :: l) t)) HtmlTables.void_tag_names = false)).
Proof. exact (paragraph_dropped_iff o cm cs sid sname num hdr st ns st' t l). Qed.
(* bookmark anchors and table structure are never dropped *)
Theorem C14_structure_kept (o : copts) (cm : list comment) (e : delem) hdr st ns st' :
  (match e with DBookmark _ | DTableRow _ _ | DTableCell _ _ _ => True | _ => False end) ->
  visit o cm e hdr st = Ok (ns, st') -> forallb nkeep ns = true /\ ns <> [].
Proof. exact (structure_kept o cm e hdr st ns st'). Qed.

Example C14_witness :
  let p := mkTag [112] [] [] true None in
  let br := mkTag [98;114] [] [] false None in
  strip_empty [Elem p [Elem p [Text []]]; Elem p [Elem br []; Text []]; Elem br [Text []]; Elem p [Force]]
  = [Elem p [Elem br []]; Elem p [Force]].
Proof. vm_compute. reflexivity. Qed.

(* ---------- the FINAL forest (after strip_empty AND collapse), for every document and every option combination ----------
   no element of the output lacks content beneath it (non-empty text, a childless void element, or - on request - the marker that
   ignore_empty_paragraphs=False puts into every paragraph) *)
Theorem C14_final_forest_no_empty_element (o : copts) (d : document) (forest : list (node str)) (msgs : list str) :
  convert_document_forest o d = Ok (forest, msgs) -> forallb hne forest = true.
Proof. exact (final_forest_no_empty_element o d forest msgs). Qed.

(* "nothing that does contain such content is removed", through both stages: the content leaves (non-empty texts, markers, childless void
   elements with their tags) of the output are those of what the visitor emitted, in order, for style maps without :separator whose void tags
   (br hr img input) are :fresh and are not `|` alternatives of collapsible tags - true of the default map.  Without the second condition
   collapse can merge a collapsible void element into its equal left neighbour (`p => hr` on two empty paragraphs gives ONE hr, in the
   implementation too: EmptyFacts.collapse_merges_void_elements); texts and markers are kept even then (C14_solid_content_kept) *)
Theorem C14_content_kept (o : copts) (d : document) (forest : list (node str)) (msgs : list str) :
  Forall (fun t => tag_no_sep t = true) (style_tags (o_style_map o)) ->
  Forall (fun t => tag_void_fresh t = true) (style_tags (o_style_map o)) ->
  convert_document_forest o d = Ok (forest, msgs) ->
  exists nodes st, visit_document o d init_state = Ok (nodes, st) /\ content_leaves forest = content_leaves nodes.
Proof. exact (convert_content_leaves o d forest msgs). Qed.

Theorem C14_solid_content_kept (o : copts) (d : document) (forest : list (node str)) (msgs : list str) :
  Forall (fun t => tag_no_sep t = true) (style_tags (o_style_map o)) ->
  convert_document_forest o d = Ok (forest, msgs) ->
  exists nodes st, visit_document o d init_state = Ok (nodes, st) /\ solid_leaves forest = solid_leaves nodes.
Proof. exact (convert_solid_leaves o d forest msgs). Qed.

Example C14_default_map_keeps_content :
  forallb (fun t => tag_no_sep t && tag_void_fresh t) (style_tags DefaultStyleMap.default_style_map) = true.
Proof. exact default_style_map_hypotheses. Qed.

Print Assumptions C14_dropped_iff_empty.
Print Assumptions C14_strip_shape.
Print Assumptions C14_nothing_empty_left.
Print Assumptions C14_content_preserved.
Print Assumptions C14_text_preserved.
Print Assumptions C14_idempotent.
Print Assumptions C14_void_elements_are_br_hr_img_input.
Print Assumptions C14_paragraph_kept_on_request.
Print Assumptions C14_paragraph_dropped_by_default.
Print Assumptions C14_structure_kept.
Print Assumptions C14_final_forest_no_empty_element.
Print Assumptions C14_content_kept.
Print Assumptions C14_solid_content_kept.
