From Mammoth Require Import Html.
Example c14_placeholder : strip_empty [] = [].
Proof. reflexivity. Qed.
Print Assumptions c14_placeholder.
