#!/bin/sh
# Offline build of the framework from files on disk: regenerate the tables from /repo, full Coq build.
set -e
cd "$(dirname "$0")"
export PYTHONPATH=/repo PYTHONHASHSEED=0 PYTHONDONTWRITEBYTECODE=1
/venv/bin/python tools/gen_tables.py
cd coq
./mk
