"""C05 — converting any supported document returns a result instead of raising."""
import io
import json
import os

import mammoth

from .. import apilevel as A, docx_builder as B, gen_xml, shrink, terms as T
from ..gen_xml import xml_json

MAPS = [None, "", "p.Quote => blockquote > p:fresh\nb => b\nu => u\ncomment-reference => sup\nthis line is bad",
        "r.Strong => strong\np.Heading1 => h1.x\nbr[type='page'] => hr\np.ListParagraph => !", "p => div > p:fresh\nhighlight => mark",
        # every matcher kind and operator against elements with and without style names, numbering, colours
        "p[style-name^='Head'] => h1:fresh\nr[style-name^='Str'] => strong\ntable[style-name^='Fan'] => table.f\np[style-name='x'] => p\n"
        "r[style-name='Emphasis'] => em\ntable.Fancy[style-name='Fancy Table'] => table\np:ordered-list(1) => ol > li:fresh\n"
        "p[style-name^='List']:unordered-list(2) => ul > li:fresh\nhighlight[color='yellow'] => mark\nbr[type='column'] => hr\n"
        "i => i\nstrike => del\nall-caps => span.c\nsmall-caps => span.sc\ncomment-reference => sup"]


def supported_gen(rng, i):
    """packages inside the property's domain: optional constructs independently absent, tolerated references dangling"""
    return gen_xml.XGen(rng, anomalies=0.3 if i % 2 else 0.0, optional_absent=0.3 if i % 3 else 0.0,
                        dangling=0.3 if i % 4 < 2 else 0.0, alt_no_fallback=0.5 if i % 5 == 0 else 0.0,
                        stray_in_table=0.4 if i % 3 == 1 else 0.0)


def break_package(rng, pkg):
    """malformed stream: push the package OUTSIDE the domain in one way; returns the kind"""
    from mammoth.docx.xmlparser import element as X, text as XT
    kind = rng.choice(["dangling_rel", "note_without_id", "unbalanced_field", "nonnumeric_gridspan", "nonnumeric_sym",
                       "dangling_note", "dangling_comment", "style_without_id", "lvl_without_ilvl", "no_body"])
    if kind == "dangling_rel":
        pkg.body.insert(0, X("w:p", {}, [X("w:hyperlink", {"r:id": "rIdNope"}, [X("w:r", {}, [X("w:t", {}, [XT("x")])])])]))
    elif kind == "note_without_id":
        pkg.body.insert(0, X("w:p", {}, [X("w:r", {}, [X("w:footnoteReference")])]))
    elif kind == "unbalanced_field":
        pkg.body.insert(0, X("w:p", {}, [X("w:r", {}, [X("w:fldChar", {"w:fldCharType": "end"})])]))
    elif kind == "nonnumeric_gridspan":
        pkg.body.insert(0, X("w:tbl", {}, [X("w:tr", {}, [X("w:tc", {}, [X("w:tcPr", {}, [X("w:gridSpan", {"w:val": "two"})]), X("w:p")])])]))
    elif kind == "nonnumeric_sym":
        pkg.body.insert(0, X("w:p", {}, [X("w:r", {}, [X("w:sym", {"w:font": "Wingdings", "w:char": "zz"})])]))
    elif kind == "dangling_note":
        pkg.body.insert(0, X("w:p", {}, [X("w:r", {}, [X("w:endnoteReference", {"w:id": "4242"})])]))
    elif kind == "dangling_comment":
        pkg.body.insert(0, X("w:p", {}, [X("w:r", {}, [X("w:commentReference", {"w:id": "4242"})])]))
        pkg.meta["needs_comment_mapping"] = True
    elif kind == "style_without_id":
        pkg.styles = (pkg.styles or []) + [X("w:style", {"w:type": "paragraph"})]
    elif kind == "lvl_without_ilvl":
        pkg.numbering = (pkg.numbering or []) + [X("w:abstractNum", {"w:abstractNumId": "9"}, [X("w:lvl")])]
    elif kind == "no_body":
        pkg.meta["no_body"] = True
    return kind


def oracle(html, md, raw):
    for name, r in (("convert_to_html", html), ("convert_to_markdown", md), ("extract_raw_text", raw)):
        if isinstance(r, Exception):
            return "%s raised %s: %s" % (name, type(r).__name__, str(r)[:120])
        if not isinstance(r.value, str):
            return "%s returned a non-string value" % name
        if any(m.type != "warning" for m in r.messages):
            return "%s returned a message that is not a warning" % name
    return None


def run_all(data, opts, path):
    html, raw = A.run_impl(data, opts, path)
    kw = {}
    if opts.get("style_map") is not None:
        kw["style_map"] = opts["style_map"]
    try:
        md = mammoth.convert_to_markdown(io.BytesIO(data), **kw)
    except Exception as e:
        md = e
    return html, md, raw


SUPPORTED_HEADER = """From Mammoth Require Import SupportedSpec.
Definition chk_supported (c : list (str * dpart) * bool * list (str * img_src) * api_opts * option (str * list str) * option (str * list str)) : bool :=
  let '(parts, named, linked, a, _, _) := c in supported (mkSource (package_of parts) named linked).
Definition chk_supp_sound (c : list (str * dpart) * bool * list (str * img_src) * api_opts * option (str * list str) * option (str * list str)) : bool :=
  let '(parts, named, linked, a, oh, oraw) := c in
  negb (supported (mkSource (package_of parts) named linked)) || match oh, oraw with Some _, Some _ => true | _, _ => false end.
"""


def run(ctx):
    ctx.build()
    rng = ctx.rng
    n_valid = 1500 if ctx.thorough else 160
    n_bad = 600 if ctx.thorough else 80
    terms, metas = [], []
    dist = {"valid": 0, "malformed": 0, "impl_raised_on_malformed": 0, "malformed_kinds": {}}
    with A.Workdir() as wd:
        for i in range(n_valid + n_bad):
            valid = i < n_valid
            g = supported_gen(rng, i) if valid else gen_xml.XGen(rng, anomalies=0.1)
            pkg = g.package()
            kind = None
            if not valid:
                kind = break_package(rng, pkg)
                dist["malformed_kinds"][kind] = dist["malformed_kinds"].get(kind, 0) + 1
            if rng.random() < 0.3:
                pkg.embedded_style_map = rng.choice(["p.Normal => p.normal", "nonsense ! here", "r.Emph => em\n\n# c"])
            if valid and rng.random() < 0.15:
                pkg.meta["declare_rels"] = False
            if valid and rng.random() < 0.1:
                pkg.meta["no_content_types"] = True
            named = rng.random() < 0.4
            d = os.path.join(wd.path, "c%d" % i)
            os.makedirs(d)
            # any well-formed spelling of the parts is inside the domain: comments, processing instructions, CDATA, whitespace
            sp = B.Spelling(rng=rng, comments=rng.random() < 0.4, pis=rng.random() < 0.3, cdata=rng.random() < 0.3,
                            whitespace=rng.random() < 0.4, strict=rng.random() < 0.2,
                            **({"encoding": "utf-16", "declaration": "plain"} if rng.random() < 0.15 else {})) if valid else None
            data, parts = B.build(pkg, sp)
            path = os.path.join(d, "in.docx") if named else None
            if path:
                with open(path, "wb") as f:
                    f.write(data)
            linked = A.linked_outcomes(pkg, d if named else None)
            sm = rng.choice(MAPS)
            if pkg.meta.get("needs_comment_mapping"):
                sm = "comment-reference => sup"
            opts = {"style_map": sm, "include_default_style_map": rng.random() < 0.8,
                    "include_embedded_style_map": rng.random() < 0.8, "ignore_empty_paragraphs": rng.random() < 0.7,
                    "id_prefix": rng.choice([None, "", "x-"]), "conv": rng.choice(["data_uri", "data_uri", "counting", "no_open"])}
            html, md, raw = run_all(data, opts, path)
            ctx.count()
            meta = {"package": gen_xml.pkg_json(pkg), "body": [xml_json(x) for x in pkg.body], "options": opts, "kind": kind, "named": named, "index": i}
            if valid:
                dist["valid"] += 1
                bad = oracle(html, md, raw)
                if bad:
                    ctx.violation("oracle", bad, dict(meta, api="convert_to_html/convert_to_markdown/extract_raw_text",
                                                     styles=[xml_json(x) for x in (pkg.styles or [])],
                                                     numbering=[xml_json(x) for x in (pkg.numbering or [])]), True)
                else:
                    ctx.nontrivial(i)
                    if html.messages:
                        ctx.sample({"html": html.value[:200], "messages": [m.message for m in html.messages][:3]})
            else:
                dist["malformed"] += 1
                if isinstance(html, Exception):
                    dist["impl_raised_on_malformed"] += 1
            terms.append(A.case_term(parts, named, linked, opts, html, raw))
            metas.append(meta)
    for i in ctx.coq_eval("c05", A.HEADER + SUPPORTED_HEADER, terms, A.CASE_TYPE, "chk_api", shard=12, more=("chk_supported", "chk_supp_sound"))[:5]:
        ctx.violation("correspondence", "model and implementation disagree (result, messages, or crash vs raise)",
                      dict(metas[i], obligation="correspondence Model/Api.v vs mammoth.convert_to_html / extract_raw_text"), False)
    # the domain predicate of C05_supported_converts, computed in Coq on the package's XML alone: whenever it holds, the IMPLEMENTATION must have returned
    for i in ctx.more_bad["chk_supp_sound"][:5]:
        ctx.violation("oracle", "the package satisfies `supported` (Proofs/SupportedSpec.v: the property's domain on the XML alone) but the implementation raised",
                      dict(metas[i], api="convert_to_html / extract_raw_text", obligation="Props/C05.v: C05_supported_converts evaluated on this package"), True)
    not_supported = set(ctx.more_bad["chk_supported"])
    dist["valid_packages_satisfying_supported"] = sum(1 for i, m_ in enumerate(metas) if m_["kind"] is None and i not in not_supported)
    dist["malformed_packages_satisfying_supported"] = sum(1 for i, m_ in enumerate(metas) if m_["kind"] is not None and i not in not_supported)
    ctx.coverage["traces_validated_against_impl"] = len(terms)
    ctx.coverage["input_distribution"] = dist
    ctx.coverage["rule"] = ("packages from the supported grammar with optional constructs independently absent and tolerated references dangling "
                            "(valid stream), and packages pushed outside the domain in exactly one way (malformed stream: model Crash <=> implementation "
                            "raises); each converted to html, markdown and raw text with random options; non-trivial = valid package converted by all three entry points")
    ctx.assumptions += ["Python's recursion limit, memory and expat errors on ill-formed XML are not modelled",
                        "the markdown writer is exercised by the oracle only (not yet in the model)"]


def replay(ctx, rep):
    r = rep["replay"]
    pkg = gen_xml.pkg_from_json(r["package"])
    data, _ = B.build(pkg)
    html, md, raw = run_all(data, r["options"], None)
    bad = oracle(html, md, raw)
    print("replay:", bad or "property holds on this input")
    return 1 if bad else 0
