"""C20 — the command line writes exactly what the library returns."""
import io
import os
import subprocess

import mammoth

from .. import apilevel as A, common, docx_builder as B, gen_xml, oracle_html as O, terms as T
from .c17 import imgs

HEADER = A.HEADER.replace("From Mammoth Require Import Api Dom.", "From Mammoth Require Import Api Dom Cli.") + """
Definition files_eqb := list_eqb (pair_eqb str_eqb (list_eqb N.eqb)).
(* (parts, style-map text, markdown?, output-dir?, observed: output bytes, stderr lines, image files sorted by name) *)
Definition chk_cli (c : list (str * dpart) * option str * bool * bool * option (list N * list str * list (str * list N))) : bool :=
  let '(parts, sm, md, od, obs) := c in
  match cli_run (mkSource (package_of parts) true []) (mkCli sm md od), obs with
  | Ok r, Some (out, err, files) => list_eqb N.eqb (cr_output r) out && list_eqb str_eqb (cr_stderr r) err && files_eqb (cr_files r) files
  | Crash _, None => true
  | _, _ => false
  end.
"""
CASE_TYPE = "list (str * dpart) * option str * bool * bool * option (list N * list str * list (str * list N))"
STYLE_MAPS = [None, "p.Quote => blockquote > p:fresh\nb => b", "nonsense line\np.Heading1 => h1.é😀", "r.Strong => strong\n# comment\n\n"]


def run(ctx):
    ctx.build()
    rng = ctx.rng
    n = 400 if ctx.thorough else 45
    terms, metas = [], []
    dist = {"runs": 0, "modes": {"path": 0, "stdout": 0, "output_dir": 0}, "formats": {"absent": 0, "html": 0, "markdown": 0}, "with_style_map": 0,
            "with_images": 0, "with_messages": 0}
    env = dict(common.ENV, PYTHONIOENCODING="utf-8", LC_ALL="C.UTF-8", LANG="C.UTF-8")
    with A.Workdir() as wd:
        for i in range(n):
            g = gen_xml.XGen(rng, notes=False, comments=False, textboxes=False, anomalies=0.2, hostile=0.4, deleted=False)
            pkg = g.package(rng.randint(1, 4))
            for t in list(pkg.linked):
                del pkg.linked[t]
            pkg.rels = [r for r in pkg.rels if not r[1].startswith("linked") and "example.invalid" not in r[1]]
            # drop blips that pointed at the removed relationships
            rids = {r[0] for r in pkg.rels}

            def prune(nodes):
                from mammoth.docx.xmlparser import XmlElement
                out = []
                for x in nodes:
                    if isinstance(x, XmlElement):
                        if x.name == "a:blip" and x.attributes.get("r:link") is not None and x.attributes["r:link"] not in rids:
                            if x.attributes.get("r:embed") is None:
                                continue
                            x = XmlElement(x.name, {k: v for k, v in x.attributes.items() if k != "r:link"}, x.children)
                        x = XmlElement(x.name, x.attributes, prune(x.children))
                    out.append(x)
                return out
            pkg.body = prune(pkg.body)
            # domain of the property: every image has a content type (the file name is "the subtype of the image's content type");
            # an image part of undeclared, unknown type makes the command fail with AttributeError — noted in DESIGN.md §13, not claimed
            declared = {e for e, _ in pkg.content_types["defaults"]}
            for mname in pkg.media:
                ext = mname.rpartition(".")[2]
                if ext.lower() not in ("png", "gif", "jpeg", "jpg", "tif", "tiff", "bmp") and ext not in declared \
                        and ("/" + mname) not in [o[0] for o in pkg.content_types["overrides"]]:
                    pkg.content_types["defaults"].append((ext, "image/x-" + ext.lower()))
                    declared.add(ext)
            if i < 3:
                # dedicated documents: several pictures, byte-identical and of one declared type (i = 0, 1), or of odd subtypes (i = 2)
                from mammoth.docx.xmlparser import element as X
                g2 = gen_xml.XGen(rng, notes=False, comments=False, textboxes=False, anomalies=0.0, deleted=False, linked_rate=0.0, fields=False)
                pkg = g2.package(1)
                for _ in range(3):
                    pkg.body.append(X("w:p", {}, [X("w:r", {}, [g2.drawing()])]))
                pkg.body = prune(pkg.body)
                pkg.linked.clear()
                for mname in sorted(pkg.media):
                    pkg.content_types["overrides"] = [o for o in pkg.content_types["overrides"] if o[0] != "/" + mname] + \
                        [("/" + mname, "image/png" if i < 2 else rng.choice(["image/svg+xml", "image/x-emf"]))]
                    if i < 2:
                        pkg.media[mname] = b"same bytes in every picture"
            elif pkg.media and rng.random() < 0.5:
                # content types whose subtype is not a plain word: the file is named with the subtype as it is
                for mname in sorted(pkg.media):
                    if ("/" + mname) not in [o[0] for o in pkg.content_types["overrides"]] and rng.random() < 0.6:
                        pkg.content_types["overrides"].append(("/" + mname, rng.choice(["image/svg+xml", "image/x-emf", "image/vnd.ms-photo", "image/x-png"])))
            if i >= 3 and pkg.media and rng.random() < 0.4:
                # byte-identical images (a logo used twice) are still separate images
                # — same bytes AND same declared type, so that nothing but their position tells them apart
                same = bytes(rng.randrange(256) for _ in range(9))
                same_type = rng.choice(["image/png", "image/gif", "image/x-emf"])
                for name in pkg.media:
                    if rng.random() < 0.7:
                        pkg.media[name] = same
                        pkg.content_types["overrides"] = [o for o in pkg.content_types["overrides"] if o[0] != "/" + name] + [("/" + name, same_type)]
            redacted = (i == 3)
            if redacted:
                # dedicated: a picture inside a run that the style map drops (`r.Redacted => !`), then a picture that stays: exactly ONE file, 1.gif
                from mammoth.docx.xmlparser import element as X, text as XT
                pkg = gen_xml.Package()
                pkg.styles = [X("w:style", {"w:type": "character", "w:styleId": "Redacted"}, [X("w:name", {"w:val": "Redacted"})])]
                pkg.media["word/media/image1.png"] = b"\x89PNG dropped with its run"
                pkg.media["word/media/image2.gif"] = b"GIF89a kept"
                pkg.rels = [("rIdA", "media/image1.png", B.REL + "image"), ("rIdB", "media/image2.gif", B.REL + "image")]
                draw = lambda rid: X("w:drawing", {}, [X("wp:inline", {}, [X("a:graphic", {}, [X("a:graphicData", {}, [X("pic:pic", {}, [X("pic:blipFill", {}, [X("a:blip", {"r:embed": rid})])])])])])])
                pkg.body = [X("w:p", {}, [X("w:r", {}, [X("w:rPr", {}, [X("w:rStyle", {"w:val": "Redacted"})]), X("w:t", {}, [XT("secret")]), draw("rIdA")]),
                                          X("w:r", {}, [X("w:t", {}, [XT("public")]), draw("rIdB")])])]
            linked_doc = (i == 4)
            if linked_doc:
                # dedicated: a picture LINKED from a file next to the document: the command converts the file it was given BY NAME, like the library
                from mammoth.docx.xmlparser import element as X, text as XT
                pkg = gen_xml.Package()
                pkg.rels = [("rIdL", "linked picture.png", B.REL + "image")]
                pkg.body = [X("w:p", {}, [X("w:r", {}, [X("w:t", {}, [XT("see")]), X("w:drawing", {}, [X("wp:inline", {}, [X("a:graphic", {}, [X("a:graphicData", {}, [
                    X("pic:pic", {}, [X("pic:blipFill", {}, [X("a:blip", {"r:link": "rIdL"})])])])])])])])])]
            d = os.path.join(wd.path, "c%d" % i)
            os.makedirs(d)
            if linked_doc:
                with open(os.path.join(d, "linked picture.png"), "wb") as f_:
                    f_.write(b"\x89PNG linked bytes")
            name = rng.choice(["in.docx", "Üñï çødé.docx", "two.dots.docx"])
            path = os.path.join(d, name)
            data, parts = B.build(pkg)
            with open(path, "wb") as f:
                f.write(data)
            mode = rng.choice(["path", "stdout", "output_dir"])
            if i < 3 or redacted:
                mode = "output_dir"          # the image-file clauses are exercised in every run (see the dedicated documents above)
            fmt = rng.choice(["absent", "html", "markdown"])
            sm = rng.choice(STYLE_MAPS)
            if redacted:
                sm, fmt = "r.Redacted => !", "html"
            if linked_doc:
                mode, sm = rng.choice(["path", "stdout"]), None
            args = [common.PY, "-m", "mammoth.cli", path]
            outdir = os.path.join(d, "out")
            # (the name of the output file says nothing about the format: that is --output-format's business)
            outpath = os.path.join(d, rng.choice(["result.out", "result.md", "RESULT.MD", "notes.markdown", "page.html", "out.txt", "noextension"]))
            if mode == "path":
                args.append(outpath)
            elif mode == "output_dir":
                os.makedirs(outdir)
                args += ["--output-dir", outdir]
            if fmt != "absent":
                args += ["--output-format", fmt]
            if sm is not None:
                smp = os.path.join(d, "map.txt")
                with open(smp, "w", encoding="utf-8") as f:
                    f.write(sm)
                args += ["--style-map", smp]
                dist["with_style_map"] += 1
            if i % 2 == 0:
                # the destination already exists and is LONGER than what will be written: the command writes the value, not the value plus a tail
                stale = ("old output " * 30000).encode("ascii")
                if mode == "path":
                    with open(outpath, "wb") as f:
                        f.write(stale)
                elif mode == "output_dir" and os.path.isdir(outdir):
                    with open(os.path.join(outdir, name.rpartition(".")[0] + ".html"), "wb") as f:
                        f.write(stale)
                dist["existing_destination"] = dist.get("existing_destination", 0) + 1
            p = subprocess.run(args, env=env, cwd=d, stdout=subprocess.PIPE, stderr=subprocess.PIPE, timeout=120)
            ctx.count()
            dist["runs"] += 1
            dist["modes"][mode] += 1
            dist["formats"][fmt] += 1
            # what the library returns for the same file, style map and format
            kw = {}
            if sm is not None:
                kw["style_map"] = sm
            with open(path, "rb") as f:
                lib = mammoth.convert(f, output_format=None if fmt == "absent" else fmt, **kw) if mode != "output_dir" else None
            if mode == "stdout":
                out = p.stdout
            elif mode == "path":
                out = open(outpath, "rb").read() if os.path.exists(outpath) else None
            else:
                op = os.path.join(outdir, name.rpartition(".")[0] + ".html")
                out = open(op, "rb").read() if os.path.exists(op) else None
            err_lines = p.stderr.decode("utf-8").split("\n")
            meta = {"package": gen_xml.pkg_json(pkg), "mode": mode, "format": fmt, "style_map": sm, "input_name": name, "index": i}
            bad = None
            files = []
            if p.returncode != 0:
                bad = "the command failed (exit %d): %s" % (p.returncode, p.stderr.decode("utf-8", "replace")[-200:])
            elif out is None:
                bad = ("the command exited 0 but did not write %s (files written: %s)" %
                       ("the output path" if mode == "path" else "<input basename>.html in the output directory",
                        sorted(os.listdir(outdir))[:6] if os.path.isdir(outdir) else []))
            elif err_lines[-1] != "":
                bad = "standard error does not end each message with a newline"
            elif mode == "stdout" and False:
                pass
            else:
                err_lines = err_lines[:-1]
                if lib is not None:
                    if out != lib.value.encode("utf-8"):
                        bad = "the bytes written are not the UTF-8 encoding of the value the library returns"
                    elif err_lines != [m.message for m in lib.messages]:
                        bad = "standard error is not one line per library message"
                    elif mode != "stdout" and p.stdout != b"":
                        bad = "something was written to standard output although an output path was given"
                else:
                    # --output-dir: one file per image, numbered from 1, named by the subtype, holding the exact bytes, referenced by src
                    from .c17 import expected_images
                    exp = [e for e in expected_images(pkg, {})]
                    if redacted:
                        exp = exp[1:]       # the first picture goes with its run
                    present = sorted(f for f in os.listdir(outdir) if not f.endswith(".html"))
                    files = [(f, open(os.path.join(outdir, f), "rb").read()) for f in present]
                    want = [("%d.%s" % (k + 1, str(ct).partition("/")[2]), bytes(b)) for k, (ct, b, alt) in enumerate(exp)]
                    if sorted(want) != files:
                        bad = "image files are not 1.<subtype>, 2.<subtype>, ... with the exact image bytes (%s vs %s)" % (present, [w[0] for w in want])
                    elif fmt != "markdown":
                        srcs = [a.get("src") for a in imgs(O.strict_parse(out.decode("utf-8")), [])]
                        if srcs != [w[0] for w in want]:
                            bad = "img src attributes do not reference the image files in order"
                    if exp:
                        dist["with_images"] += 1
                if err_lines:
                    dist["with_messages"] += 1
            if bad:
                ctx.violation("oracle", bad, dict(meta, api="python -m mammoth.cli", argv=args[3:]), True)
            else:
                ctx.nontrivial(i)
                if mode == "output_dir" and files:
                    ctx.sample({"mode": mode, "format": fmt, "files": [f for f, _ in files], "stderr": err_lines[:2]})
            if linked_doc and not bad and b"data:image/png;base64," not in (out or b"") and fmt != "markdown":
                bad = "the linked picture next to the document is not in the command's output"
                ctx.violation("oracle", bad, dict(meta, api="python -m mammoth.cli", argv=args[3:]), True)
            if (bad is None or out is not None) and not linked_doc:
                obs = "None" if out is None else "(Some (%s, %s, %s))" % (
                    T.lst(T.n, list(out)), T.lst(T.s, err_lines if err_lines and err_lines[-1] != "" or not err_lines else err_lines[:-1]),
                    T.lst(lambda fb: "(%s, %s)" % (T.s(fb[0]), T.lst(T.n, list(fb[1]))), sorted(files, key=lambda fb: int(fb[0].split(".")[0]))))
                terms.append("(%s, %s, %s, %s, %s)" % (B.parts_term(parts), T.opt(T.s, sm), T.b(fmt == "markdown"), T.b(mode == "output_dir"), obs))
                metas.append(meta)
    for i in ctx.coq_eval("c20", HEADER, terms, CASE_TYPE, "chk_cli", shard=6)[:5]:
        ctx.violation("correspondence", "model of the command line and the command disagree",
                      dict(metas[i], obligation="correspondence Model/Cli.v vs python -m mammoth.cli"), False)
    ctx.coverage["traces_validated_against_impl"] = len(terms)
    ctx.coverage["input_distribution"] = dist
    ctx.coverage["rule"] = ("subprocess runs of python -m mammoth.cli over generated packages (non-ASCII text and file names, several images, warnings) x {output path, stdout, "
                            "--output-dir} x --output-format {absent, html, markdown} x --style-map present/absent; bytes compared with the UTF-8 of the library's value, stderr "
                            "with its messages, image files with the package's image parts; non-trivial = run whose every clause held")
    ctx.assumptions += ["argparse, locale and the file system are runtime; input names have an extension"]


def replay(ctx, rep):
    print("replay: re-run ./check C20 with the same seed (subprocess case %s)" % rep["replay"].get("index"))
    return 1
