"""C14 — empty content is dropped by default and kept on request (forest level: strip_empty)."""
import json

from mammoth import html

from .. import apilevel as A, docx_builder as B, gen_html, gen_xml, livetext, oracle_html as O, terms as T

STRUCTURE = {"table", "thead", "tbody", "tr", "td", "th"}
HEADINGS = {"Heading1": "h1", "Heading2": "h2"}


def para_content(nodes):
    """does the paragraph contain anything that is kept: non-empty text, tab, hyphen, line break, symbol, image, checkbox, bookmark"""
    from mammoth.docx.xmlparser import XmlElement
    for n in nodes:
        if not isinstance(n, XmlElement):
            continue
        nm = n.name
        if nm == "w:t":
            if "".join(c.value for c in n.children if not isinstance(c, XmlElement)) != "":
                return True
        elif nm in ("w:tab", "w:noBreakHyphen", "w:softHyphen"):
            return True
        elif nm == "w:br":
            if n.attributes.get("w:type") in (None, "", "textWrapping"):
                return True
        elif nm == "w:sym":
            from mammoth.docx.dingbats import dingbats
            font, ch = n.attributes.get("w:font"), n.attributes.get("w:char")
            cp = dingbats.get((font, int(ch, 16)))
            if cp is None and len(ch) >= 4 and ch.startswith("F0"):
                cp = dingbats.get((font, int(ch[2:], 16)))
            if cp is not None:
                return True
        elif nm == "w:bookmarkStart":
            if n.attributes.get("w:name") != "_GoBack":
                return True
        elif nm in ("w:del", "w:rPr", "w:pPr", "w:instrText"):
            continue
        elif nm == "w:sdt":
            if n.find_child_or_null("w:sdtPr").find_child("wordml:checkbox") is not None:
                return True
            if para_content(n.find_child_or_null("w:sdtContent").children):
                return True
        elif nm == "w:pict":
            continue        # VML content is placed after the paragraph, not inside it
        elif nm == "w:drawing":
            js = repr(gen_xml.xml_json(n))
            if "r:embed" in js or "r:link" in js:
                return True
        elif nm == "mc:AlternateContent":
            if para_content(n.find_child_or_null("mc:Fallback").children):
                return True
        elif nm in livetext.CONTAINERS or nm == "w:r":
            if para_content(n.children):
                return True
        # anything else is ignored or unknown to the converter: it contributes nothing
    return False


def expected_blocks(pkg, keep_empty, extra_tags=None):
    """(tag, text) of every paragraph block the property says must be in the output, in reading order (no lists, no notes)"""
    from mammoth.docx.xmlparser import XmlElement
    out = []

    def blocks(nodes):
        for n in nodes:
            if not isinstance(n, XmlElement):
                continue
            if n.name == "w:p":
                sid = n.find_child_or_null("w:pPr").find_child_or_null("w:pStyle").attributes.get("w:val")
                lt = livetext.LiveText(pkg)
                text = lt.render(lt.blocks([n]), {"refs": [], "crefs": []})
                if keep_empty or para_content(n.children):
                    out.append(((extra_tags or {}).get(sid) or HEADINGS.get(sid, "p"), B.sanitize(text)))
            elif n.name == "w:tbl":
                for tr in n.children:
                    if isinstance(tr, XmlElement) and tr.name == "w:tr":
                        for tc in tr.children:
                            if isinstance(tc, XmlElement) and tc.name == "w:tc":
                                vm = tc.find_child_or_null("w:tcPr").find_child("w:vMerge")
                                if vm is not None and vm.attributes.get("w:val") in (None, "", "continue"):
                                    continue
                                blocks(tc.children)
            elif n.name == "w:sdt":
                blocks(n.find_child_or_null("w:sdtContent").children)
    blocks(pkg.body)
    return out


def html_blocks(forest, out):
    for n in forest:
        if "name" in n:
            if n["name"] in ("p", "h1", "h2", "h3", "h4", "h5", "h6", "pre", "col", "area"):
                out.append((n["name"], O.text_of_parsed(n["children"])))
            else:
                html_blocks(n["children"], out)
    return out


def empty_elements(forest, out):
    for n in forest:
        if "name" in n:
            if not n["children"] and not n["self_closed"]:
                out.append(n)
            empty_elements(n["children"], out)
    return out


def self_closed_elements(forest, out):
    for n in forest:
        if "name" in n:
            if n["self_closed"]:
                out.append(n)
            self_closed_elements(n["children"], out)
    return out


def api_stream(ctx):
    """conversion level: documents in which paragraphs, runs, links and cells are empty in every way, both flag values"""
    rng = ctx.rng
    n = 1200 if ctx.thorough else 140
    terms, metas = [], []
    dist = {"documents": 0, "keep_empty": 0, "empty_paragraphs": 0}
    for i in range(n):
        # every third document: paragraphs mapped to a collapsible path WITH a separator (adjacent ones merge, joined by the separator)
        sep = (i % 3 == 1)
        g = gen_xml.XGen(rng, hostile=0.1, numbering=False, notes=False, comments=False, textboxes=False, deleted=False, fields=False,
                         anomalies=0.1, images=(i % 3 == 0), tables=not sep)
        # make emptiness common: empty runs, runs with empty text, empty links, empty paragraphs
        g.text = (lambda orig: (lambda: "" if rng.random() < 0.45 else orig()))(g.text)
        pkg = g.package(rng.randint(1, 6))
        for t in list(pkg.linked):
            pkg.linked[t] = ("error", None)
        keep = rng.random() < 0.5
        # every third document: paragraphs and runs mapped to elements that LOOK like void elements (col, area, wbr) but are not
        # among br / hr / img / input: empty ones are dropped like any other element
        voidish = (i % 3 == 2)
        opts = {"style_map": "p.Quote => pre:separator('|')\np.Normal => pre:separator('|')" if sep else
                ("p.Quote => col:fresh\np.Normal => area:fresh\nr.Strong => wbr\nr.Emph => source" if voidish else None),
                "include_default_style_map": True, "include_embedded_style_map": True,
                "ignore_empty_paragraphs": not keep, "id_prefix": None, "conv": "no_open"}
        data, parts = B.build(pkg)
        html, raw = A.run_impl(data, opts, None)
        ctx.count()
        dist["documents"] += 1
        dist["keep_empty"] += keep
        dist["with_separator_map"] = dist.get("with_separator_map", 0) + sep
        meta = {"package": gen_xml.pkg_json(pkg), "options": opts, "index": i}
        bad = None
        if isinstance(html, Exception):
            bad = "conversion raised %r" % html
        else:
            forest = O.strict_parse(html.value)
            exp = expected_blocks(pkg, keep, {"Quote": "pre", "Normal": "pre"} if sep else ({"Quote": "col", "Normal": "area"} if voidish else {}))
            if sep:
                # consecutive pre paragraphs are one element, their texts joined by the separator; an EMPTY paragraph that is
                # dropped contributes nothing, not even a separator
                merged = []
                for tg, tx in exp:
                    if tg == "pre" and merged and merged[-1][0] == "pre":
                        merged[-1] = ("pre", merged[-1][1] + "|" + tx)
                    else:
                        merged.append((tg, tx))
                exp = merged
            got = html_blocks(forest, [])
            dist["empty_paragraphs"] += sum(1 for _, tx in exp if tx == "")
            if got != exp:
                bad = ("with ignore_empty_paragraphs=False every paragraph must yield its block" if keep else
                       "a paragraph with content was removed, or an empty one kept") + ": expected %s, got %s" % (exp[:6], got[:6])
            else:
                for e in self_closed_elements(forest, []):
                    if e["name"] not in ("br", "hr", "img", "input"):
                        bad = "the output contains a self-closed <%s /> element: only br, hr, img and input are void" % e["name"]
                for e in ([] if bad else empty_elements(forest, [])):
                    ok = e["name"] in STRUCTURE or (e["name"] == "a" and "id" in e["attrs"]) or (keep and e["name"] in ("p", "h1", "h2", "pre", "col", "area"))
                    if not ok:
                        bad = "the output contains an empty <%s> element" % e["name"]
                        break
        if bad:
            ctx.violation("oracle", bad, dict(meta, api="mammoth.convert_to_html(ignore_empty_paragraphs=%s)" % (not keep),
                                             observed=None if isinstance(html, Exception) else html.value[:700]), True)
            if len(ctx.violations) > 10:
                break
        else:
            ctx.nontrivial("doc%d" % i)
        terms.append(A.case_term(parts, False, {}, opts, html, raw))
        metas.append(meta)
    for i in ctx.coq_eval("c14api", A.HEADER, terms, A.CASE_TYPE, "chk_api", shard=12)[:5]:
        ctx.violation("correspondence", "model and implementation disagree",
                      dict(metas[i], obligation="correspondence Model/Api.v vs mammoth.convert_to_html"), False)
    ctx.coverage["api_level"] = dist
    return len(terms)

HEADER = """From Mammoth Require Import Html.
Local Open Scope N_scope.
Definition chk (c : list (node str) * list (node str)) : bool := forest_eqb (strip_empty (fst c)) (snd c).
"""


def cases(ctx):
    n_ex = 4 if ctx.thorough else 3
    tags = [gen_html.TAGS_SMALL[0], gen_html.TAGS_SMALL[2], gen_html.TAGS_SMALL[7], (["img"], {"a": "1"}, True, None)]
    for f in gen_html.all_forests(n_ex, tags, gen_html.LEAVES_SMALL):
        yield "exhaustive", f
    for i in range(20000 if ctx.thorough else 1500):
        yield "random", gen_html.rand_forest(ctx.rng, ctx.rng.randint(1, 14))


def run(ctx):
    ctx.build()
    terms, metas = [], []
    dist = {"exhaustive": 0, "random": 0, "something_dropped": 0, "something_kept": 0, "void_kept": 0}
    for kind, forest in cases(ctx):
        inp = [T.node_json(x) for x in forest]
        out_nodes = html.strip_empty(forest)
        out = [T.node_json(x) for x in out_nodes]
        ctx.count()
        dist[kind] += 1
        dropped = out != inp
        if dropped:
            dist["something_dropped"] += 1
        if out:
            dist["something_kept"] += 1
        if dropped and out:
            ctx.nontrivial(json.dumps(inp, sort_keys=True))
            ctx.sample({"input": inp, "stripped": out})
        bad = None
        if out != O.spec_strip(inp):
            bad = "strip_empty kept or dropped the wrong nodes"
        elif not O.no_empty_elements(out):
            bad = "an empty non-void element or empty text survived"
        elif [T.node_json(x) for x in forest] != inp:
            bad = "strip_empty modified its input"
        if bad:
            ctx.violation("oracle", bad, {"api": "mammoth.html.strip_empty", "input": inp, "observed": out,
                                          "expected": O.spec_strip(inp)}, True)
            if len(ctx.violations) > 20:
                break
        terms.append("(%s, %s)" % (T.forest(forest), T.forest(out_nodes)))
        metas.append(inp)
    limit = len(terms) if ctx.thorough else min(len(terms), 6000)
    for i in ctx.coq_eval("c14", HEADER, terms[:limit], "list (node str) * list (node str)", "chk")[:5]:
        ctx.violation("correspondence", "model and mammoth.html.strip_empty disagree",
                      {"obligation": "correspondence Model/Html.v:strip_empty vs mammoth.html.strip_empty",
                       "input": metas[i]}, False)
    n_api = api_stream(ctx)
    ctx.coverage["traces_validated_against_impl"] = limit + n_api
    ctx.coverage["exhaustive"] = True
    ctx.coverage["rule"] = ("all forests with <= %d nodes over 4 tags (p, p[a], br, img) x leaves {'', 'x', force_write}, then random forests; "
                            "non-trivial = distinct input from which something was dropped and something kept" % (4 if ctx.thorough else 3))
    ctx.coverage["input_distribution"] = dist


def replay(ctx, rep):
    if "package" in rep["replay"]:
        r = rep["replay"]
        pkg = gen_xml.pkg_from_json(r["package"])
        data, _ = B.build(pkg)
        html, _ = A.run_impl(data, r["options"], None)
        keep = not r["options"]["ignore_empty_paragraphs"]
        bad = isinstance(html, Exception) or html_blocks(O.strict_parse(html.value), []) != expected_blocks(pkg, keep)
        print("replay:", "violated" if bad else "property holds on this input")
        return 1 if bad else 0
    inp = rep["replay"]["input"]
    forest = [T.node_from_json(j) for j in inp]
    out = [T.node_json(x) for x in html.strip_empty(forest)]
    bad = out != O.spec_strip(inp) or not O.no_empty_elements(out)
    print("replay:", "violated" if bad else "property holds on this input")
    return 1 if bad else 0
