"""C14 — empty content is dropped by default and kept on request (forest level: strip_empty)."""
import json

from mammoth import html

from .. import gen_html, oracle_html as O, terms as T

HEADER = """From Mammoth Require Import Html.
Local Open Scope N_scope.
Definition chk (c : list (node str) * list (node str)) : bool := forest_eqb (strip_empty (fst c)) (snd c).
"""


def cases(ctx):
    n_ex = 4 if ctx.thorough else 3
    tags = [gen_html.TAGS_SMALL[0], gen_html.TAGS_SMALL[2], gen_html.TAGS_SMALL[7], (["img"], {"a": "1"}, True, None)]
    for f in gen_html.all_forests(n_ex, tags, gen_html.LEAVES_SMALL):
        yield "exhaustive", f
    for i in range(20000 if ctx.thorough else 1500):
        yield "random", gen_html.rand_forest(ctx.rng, ctx.rng.randint(1, 14))


def run(ctx):
    ctx.build()
    terms, metas = [], []
    dist = {"exhaustive": 0, "random": 0, "something_dropped": 0, "something_kept": 0, "void_kept": 0}
    for kind, forest in cases(ctx):
        inp = [T.node_json(x) for x in forest]
        out_nodes = html.strip_empty(forest)
        out = [T.node_json(x) for x in out_nodes]
        ctx.count()
        dist[kind] += 1
        dropped = out != inp
        if dropped:
            dist["something_dropped"] += 1
        if out:
            dist["something_kept"] += 1
        if dropped and out:
            ctx.nontrivial(json.dumps(inp, sort_keys=True))
            ctx.sample({"input": inp, "stripped": out})
        bad = None
        if out != O.spec_strip(inp):
            bad = "strip_empty kept or dropped the wrong nodes"
        elif not O.no_empty_elements(out):
            bad = "an empty non-void element or empty text survived"
        elif [T.node_json(x) for x in forest] != inp:
            bad = "strip_empty modified its input"
        if bad:
            ctx.violation("oracle", bad, {"api": "mammoth.html.strip_empty", "input": inp, "observed": out,
                                          "expected": O.spec_strip(inp)}, True)
            if len(ctx.violations) > 20:
                break
        terms.append("(%s, %s)" % (T.forest(forest), T.forest(out_nodes)))
        metas.append(inp)
    limit = len(terms) if ctx.thorough else min(len(terms), 6000)
    for i in ctx.coq_eval("c14", HEADER, terms[:limit], "list (node str) * list (node str)", "chk")[:5]:
        ctx.violation("correspondence", "model and mammoth.html.strip_empty disagree",
                      {"obligation": "correspondence Model/Html.v:strip_empty vs mammoth.html.strip_empty",
                       "input": metas[i]}, False)
    ctx.coverage["traces_validated_against_impl"] = limit
    ctx.coverage["exhaustive"] = True
    ctx.coverage["rule"] = ("all forests with <= %d nodes over 4 tags (p, p[a], br, img) x leaves {'', 'x', force_write}, then random forests; "
                            "non-trivial = distinct input from which something was dropped and something kept" % (4 if ctx.thorough else 3))
    ctx.coverage["input_distribution"] = dist


def replay(ctx, rep):
    inp = rep["replay"]["input"]
    forest = [T.node_from_json(j) for j in inp]
    out = [T.node_json(x) for x in html.strip_empty(forest)]
    bad = out != O.spec_strip(inp) or not O.no_empty_elements(out)
    print("replay:", "violated" if bad else "property holds on this input")
    return 1 if bad else 0
