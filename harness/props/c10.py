"""C10 — links, bookmarks, notes and comments stay connected."""
import os
import re

from mammoth.docx.xmlparser import XmlElement

from .. import apilevel as A, docx_builder as B, gen_xml, oracle_html as O
from ..gen_xml import xml_json

MAPS = ["comment-reference => sup", None, "comment-reference => sup\np.Quote => blockquote > p:fresh", "r.Hyperlink => span.link"]
LINKS_HEADER = """From Mammoth Require Import EndToEndSpec LinksSpec LinkSpec.
Definition chk_links (c : list (str * dpart) * bool * list (str * img_src) * api_opts * option (str * list str) * option (str * list str)) : bool :=
  let '(parts, named, linked, a, _, _) := c in
  let s := mkSource (package_of parts) named linked in
  match read_docx s, opts_in_force s a with
  | Ok (d, _), Ok o => links_agree o d
  | _, _ => true
  end.
Definition chk_linkitems (c : list (str * dpart) * bool * list (str * img_src) * api_opts * option (str * list str) * option (str * list str)) : bool :=
  let '(parts, named, linked, a, _, _) := c in links_items_agree (mkSource (package_of parts) named linked).
Definition chk_linkitems_domain (c : list (str * dpart) * bool * list (str * img_src) * api_opts * option (str * list str) * option (str * list str)) : bool :=
  let '(parts, named, linked, a, _, _) := c in links_items_domain (mkSource (package_of parts) named linked).
"""
HREF_FIELD = re.compile(r'^\s*HYPERLINK "([^"]*)"')
ANCHOR_FIELD = re.compile(r'^\s*HYPERLINK\s+\\l\s+"([^"]*)"')


def expected_links(pkg, prefix):
    """every href the property allows, from the generator's own record of the package"""
    rels = {i: t for i, t, ty in pkg.rels}
    allowed = set()

    def walk(nodes):
        instr = []
        for n in nodes:
            if not isinstance(n, XmlElement):
                continue
            if n.name == "w:hyperlink":
                rid, anchor = n.attributes.get("r:id"), n.attributes.get("w:anchor")
                if rid is not None:
                    t = rels[rid]
                    if anchor is not None:
                        t = t.split("#", 1)[0] + "#" + anchor
                    allowed.add(t)
                elif anchor is not None:
                    allowed.add("#" + prefix + anchor)
            if n.name == "w:instrText":
                instr.append("".join(c.value for c in n.children if not isinstance(c, XmlElement)))
            walk(n.children)
    all_parts = list(pkg.body)
    for part in (pkg.footnotes, pkg.endnotes, pkg.comments):
        all_parts += part or []
    walk(all_parts)
    # field instructions: concatenation of the instrText pieces between a begin and its separate
    def fields(nodes, acc):
        for n in nodes:
            if not isinstance(n, XmlElement):
                continue
            if n.name == "w:fldChar":
                t = n.attributes.get("w:fldCharType")
                if t == "begin":
                    acc.append([])
                elif t in ("separate", "end") and acc and acc[-1] is not None:
                    text = "".join(acc[-1])
                    m = HREF_FIELD.match(text)
                    if m:
                        allowed.add(m.group(1))
                    m = ANCHOR_FIELD.match(text)
                    if m:
                        allowed.add("#" + prefix + m.group(1))
                    if t == "end":
                        acc.pop()
                    else:
                        acc[-1] = None
                elif t == "end" and acc:
                    acc.pop()
            elif n.name == "w:instrText" and acc and acc[-1] is not None:
                # begin resets the text, so only the innermost open field collects
                acc[-1].append("".join(c.value for c in n.children if not isinstance(c, XmlElement)))
            fields(n.children, acc)
    fields(all_parts, [])
    return allowed


def expected_run_links(pkg, prefix):
    """For every run text of the form t<number>: the link the property prescribes (None = not linked), from the field
    structure and the w:hyperlink elements of the package; reading order within each part."""
    rels = {i: tg for i, tg, ty in pkg.rels}
    out = {}

    def part(nodes):
        stack = []          # open complex fields: {"instr": str pieces, "link": parsed link or None, "sep": bool}
        cur_instr = []

        def walk(nodes, wlink):
            for n in nodes:
                if not isinstance(n, XmlElement):
                    continue
                if n.name == "w:fldChar":
                    ty = n.attributes.get("w:fldCharType")
                    if ty == "begin":
                        stack.append({"link": None, "sep": False})
                        del cur_instr[:]
                    elif ty == "separate" and stack:
                        text = "".join(cur_instr)
                        m = HREF_FIELD.match(text)
                        m2 = ANCHOR_FIELD.match(text)
                        stack[-1]["sep"] = True
                        stack[-1]["link"] = m.group(1) if m else ("#" + prefix + m2.group(1) if m2 else None)
                    elif ty == "end" and stack:
                        stack.pop()
                elif n.name == "w:instrText":
                    cur_instr.append("".join(c.value for c in n.children if not isinstance(c, XmlElement)))
                elif n.name == "w:hyperlink":
                    rid, anchor = n.attributes.get("r:id"), n.attributes.get("w:anchor")
                    link = wlink
                    if rid is not None:
                        link = rels[rid].split("#", 1)[0] + "#" + anchor if anchor is not None else rels[rid]
                    elif anchor is not None:
                        link = "#" + prefix + anchor
                    walk(n.children, link)
                elif n.name == "w:r":
                    # the field state that counts is the one AFTER the run's own children were read
                    walk([c for c in n.children if isinstance(c, XmlElement) and c.name in ("w:fldChar", "w:instrText")], wlink)
                    field = next((f["link"] for f in reversed(stack) if f["sep"] and f["link"] is not None), None)
                    for c in n.children:
                        if isinstance(c, XmlElement) and c.name == "w:t":
                            txt = "".join(x.value for x in c.children if not isinstance(x, XmlElement))
                            for m in re.finditer(r"t(\d+)", txt):
                                out[m.group(0)] = field if field is not None else wlink
                    walk([c for c in n.children if isinstance(c, XmlElement) and c.name not in ("w:fldChar", "w:instrText", "w:t")], wlink)
                elif n.name in ("w:del", "w:rPr", "w:pPr", "w:delText"):
                    continue
                elif n.name == "w:pict":
                    walk(n.children, None)      # text-box content is placed after the host paragraph, outside its w:hyperlink
                elif n.name == "mc:AlternateContent":
                    walk(n.find_child_or_null("mc:Fallback").children, wlink)
                elif n.name == "w:sdt":
                    if n.find_child_or_null("w:sdtPr").find_child("wordml:checkbox") is None:
                        walk(n.find_child_or_null("w:sdtContent").children, wlink)
                else:
                    walk(n.children, wlink)
        walk(nodes, None)
    part(pkg.body)
    return out


def live_bookmarks(nodes):
    """names of the w:bookmarkStart elements the reader reaches, in order"""
    out = []
    for n in nodes:
        if not isinstance(n, XmlElement):
            continue
        if n.name == "w:bookmarkStart":
            if n.attributes.get("w:name") is not None:
                out.append(n.attributes["w:name"])
        elif n.name in ("w:del", "w:rPr", "w:pPr", "w:delText", "w:t", "w:instrText", "w:tblPr", "w:trPr", "w:tcPr"):
            continue
        elif n.name == "mc:AlternateContent":
            out += live_bookmarks(n.find_child_or_null("mc:Fallback").children)
        elif n.name == "w:sdt":
            if n.find_child_or_null("w:sdtPr").find_child("wordml:checkbox") is None:
                out += live_bookmarks(n.find_child_or_null("w:sdtContent").children)
        elif n.name in ("w:p", "w:r", "w:tbl", "w:tr", "w:tc", "w:hyperlink", "w:ins", "w:smartTag", "w:pict", "v:shape", "v:textbox",
                        "w:txbxContent", "w:drawing", "w:object", "v:group", "v:rect", "v:roundrect"):
            out += live_bookmarks(n.children)
    return out


def text_links(forest, link, out):
    for n in forest:
        if "name" in n:
            text_links(n["children"], n["attrs"].get("href", link) if n["name"] == "a" and "href" in n["attrs"] else link, out)
        else:
            for m in re.finditer(r"t(\d+)", n.get("text", "")):
                out[m.group(0)] = link


def collect(forest, out):
    for n in forest:
        if "name" in n:
            out.append(n)
            collect(n["children"], out)


def oracle(pkg, prefix, html, comment_mapping):
    try:
        forest = O.strict_parse(html)
    except ValueError as e:
        return "output is not well-formed: %s" % e
    els = []
    collect(forest, els)
    ids = [e["attrs"]["id"] for e in els if "id" in e["attrs"]]
    hrefs = [e["attrs"]["href"] for e in els if e["name"] == "a" and "href" in e["attrs"]]
    allowed = expected_links(pkg, prefix)
    for i in ids:
        if not i.startswith(prefix):
            return "generated id %r does not start with id_prefix" % i
    note_href = re.compile("^#" + re.escape(prefix) + r"(footnote|endnote|comment)-(ref-)?")
    for h in hrefs:
        if note_href.match(h):
            if h[1:] not in ids:
                return "note/comment href %r does not resolve to an id in the output" % h
        elif h not in allowed:
            return "href %r is not the target of any link in the document" % h
    # every run's text is linked to exactly the target the document gives it (innermost field, else its w:hyperlink)
    if not pkg.meta.get("skip_run_links"):
        exp = expected_run_links(pkg, prefix)
        got = {}
        text_links(forest, None, got)
        for k, v in exp.items():
            if k in got and got[k] != v:
                return "text %r is linked to %r, the document links it to %r" % (k, got[k], v)
    # every bookmark that is read yields an element whose id is id_prefix + its name (Word's own cursor bookmark _GoBack excepted)
    for name in live_bookmarks(pkg.body):
        if name != "_GoBack" and prefix + name not in ids:
            return "bookmark %r has no element with id %r in the output" % (name, prefix + name)
    # note references: k-th reference labelled [k], k-th li is its note, back-link returns
    refs = [e for e in els if e["name"] == "a" and re.match("^" + re.escape(prefix) + r"(footnote|endnote)-ref-", e["attrs"].get("id", ""))]
    for k, e in enumerate(refs):
        if O.text_of_parsed(e["children"]) != "[%d]" % (k + 1):
            return "the %d-th note reference is labelled %r" % (k + 1, O.text_of_parsed(e["children"]))
    ols = [n for n in forest if n.get("name") == "ol"]
    if refs:
        lis = [n for n in ols[-1]["children"] if n.get("name") == "li"] if ols else []
        # references inside notes are numbered too but get no list item (their notes were resolved before): only the
        # references of the body are matched here
        for k, li in enumerate(lis):
            if k >= len(refs):
                break
            if li["attrs"].get("id") != refs[k]["attrs"]["href"][1:]:
                return "the %d-th notes list item is not the note of the %d-th reference" % (k + 1, k + 1)
            sub = []
            collect(li["children"], sub)
            backs = [x["attrs"]["href"] for x in sub if x["name"] == "a" and x["attrs"].get("href") == "#" + refs[k]["attrs"]["id"]]
            if not backs:
                return "the %d-th note has no back-link to its reference" % (k + 1)
    return None


def run(ctx):
    ctx.build()
    rng = ctx.rng
    n = 1500 if ctx.thorough else 140
    terms, metas = [], []
    dist = {"packages": 0, "with_field_links": 0, "with_switches": 0, "with_notes": 0, "with_comments": 0, "with_bookmarks": 0}
    with A.Workdir() as wd:
        for i in range(n):
            g = gen_xml.XGen(rng, anomalies=0.05, hostile=0.15, images=False, textboxes=(i % 3 == 0), switches=0.6)
            pkg = g.package()
            if i % 5 == 2:
                # range markup sits legally BETWEEN the rows and BETWEEN the cells of a table (children of w:tbl and of w:tr):
                # those bookmarks are bookmarks too, and internal links to them must resolve
                from mammoth.docx.xmlparser import element as X, text as XT
                cell = lambda s_: X("w:tc", {}, [X("w:p", {}, [X("w:r", {}, [X("w:t", {}, [XT(s_)])])])])
                pkg.body.append(X("w:tbl", {}, [X("w:tr", {}, [cell("r1c1"), X("w:bookmarkStart", {"w:id": "901", "w:name": "between_cells"}),
                                                                  X("w:bookmarkEnd", {"w:id": "901"}), cell("r1c2")]),
                                                 X("w:bookmarkStart", {"w:id": "902", "w:name": "between_rows"}), X("w:bookmarkEnd", {"w:id": "902"}),
                                                 X("w:tr", {}, [cell("r2c1"), cell("r2c2")])]))
                pkg.body.append(X("w:p", {}, [X("w:hyperlink", {"w:anchor": "between_rows"}, [X("w:r", {}, [X("w:t", {}, [XT("to the row mark")])])]),
                                              X("w:hyperlink", {"w:anchor": "between_cells"}, [X("w:r", {}, [X("w:t", {}, [XT("to the cell mark")])])])]))
            prefix = rng.choice(["", "", "doc-", 'p"<'])
            sm = rng.choice(MAPS)
            if i % 5 == 3:
                # a comment reference INSIDE a footnote (and one inside an endnote), comment mapping on: its link must resolve like any other
                from mammoth.docx.xmlparser import element as X, text as XT
                cid = str(100 + len(pkg.comments or []))
                pkg.comments = list(pkg.comments or []) + [X("w:comment", {"w:id": cid, "w:author": "A", "w:initials": "AN"},
                                                             [X("w:p", {}, [X("w:r", {}, [X("w:t", {}, [XT("about the note")])])])])]
                for kind in ("footnote", "endnote"):
                    part = list(getattr(pkg, kind + "s") or [])
                    nid = str(max([int(n_.attributes.get("w:id", "0")) for n_ in part if n_.attributes.get("w:id", "0").lstrip("-").isdigit()] + [1]) + 1)
                    part.append(X("w:" + kind, {"w:id": nid}, [X("w:p", {}, [X("w:r", {}, [X("w:t", {}, [XT("note with a comment")]), X("w:commentReference", {"w:id": cid})])])]))
                    setattr(pkg, kind + "s", part)
                    pkg.body.append(X("w:p", {}, [X("w:r", {}, [X("w:t", {}, [XT("see the " + kind)]), X("w:%sReference" % kind, {"w:id": nid})])]))
                sm = "comment-reference => sup"
            opts = {"style_map": sm, "include_default_style_map": True, "include_embedded_style_map": True,
                    "ignore_empty_paragraphs": True, "id_prefix": prefix, "conv": "data_uri"}
            data, parts = B.build(pkg)
            html, raw = A.run_impl(data, opts, None)
            ctx.count()
            dist["packages"] += 1
            body_txt = repr([xml_json(x) for x in pkg.body])
            if "HYPERLINK" in body_txt:
                dist["with_field_links"] += 1
            if "\\\\o" in body_txt or "\\\\t" in body_txt:
                dist["with_switches"] += 1
            if g.note_ids["footnote"] or g.note_ids["endnote"]:
                dist["with_notes"] += 1
            if g.comment_ids:
                dist["with_comments"] += 1
            meta = {"package": gen_xml.pkg_json(pkg), "body": [xml_json(x) for x in pkg.body], "options": opts, "index": i,
                    "rels": pkg.rels,
                    "footnotes": [xml_json(x) for x in (pkg.footnotes or [])], "endnotes": [xml_json(x) for x in (pkg.endnotes or [])],
                    "comments": [xml_json(x) for x in (pkg.comments or [])]}
            if isinstance(html, Exception):
                ctx.violation("oracle", "conversion raised %r" % html, dict(meta, api="mammoth.convert_to_html"), True)
            else:
                bad = oracle(pkg, prefix, html.value, sm and "comment-reference" in sm)
                if bad:
                    ctx.violation("oracle", bad, dict(meta, api="mammoth.convert_to_html", observed_html=html.value[:1500]), True)
                elif "href" in html.value:
                    ctx.nontrivial(i)
                    if "HYPERLINK" in body_txt:
                        ctx.sample({"html": html.value[:300]})
            terms.append(A.case_term(parts, False, {}, opts, html, raw))
            metas.append(meta)
    for i in ctx.coq_eval("c10", A.HEADER + LINKS_HEADER, terms, A.CASE_TYPE, "chk_api", shard=12, more=("chk_links", "chk_linkitems", "chk_linkitems_domain"))[:5]:
        ctx.violation("correspondence", "model and implementation disagree",
                      dict(metas[i], obligation="correspondence Model/Api.v vs mammoth.convert_to_html"), False)
    # the statement of C10_note_links_resolve / C10_bookmarks_have_ids, evaluated on the model's forest for every generated package
    for i in ctx.more_bad["chk_links"][:5]:
        ctx.violation("proof", "a note reference or a bookmark of the document has no counterpart id / href in the forest (Proofs/LinksSpec.v: links_agree is false)",
                      dict(metas[i], obligation="Props/C10.v: C10_note_links_resolve / C10_bookmarks_have_ids evaluated on this package"), False)
    for i in ctx.more_bad["chk_linkitems"][:5]:
        ctx.violation("proof", "the links the reader attaches to the live items are not those the specification prescribes on the XML (Proofs/LinkSpec.v: links_items_agree is false)",
                      dict(metas[i], obligation="Props/C10.v: C10_docx_links evaluated on this package"), False)
    dist["in_reader_links_theorem_domain"] = len(terms) - len(ctx.more_bad["chk_linkitems_domain"])
    ctx.coverage["traces_validated_against_impl"] = len(terms)
    ctx.coverage["input_distribution"] = dist
    ctx.coverage["rule"] = ("packages with interleaved relationship / anchor / field-code hyperlinks (nested fields, split instruction text, \\\\o and \\\\t switches), "
                            "bookmarks, footnote/endnote references in body and tables, comment references; random id_prefix; comment mapping on/off; every href "
                            "must be a link target of the document or resolve to an id; non-trivial = package whose output contains links")


def replay(ctx, rep):
    r = rep["replay"]
    pkg = gen_xml.pkg_from_json(r["package"])
    data, _ = B.build(pkg)
    html, _ = A.run_impl(data, r["options"], None)
    bad = repr(html) if isinstance(html, Exception) else oracle(pkg, r["options"]["id_prefix"] or "", html.value, True)
    print("replay:", bad or "property holds on this input")
    return 1 if bad else 0
