"""C10 — links, bookmarks, notes and comments stay connected."""
import os
import re

from mammoth.docx.xmlparser import XmlElement

from .. import apilevel as A, docx_builder as B, gen_xml, oracle_html as O
from ..gen_xml import xml_json

MAPS = ["comment-reference => sup", None, "comment-reference => sup\np.Quote => blockquote > p:fresh", "r.Hyperlink => span.link"]
HREF_FIELD = re.compile(r'^\s*HYPERLINK "([^"]*)"')
ANCHOR_FIELD = re.compile(r'^\s*HYPERLINK\s+\\l\s+"([^"]*)"')


def expected_links(pkg, prefix):
    """every href the property allows, from the generator's own record of the package"""
    rels = {i: t for i, t, ty in pkg.rels}
    allowed = set()

    def walk(nodes):
        instr = []
        for n in nodes:
            if not isinstance(n, XmlElement):
                continue
            if n.name == "w:hyperlink":
                rid, anchor = n.attributes.get("r:id"), n.attributes.get("w:anchor")
                if rid is not None:
                    t = rels[rid]
                    if anchor is not None:
                        t = t.split("#", 1)[0] + "#" + anchor
                    allowed.add(t)
                elif anchor is not None:
                    allowed.add("#" + prefix + anchor)
            if n.name == "w:instrText":
                instr.append("".join(c.value for c in n.children if not isinstance(c, XmlElement)))
            walk(n.children)
    all_parts = list(pkg.body)
    for part in (pkg.footnotes, pkg.endnotes, pkg.comments):
        all_parts += part or []
    walk(all_parts)
    # field instructions: concatenation of the instrText pieces between a begin and its separate
    def fields(nodes, acc):
        for n in nodes:
            if not isinstance(n, XmlElement):
                continue
            if n.name == "w:fldChar":
                t = n.attributes.get("w:fldCharType")
                if t == "begin":
                    acc.append([])
                elif t in ("separate", "end") and acc and acc[-1] is not None:
                    text = "".join(acc[-1])
                    m = HREF_FIELD.match(text)
                    if m:
                        allowed.add(m.group(1))
                    m = ANCHOR_FIELD.match(text)
                    if m:
                        allowed.add("#" + prefix + m.group(1))
                    if t == "end":
                        acc.pop()
                    else:
                        acc[-1] = None
                elif t == "end" and acc:
                    acc.pop()
            elif n.name == "w:instrText" and acc and acc[-1] is not None:
                # begin resets the text, so only the innermost open field collects
                acc[-1].append("".join(c.value for c in n.children if not isinstance(c, XmlElement)))
            fields(n.children, acc)
    fields(all_parts, [])
    return allowed


def collect(forest, out):
    for n in forest:
        if "name" in n:
            out.append(n)
            collect(n["children"], out)


def oracle(pkg, prefix, html, comment_mapping):
    try:
        forest = O.strict_parse(html)
    except ValueError as e:
        return "output is not well-formed: %s" % e
    els = []
    collect(forest, els)
    ids = [e["attrs"]["id"] for e in els if "id" in e["attrs"]]
    hrefs = [e["attrs"]["href"] for e in els if e["name"] == "a" and "href" in e["attrs"]]
    allowed = expected_links(pkg, prefix)
    for i in ids:
        if not i.startswith(prefix):
            return "generated id %r does not start with id_prefix" % i
    note_href = re.compile("^#" + re.escape(prefix) + r"(footnote|endnote|comment)-(ref-)?")
    for h in hrefs:
        if note_href.match(h):
            if h[1:] not in ids:
                return "note/comment href %r does not resolve to an id in the output" % h
        elif h not in allowed:
            return "href %r is not the target of any link in the document" % h
    # note references: k-th reference labelled [k], k-th li is its note, back-link returns
    refs = [e for e in els if e["name"] == "a" and re.match("^" + re.escape(prefix) + r"(footnote|endnote)-ref-", e["attrs"].get("id", ""))]
    for k, e in enumerate(refs):
        if O.text_of_parsed(e["children"]) != "[%d]" % (k + 1):
            return "the %d-th note reference is labelled %r" % (k + 1, O.text_of_parsed(e["children"]))
    ols = [n for n in forest if n.get("name") == "ol"]
    if refs:
        lis = [n for n in ols[-1]["children"] if n.get("name") == "li"] if ols else []
        # references inside notes are numbered too but get no list item (their notes were resolved before): only the
        # references of the body are matched here
        for k, li in enumerate(lis):
            if k >= len(refs):
                break
            if li["attrs"].get("id") != refs[k]["attrs"]["href"][1:]:
                return "the %d-th notes list item is not the note of the %d-th reference" % (k + 1, k + 1)
            sub = []
            collect(li["children"], sub)
            backs = [x["attrs"]["href"] for x in sub if x["name"] == "a" and x["attrs"].get("href") == "#" + refs[k]["attrs"]["id"]]
            if not backs:
                return "the %d-th note has no back-link to its reference" % (k + 1)
    return None


def run(ctx):
    ctx.build()
    rng = ctx.rng
    n = 1500 if ctx.thorough else 140
    terms, metas = [], []
    dist = {"packages": 0, "with_field_links": 0, "with_switches": 0, "with_notes": 0, "with_comments": 0, "with_bookmarks": 0}
    with A.Workdir() as wd:
        for i in range(n):
            g = gen_xml.XGen(rng, anomalies=0.05, hostile=0.15, images=False, textboxes=(i % 3 == 0), switches=0.6)
            pkg = g.package()
            prefix = rng.choice(["", "", "doc-", 'p"<'])
            sm = rng.choice(MAPS)
            opts = {"style_map": sm, "include_default_style_map": True, "include_embedded_style_map": True,
                    "ignore_empty_paragraphs": True, "id_prefix": prefix, "conv": "data_uri"}
            data, parts = B.build(pkg)
            html, raw = A.run_impl(data, opts, None)
            ctx.count()
            dist["packages"] += 1
            body_txt = repr([xml_json(x) for x in pkg.body])
            if "HYPERLINK" in body_txt:
                dist["with_field_links"] += 1
            if "\\\\o" in body_txt or "\\\\t" in body_txt:
                dist["with_switches"] += 1
            if g.note_ids["footnote"] or g.note_ids["endnote"]:
                dist["with_notes"] += 1
            if g.comment_ids:
                dist["with_comments"] += 1
            meta = {"package": gen_xml.pkg_json(pkg), "body": [xml_json(x) for x in pkg.body], "options": opts, "index": i,
                    "rels": pkg.rels,
                    "footnotes": [xml_json(x) for x in (pkg.footnotes or [])], "endnotes": [xml_json(x) for x in (pkg.endnotes or [])],
                    "comments": [xml_json(x) for x in (pkg.comments or [])]}
            if isinstance(html, Exception):
                ctx.violation("oracle", "conversion raised %r" % html, dict(meta, api="mammoth.convert_to_html"), True)
            else:
                bad = oracle(pkg, prefix, html.value, sm and "comment-reference" in sm)
                if bad:
                    ctx.violation("oracle", bad, dict(meta, api="mammoth.convert_to_html", observed_html=html.value[:1500]), True)
                elif "href" in html.value:
                    ctx.nontrivial(i)
                    if "HYPERLINK" in body_txt:
                        ctx.sample({"html": html.value[:300]})
            terms.append(A.case_term(parts, False, {}, opts, html, raw))
            metas.append(meta)
    for i in ctx.coq_eval("c10", A.HEADER, terms, A.CASE_TYPE, "chk_api", shard=12)[:5]:
        ctx.violation("correspondence", "model and implementation disagree",
                      dict(metas[i], obligation="correspondence Model/Api.v vs mammoth.convert_to_html"), False)
    ctx.coverage["traces_validated_against_impl"] = len(terms)
    ctx.coverage["input_distribution"] = dist
    ctx.coverage["rule"] = ("packages with interleaved relationship / anchor / field-code hyperlinks (nested fields, split instruction text, \\\\o and \\\\t switches), "
                            "bookmarks, footnote/endnote references in body and tables, comment references; random id_prefix; comment mapping on/off; every href "
                            "must be a link target of the document or resolve to an id; non-trivial = package whose output contains links")


def replay(ctx, rep):
    r = rep["replay"]
    pkg = gen_xml.pkg_from_json(r["package"])
    data, _ = B.build(pkg)
    html, _ = A.run_impl(data, r["options"], None)
    bad = repr(html) if isinstance(html, Exception) else oracle(pkg, r["options"]["id_prefix"] or "", html.value, True)
    print("replay:", bad or "property holds on this input")
    return 1 if bad else 0
