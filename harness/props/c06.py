"""C06 — every style mapping the documented syntax can express means what it says."""
from mammoth.styles.parser import read_style_mapping

from .. import gen_styles as G, terms as T

HEADER = """From Mammoth Require Import Options PrintSpec.
Local Open Scope N_scope.
(* (abstract matcher, abstract path, w1, w2, seps, text printed by the harness's printer, observed parse result) *)
Definition chk (c : amatch * apath * str * str * list (str * str) * str * option (option style)) : bool :=
  let '(m, p, w1, w2, seps, text, obs) := c in
  str_eqb (print_mapping m p w1 w2 seps) text
  && match read_style_mapping text, obs with
     | Ok (Some s), Some (Some s') => style_eqb s s' && (negb (wf_matcher m && wf_path p && wf_ws w1 w2 seps p) || style_eqb s (denote m p))
     | Ok None, Some None => negb (wf_matcher m && wf_path p && wf_ws w1 w2 seps p)
     | Crash _, None => true
     | _, _ => false
     end.
"""
CASE_TYPE = "amatch * apath * str * str * list (str * str) * str * option (option style)"
WS = [" ", "  ", "\t", " ", " ", " \t ", "\x0b", "\x1f", " "]


def a_matcher(m):
    k = m["kind"]
    sn = lambda x: T.opt(lambda v: "(%s, %s)" % (T.b(v[0] == "^="), T.s(v[1])), x)
    if k in ("p", "r", "table"):
        args = "%s %s" % (T.opt(T.s, m["style_id"]), sn(m["style_name"]))
        if k == "p":
            return "(APara %s %s)" % (args, T.opt(lambda l: "(%s, %d)" % (T.b(l[0] == "ordered-list"), l[1]), m.get("list")))
        return "(%s %s)" % ("ARun" if k == "r" else "ATable", args)
    if k == "highlight":
        return "(AHighlight %s)" % T.opt(T.s, m["color"])
    if k == "br":
        return "(ABreak %d)" % ["line", "page", "column"].index(m["type"])
    return {"b": "ABold", "i": "AItalic", "u": "AUnderline", "strike": "AStrike", "all-caps": "AAllCaps", "small-caps": "ASmallCaps",
            "comment-reference": "ACommentRef"}[k]


def a_path(p):
    if p == "!":
        return "AIgnore"
    def el(e):
        parts = T.lst(lambda x: "(PClass %s)" % T.s(x[1]) if x[0] == "class" else "(PAttr %s %s)" % (T.s(x[1]), T.s(x[2])), e["parts"])
        return "(mkAE %s %s %s %s %s)" % (T.s(e["names"][0]), T.lst(T.s, e["names"][1:]), parts, T.b(e["fresh"]), T.opt(T.s, e["separator"]))
    return "(AElems %s)" % T.lst(el, p)


def print_text(m, p, w1, w2, seps):
    out = G.print_matcher(m) + w1 + "=>" + w2
    if p == "!":
        return out + "!"
    parts = []
    for e in p:
        t = "|".join(G.esc_ident(n) for n in e["names"])
        for part in e["parts"]:
            t += ("." + G.esc_ident(part[1])) if part[0] == "class" else "[%s=%s]" % (G.esc_ident(part[1]), G.esc_string(part[2]))
        if e["fresh"]:
            t += ":fresh"
        if e["separator"] is not None:
            t += ":separator(%s)" % G.esc_string(e["separator"])
        parts.append(t)
    for i, t in enumerate(parts):
        if i:
            out += seps[i - 1][0] + ">" + seps[i - 1][1]
        out += t
    return out


def expected_json(m, p):
    """what the mapping says, as the JSON form of terms.style_json (written from the README, not from the parser)"""
    k = m["kind"]
    sm = lambda x: None if x is None else {"op": "prefix" if x[0] == "^=" else "eq", "value": x[1]}
    if k == "p":
        mj = {"kind": "paragraph", "style_id": m["style_id"], "style_name": sm(m["style_name"]),
              "numbering": None if not m.get("list") else {"level_index": str(m["list"][1] - 1), "is_ordered": m["list"][0] == "ordered-list"}}
    elif k in ("r", "table"):
        mj = {"kind": "run" if k == "r" else "table", "style_id": m["style_id"], "style_name": sm(m["style_name"])}
    elif k == "highlight":
        mj = {"kind": "highlight", "color": m["color"]}
    elif k == "br":
        mj = {"kind": "break", "break_type": m["type"]}
    else:
        mj = {"kind": {"b": "bold", "i": "italic", "u": "underline", "strike": "strikethrough", "all-caps": "all_caps", "small-caps": "small_caps",
                       "comment-reference": "comment_reference"}[k]}
    if p == "!":
        return {"matcher": mj, "path": "!"}
    els = []
    for e in p:
        attrs = {}
        classes = [x[1] for x in e["parts"] if x[0] == "class"]
        for x in e["parts"]:
            if x[0] == "attr":
                attrs[x[1]] = x[2]
        if classes:
            # class shorthands accumulate, also onto an explicit (non-empty) class attribute written before them
            attrs["class"] = " ".join(([attrs["class"]] if attrs.get("class") else []) + classes)
        els.append({"tag": list(e["names"]), "attrs": dict(sorted(attrs.items())), "collapsible": not e["fresh"], "separator": e["separator"]})
    return {"matcher": mj, "path": els}


def well_formed(m, p):
    def ident_ok(s):
        return s != "" and all((not c.isspace()) or c in "\n\r\t" for c in s)
    ids = [m.get("style_id")] if m["kind"] in ("p", "r", "table") else []
    if any(i is not None and not ident_ok(i) for i in ids):
        return False
    if m.get("list") and m["list"][1] < 1:
        return False
    if p != "!":
        for e in p:
            if not all(ident_ok(n) for n in e["names"]):
                return False
            keys = [x[1] for x in e["parts"] if x[0] == "attr"]
            classes = [x[1] for x in e["parts"] if x[0] == "class"]
            if not all(ident_ok(k) for k in keys + classes):
                return False
            if len(keys) != len(set(keys)):
                return False
            if classes and "class" in keys:
                # defined only when the explicit class attribute is non-empty and comes before every shorthand
                kinds = [x[0] if not (x[0] == "attr" and x[1] == "class") else "classattr" for x in e["parts"]]
                val = [x[2] for x in e["parts"] if x[0] == "attr" and x[1] == "class"][0]
                if not val or kinds.index("classattr") > kinds.index("class"):
                    return False
    return True


def probe_stream(ctx, dist):
    import io
    import mammoth
    from mammoth.docx.xmlparser import element as X, text as XT
    from .. import docx_builder as B, gen_xml, oracle_html as O
    from . import c03
    rng = ctx.rng
    table = {"1": [False, False, True], "2": [True, True, False]}
    for i in range(500 if ctx.thorough else 70):
        sid, sname = rng.choice(c03.STYLES[:4])
        lvl, nid = rng.choice([0, 1, 2]), rng.choice(["1", "2"])
        target = {"kind": "p", "style_id": sid, "style_name": sname, "numbering": (str(lvl), table[nid][lvl])}
        m = {"kind": "p", "style_id": sid if rng.random() < 0.6 else None,
             # (white space at either end of the quoted string is part of the name: `Title ` is not `Title`, `Sec ` is not a prefix of `Sector`)
             "style_name": (rng.choice([("=", sname.swapcase()), ("^=", sname[:4]), ("=", sname + " "), ("=", " " + sname), ("^=", sname.split(" ")[0][:-1] + " "),
                                        ("^=", "\t" + sname[:3]), ("=", sname + "\t")]) if rng.random() < 0.7 else None),
             "list": (("ordered-list" if target["numbering"][1] else "unordered-list", lvl + 1) if rng.random() < 0.7 else None)}
        other = [x for x in c03.STYLES[:4] if x[0] != sid][0]
        lvl2 = (lvl + 1) % 3
        nid2 = "2" if nid == "1" else "1"
        variants = [("exact", sid, (lvl, nid)), ("other_style", other[0], (lvl, nid)), ("other_level", sid, (lvl2, nid)),
                    ("other_list", sid, (lvl, nid2)), ("no_numbering", sid, None), ("no_style", None, (lvl, nid))]
        paras, els = [], []
        for name, vs, vn in variants:
            ppr = ([X("w:pStyle", {"w:val": vs})] if vs else []) + \
                  ([X("w:numPr", {}, [X("w:ilvl", {"w:val": str(vn[0])}), X("w:numId", {"w:val": vn[1]})])] if vn else [])
            text = "%s%d" % (name, i)
            paras.append(X("w:p", {}, ([X("w:pPr", {}, ppr)] if ppr else []) + [X("w:r", {}, [X("w:t", {}, [XT(text)])])]))
            names = dict(c03.STYLES)
            num = (str(vn[0]), table[vn[1]][vn[0]]) if vn else (("0", True) if vs == "ListParagraph" else None)
            els.append({"kind": "p", "style_id": vs, "style_name": names.get(vs), "numbering": num, "text": text})
        pkg = gen_xml.Package()
        pkg.styles = [X("w:style", {"w:type": "paragraph", "w:styleId": s_}, [X("w:name", {"w:val": n_})] if n_ else []) for s_, n_ in c03.STYLES]
        pkg.numbering = gen_xml.XGen(rng).numbering_part()
        pkg.body = paras
        line = G.print_matcher(m) + " => div.hit:fresh"
        data, _ = B.build(pkg)
        try:
            res = mammoth.convert_to_html(io.BytesIO(data), style_map=line, include_default_style_map=False)
            forest = O.strict_parse(res.value)
            bad = None
            for e in els:
                chain = c03.find_marker(forest, e["text"]) or ()
                hit = any(c == "hit" for _, c in chain)
                if hit != c03.spec_matches(m, e):
                    bad = "the mapping %r %s the paragraph %s (style %s, numbering %s)" % (line, "was applied to" if hit else "was not applied to",
                                                                                       e["text"], e["style_id"], e["numbering"])
                    break
        except Exception as ex:
            bad, res = "conversion raised %r" % ex, None
        ctx.count()
        dist["probe_documents"] = dist.get("probe_documents", 0) + 1
        if bad:
            ctx.violation("oracle", bad, {"api": "mammoth.convert_to_html", "style_map": line, "package": gen_xml.pkg_json(pkg),
                                          "observed": None if res is None else res.value[:500]}, True)
            if len(ctx.violations) > 10:
                break


def run(ctx):
    ctx.build()
    rng = ctx.rng
    n = 8000 if ctx.thorough else 900
    terms, metas = [], []
    dist = {"mappings": 0, "well_formed": 0, "kinds": {}, "with_escapes": 0, "path_lengths": {}}
    import copy as _copy
    pending = []
    for i in range(n):
        if pending:
            m, p = pending.pop()
        else:
            m, p = G.rand_matcher(rng), G.rand_path(rng)
            if rng.random() < 0.06:
                # a TWIN follows: the same mapping except that one quoted string has two spaces where this one has one - white space inside a
                # string is part of the string, so the twin is another mapping
                m2, p2 = _copy.deepcopy(m), _copy.deepcopy(p)
                where = rng.choice(["name", "separator", "attr"])
                if where == "name" and m["kind"] in ("p", "r", "table"):
                    op = rng.choice(["=", "^="])
                    m["style_name"], m2["style_name"] = (op, "Intense quote x"), (op, "Intense  quote x")
                    pending.append((m2, p2))
                elif where != "name" and p != "!" and p:
                    if where == "separator":
                        p[-1]["separator"], p2[-1]["separator"] = ", and ", ",  and "
                    else:
                        p[-1]["parts"] = [("attr", "title", "a b")]
                        p2[-1]["parts"] = [("attr", "title", "a  b")]
                    pending.append((m2, p2))
        w1 = rng.choice(WS)
        w2 = rng.choice(WS + [""])
        seps = [(rng.choice(WS), rng.choice(WS)) for _ in range(max(0, (len(p) if p != "!" else 0) - 1))]
        text = print_text(m, p, w1, w2, seps)
        try:
            r = read_style_mapping(text.strip())
            obs = "(Some None)" if r.value is None else "(Some (Some %s))" % T.style(r.value)
            got = None if r.value is None else T.style_json(r.value)
        except Exception as e:
            obs, got = "None", e
        ctx.count()
        dist["mappings"] += 1
        dist["kinds"][m["kind"]] = dist["kinds"].get(m["kind"], 0) + 1
        L = 0 if p == "!" else len(p)
        dist["path_lengths"][L] = dist["path_lengths"].get(L, 0) + 1
        if "\\" in text:
            dist["with_escapes"] += 1
        wf = well_formed(m, p)
        meta = {"matcher": m, "path": p, "text": text, "index": i}
        if wf:
            dist["well_formed"] += 1
            exp = expected_json(m, p)
            meta["wf"], meta["exp"] = True, exp
            if isinstance(got, Exception) or got != exp:
                ctx.violation("oracle", "the mapping read from the text is not the mapping that was written",
                              dict(meta, api="read_style_mapping", observed=repr(got)[:400], expected=exp), True)
                if len(ctx.violations) > 10:
                    break
            else:
                ctx.nontrivial(text)
                if "\\" in text and L >= 2:
                    ctx.sample({"text": text, "meaning": exp})
        # the line is stripped before it is read: printed text never starts or ends with whitespace unless the path is empty
        terms.append("(%s, %s, %s, %s, %s, %s, %s)" % (a_matcher(m), a_path(p), T.s(w1), T.s(w2), T.lst(lambda ab: "(%s, %s)" % (T.s(ab[0]), T.s(ab[1])), seps),
                                                  T.s(text.strip()) if text.strip() == text else T.s(text), obs if text.strip() == text else obs))
        metas.append(meta)
    # the same mappings through the public option: several per style map, indented, between blank lines and # comment lines
    from mammoth import options as moptions
    wf_metas = [mt for mt in metas if mt.get("wf")]
    dist["style_maps"] = 0
    j = 0
    while j < len(wf_metas) and len(ctx.violations) <= 10:
        k = rng.randint(1, 6)
        group = wf_metas[j:j + k]
        j += k
        lines = []
        for mt in group:
            while rng.random() < 0.3:
                lines.append(rng.choice(["", "   ", "# a comment", "  # p => h1", "#p.x => p#y", "\t"]))
            lines.append(rng.choice(["", " ", "\t", "  "]) + mt["text"].strip() + rng.choice(["", " ", "\t "]))
        sm = "\n".join(lines)
        try:
            res = moptions.read_options({"style_map": sm, "include_default_style_map": False})
            got = [T.style_json(x) for x in res.value["style_map"]]
            msgs = [m.message for m in res.messages]
        except Exception as e:
            got, msgs = repr(e), []
        ctx.count()
        dist["style_maps"] += 1
        exp = [mt["exp"] for mt in group]
        if got != exp or msgs:
            ctx.violation("oracle", "a style map of well-formed lines (with blank and comment lines between them) was not read as the list of its mappings",
                          {"api": "options.read_options", "style_map": sm, "observed": got if isinstance(got, str) else got[:8], "expected": exp, "messages": msgs[:4]}, True)
    # the mappings at work: a probe document holding one paragraph the matcher describes and decoys that differ from it in exactly
    # one feature; the mapped element must land on precisely the paragraphs the matcher describes
    probe_stream(ctx, dist)
    # cases whose printed text ends in whitespace (empty path) are compared on the stripped text by both sides
    keep = [j for j, mt in enumerate(metas) if mt["text"].strip() == mt["text"]]
    bad = ctx.coq_eval("c06", HEADER, [terms[j] for j in keep], CASE_TYPE, "chk", shard=60)
    for j in bad[:5]:
        ctx.violation("correspondence", "model printer/parser and implementation disagree, or a well-formed mapping does not denote what it says",
                      dict(metas[keep[j]], obligation="correspondence Proofs/PrintSpec.v + Model/StyleParser.v vs read_style_mapping"), False)
    ctx.coverage["traces_validated_against_impl"] = len(keep)
    ctx.coverage["input_distribution"] = dist
    ctx.coverage["rule"] = ("random abstract (matcher, path) pairs over every matcher kind and path feature with hostile identifier / string contents (quotes, backslashes, "
                            "brackets, >, |, =>, leading digits, \\n \\r \\t, non-BMP), printed by an independent printer with random legal whitespace; the parsed mapping must "
                            "equal the meaning computed from the abstract syntax (README semantics), in Python and in Coq (denote); non-trivial = distinct well-formed text parsed as written")
    ctx.assumptions += ["identifiers contain no raw whitespace other than \\n \\r \\t; attribute names distinct and not `class` when classes are present (the README does not define duplicates)"]


def replay(ctx, rep):
    r = rep["replay"]
    if r.get("api") == "options.read_options":
        from mammoth import options as moptions
        try:
            res = moptions.read_options({"style_map": r["style_map"], "include_default_style_map": False})
            got = [T.style_json(x) for x in res.value["style_map"]]
            ok = got == r["expected"] and not res.messages
        except Exception as e:
            got, ok = repr(e), False
        print("replay:", "property holds on this input" if ok else "violated: %r" % (got,))
        return 0 if ok else 1
    try:
        res = read_style_mapping(r["text"].strip())
        got = None if res.value is None else T.style_json(res.value)
    except Exception as e:
        got = repr(e)
    exp = expected_json(r["matcher"], [dict(e, parts=[tuple(x) for x in e["parts"]]) for e in r["path"]] if r["path"] != "!" else "!")
    print("replay:", "property holds on this input" if got == exp else "violated: %r" % (got,))
    return 0 if got == exp else 1
