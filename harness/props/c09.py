"""C09 — tables keep their grid: rows, cells, spans and header rows."""
import json

from mammoth import conversion, documents as D
from mammoth.docx import body_xml
from mammoth.docx.xmlparser import element as X, text as XT

from .. import gen_tables as G, oracle_html as O, terms as T

HEADER = """From Mammoth Require Import Tables.
Local Open Scope N_scope.
Definition oc_eqb (a b : ocell) : bool := N.eqb (oc_id a) (oc_id b) && N.eqb (oc_colspan a) (oc_colspan b) && N.eqb (oc_rowspan a) (oc_rowspan b).
Definition grid_eqb := list_eqb (list_eqb (opt_eqb N.eqb)).
(* (W, input rows, observed output rows, document grid) *)
Definition chk (c : N * list (list icell) * list (list ocell) * list (list (option N))) : bool :=
  let '(W, rows, obs, grid) := c in
  wf_tiling W rows
  && list_eqb (list_eqb oc_eqb) (row_spans rows) obs
  && match html_layout (N.to_nat W) obs with Some g => grid_eqb g (doc_grid rows []) | None => false end.
"""
CASE_TYPE = "N * list (list icell) * list (list ocell) * list (list (option N))"


def tbl_xml(rows, spelling, nhead=0, nested=None):
    """nested: {cell id: xml table} placed after the cell's paragraph"""
    trs = []
    for i, row in enumerate(rows):
        tcs = []
        for cid, w, kind in row:
            pr = []
            if w != 1 or spelling.get("always_gridspan"):
                pr.append(X("w:gridSpan", {"w:val": str(w)}))
            if kind == "restart":
                pr.append(X("w:vMerge", {"w:val": "restart"}))
            elif kind == "continue":
                pr.append(X("w:vMerge", {"w:val": "continue"} if spelling.get("explicit_continue") else {}))
            extra = [nested[cid], X("w:p")] if nested and cid in nested else []
            empty = cid in spelling.get("empty_cells", ()) or (kind == "continue" and spelling.get("empty_cells") is not None)
            para = X("w:p") if empty else X("w:p", {}, [X("w:r", {}, [X("w:t", {}, [XT(str(cid))])])])
            tcs.append(X("w:tc", {}, [X("w:tcPr", {}, pr), para] + extra))
        # other row properties (no header meaning) appear in header and body rows alike
        noise = [X("w:cantSplit"), X("w:trHeight", {"w:val": "300"}), X("w:jc", {"w:val": "center"})] if spelling.get("trpr_noise") and (i + len(rows)) % 2 == 0 else []
        trpr = [X("w:trPr", {}, noise[:1] + [X("w:tblHeader")] + noise[1:])] if i < nhead else ([X("w:trPr", {}, noise)] if noise else [])
        trs.append(X("w:tr", {}, trpr + tcs))
    return X("w:tbl", {}, [X("w:tblPr"), X("w:tblGrid")] + trs)


def read_table(xml):
    r = body_xml.reader().read_all([xml])
    assert not r.messages, r.messages
    (table,) = r.value
    return table


def cell_id(cell):
    return int(cell.children[0].children[0].children[0].value)


def first_text(forest):
    for n in forest:
        if "text" in n:
            return n["text"]
        if n.get("name") != "table":
            r = first_text(n["children"])
            if r is not None:
                return r
    return None


def nested_tables(cell):
    return [n for n in cell["children"] if n.get("name") == "table"]


def html_rows(html, table=None):
    """[(section, [(name, id, colspan, rowspan, cell node)])] of ONE table of the converter's output, via the strict parser."""
    if table is None:
        forest = O.strict_parse(html)
        (table,) = [n for n in forest if n.get("name") == "table"]
    out = []

    def rows_of(parent, section):
        for n in parent["children"]:
            if n.get("name") == "tr":
                cells = []
                for c in n["children"]:
                    txt = first_text(c["children"])
                    cells.append((c["name"], int(txt), int(c["attrs"].get("colspan", 1)), int(c["attrs"].get("rowspan", 1)), c))
                out.append((section, cells))
            elif n.get("name") in ("thead", "tbody"):
                rows_of(n, n["name"])
    rows_of(table, None)
    return out


def shape_rows(html):
    """[(tag, [(text or '', colspan, rowspan)])] of the single table of the output, cells identified by position only"""
    forest = O.strict_parse(html)
    (table,) = [n for n in forest if n.get("name") == "table"]
    out = []

    def rows_of(parent):
        for n in parent["children"]:
            if n.get("name") == "tr":
                out.append([(c["name"], first_text(c["children"]) or "", int(c["attrs"].get("colspan", 1)), int(c["attrs"].get("rowspan", 1)))
                            for c in n["children"]])
            elif n.get("name") in ("thead", "tbody"):
                rows_of(n)
    rows_of(table)
    return out


def check_table(node, rows, grid, nhead, R, html=None):
    """the property's clauses on ONE table of the output (nested tables are checked by the caller)"""
    hr = html_rows(html, node)
    if len(hr) != R:
        return "number of tr elements differs from the number of rows", hr
    for i, (section, cells) in enumerate(hr):
        exp_section = None if nhead == 0 else ("thead" if i < nhead else "tbody")
        exp_name = "th" if i < nhead else "td"
        if section != exp_section or any(c[0] != exp_name for c in cells):
            return "header rows are not grouped in thead/th with the rest in tbody/td", hr
        if [c[1] for c in cells] != [cid for cid, w, kind2 in rows[i] if kind2 != "continue"]:
            return "cells of a row are not the non-continuation cells in order", hr
    lay = G.html_layout([[(c[1], c[2], c[3]) for c in cells] for _, cells in hr])
    if lay != grid:
        return "HTML layout does not reproduce the document grid", hr
    return None, hr


def run(ctx):
    ctx.build()
    cases = []
    maxd = 4 if ctx.thorough else 3
    for R in range(1, maxd + 1):
        for C in range(1, maxd + 1):
            if not ctx.thorough and R * C > 9:
                continue
            for rects in G.all_tilings(R, C):
                cases.append(("exhaustive", R, C, rects))
    n_ex = len(cases)
    for i in range(4000 if ctx.thorough else 400):
        R, C = ctx.rng.randint(1, 6), ctx.rng.randint(1, 6)
        cases.append(("random", R, C, G.random_tiling(ctx.rng, R, C)))
    terms, metas = [], []
    dist = {"exhaustive": n_ex, "random": len(cases) - n_ex, "with_rowspan": 0, "with_colspan": 0, "with_header": 0}
    for k, (kind, R, C, rects) in enumerate(cases):
        rows, grid = G.encode(rects, R, C)
        spelling = {"explicit_continue": (k % 2 == 0), "always_gridspan": (k % 3 == 0), "trpr_noise": (k % 5 < 2)}
        # header rows: any prefix that no merge crosses
        ok_heads = [h for h in range(0, R + 1) if not any(r < h < r + hh for (r, c, hh, w) in rects)]
        nhead = ctx.rng.choice(ok_heads) if kind == "random" or k % 4 == 0 else 0
        # nested tables (random stream): a second tiling inside one cell, with its own header rows — also inside header cells
        nested, nested_info = None, None
        if kind == "random" and ctx.rng.random() < 0.5:
            R2, C2 = ctx.rng.randint(1, 3), ctx.rng.randint(1, 3)
            rects2 = G.random_tiling(ctx.rng, R2, C2)
            rows2, grid2 = G.encode(rects2, R2, C2)
            rows2 = [[(cid + 5000, w, kd) for cid, w, kd in row] for row in rows2]
            grid2 = [[x + 5000 for x in row] for row in grid2]
            ok2 = [h for h in range(0, R2 + 1) if not any(r < h < r + hh for (r, c, hh, w) in rects2)]
            nhead2 = ctx.rng.choice(ok2)
            hosts = [cid for row in rows for cid, w, kd in row if kd != "continue"]
            host = ctx.rng.choice(hosts)
            nested = {host: tbl_xml(rows2, spelling, nhead2)}
            nested_info = (host, rows2, grid2, nhead2, R2)
            dist["nested"] = dist.get("nested", 0) + 1
        # cells WITHOUT content: several cells of a row can then be equal as values (same span, no content), continuation cells included
        empties = None
        if kind == "random" and nested is None and ctx.rng.random() < 0.4:
            plain = [cid for row in rows for cid, w, kd in row if kd != "continue"]
            empties = set(ctx.rng.sample(plain, ctx.rng.randint(1, max(1, len(plain) // 2))))
            spelling["empty_cells"] = sorted(empties)
            dist["with_empty_cells"] = dist.get("with_empty_cells", 0) + 1
        table = read_table(tbl_xml(rows, spelling, nhead, nested))
        ctx.count()
        if empties is not None:
            # shape oracle: per row, the non-continuation cells in order with their spans (rowspan = height of the rectangle), by position
            res = conversion.convert_document_element_to_html(D.document([table]))
            ctx.count()
            height = {kk + 1: hh for kk, (r_, c_, hh, w_) in enumerate(rects)}
            exp_rows = [[("th" if ri < nhead else "td", "" if cid in empties else str(cid), w, height[cid]) for cid, w, kd in row if kd != "continue"]
                        for ri, row in enumerate(rows)]
            try:
                got_rows = shape_rows(res.value)
                bad = None if got_rows == exp_rows else "rows, cell order or spans differ from the document's (cells without content)"
            except Exception as e:
                bad, got_rows = "output table is malformed: %s" % e, None
            if bad:
                ctx.violation("oracle", bad, {"api": "body_xml.reader().read_all + convert_document_element_to_html", "R": R, "C": C, "rects": rects,
                                              "spelling": spelling, "nhead": nhead, "nested": None, "expected_rows": exp_rows, "observed_html": res.value[:900]}, True)
            continue
        obs = [[(cell_id(c), c.colspan, c.rowspan) for c in row.children] for row in table.children]
        if any(h > 1 for (_, _, h, _) in rects):
            dist["with_rowspan"] += 1
        if any(w > 1 for (_, _, _, w) in rects):
            dist["with_colspan"] += 1
        if nhead:
            dist["with_header"] += 1
        if any(h > 1 for (_, _, h, _) in rects) and any(w > 1 for (_, _, _, w) in rects):
            ctx.nontrivial(json.dumps([R, C, rects]))
        # oracle on the implementation: structure + HTML layout of the converter's output
        bad = None
        res = conversion.convert_document_element_to_html(D.document([table]))
        try:
            bad, hr = check_table(None, rows, grid, nhead, R, res.value)
            if not bad and nested_info:
                host, rows2, grid2, nhead2, R2 = nested_info
                cell = [c[4] for _, cells in hr for c in cells if c[1] == host][0]
                inner = nested_tables(cell)
                if len(inner) != 1:
                    bad = "the nested table is missing from its cell"
                else:
                    bad, _ = check_table(inner[0], rows2, grid2, nhead2, R2)
                    if bad:
                        bad = "nested table: " + bad
        except (ValueError, KeyError) as e:
            bad = "output table is malformed: %s" % e
        if bad:
            ctx.violation("oracle", bad, {"api": "body_xml.reader().read_all + convert_document_element_to_html",
                                          "R": R, "C": C, "rects": rects, "spelling": spelling, "nhead": nhead,
                                          "nested": None if not nested_info else {"host": nested_info[0], "rows": nested_info[1], "grid": nested_info[2],
                                                                                  "nhead": nested_info[3], "R": nested_info[4]},
                                          "observed_html": res.value[:900]}, True)
            if len(ctx.violations) > 10:
                break
        if k < 3 or (kind == "random" and len(ctx.coverage["samples"]) < 5):
            ctx.sample({"R": R, "C": C, "rects": rects, "nhead": nhead, "html": res.value[:300]})
        icells = T.lst(lambda row: T.lst(lambda c: "(IC %d %s %d)" % (c[1], T.b(c[2] == "continue"), c[0]), row), rows)
        ocells = T.lst(lambda row: T.lst(lambda c: "(OC %d %d %d)" % c, row), obs)
        g = T.lst(lambda row: T.lst(lambda x: "(Some %d)" % x, row), grid)
        terms.append("(%d, %s, %s, %s)" % (C, icells, ocells, g.replace("(Some", "(Some") ))
        metas.append({"R": R, "C": C, "rects": rects, "spelling": spelling, "nhead": nhead})
    # two tables in a row (directly, or with an empty paragraph between them, which is dropped): each keeps its own grid
    for j in range(200 if ctx.thorough else 40):
        tabs = []
        for _ in range(2):
            R, C = ctx.rng.randint(1, 3), ctx.rng.randint(1, 3)
            rects = G.random_tiling(ctx.rng, R, C)
            rows, grid = G.encode(rects, R, C)
            ok_heads = [h for h in range(0, R + 1) if not any(r < h < r + hh for (r, c, hh, w) in rects)]
            nhead = ctx.rng.choice(ok_heads)
            tabs.append((R, C, rects, rows, grid, nhead, read_table(tbl_xml(rows, {"explicit_continue": True}, nhead))))
        between = [D.paragraph(children=[])] if j % 2 else []
        res = conversion.convert_document_element_to_html(D.document([tabs[0][6]] + between + [tabs[1][6]]))
        ctx.count()
        dist["table_pairs"] = dist.get("table_pairs", 0) + 1
        bad = None
        try:
            found = [n for n in O.strict_parse(res.value) if n.get("name") == "table"]
            if len(found) != 2:
                bad = "two tables of the document came out as %d table element(s)" % len(found)
            else:
                for (R, C, rects, rows, grid, nhead, _), node in zip(tabs, found):
                    b2, _ = check_table(node, rows, grid, nhead, R)
                    bad = bad or b2
        except (ValueError, KeyError) as e:
            bad = "output table is malformed: %s" % e
        if bad:
            ctx.violation("oracle", "adjacent tables: " + bad, {"api": "convert_document_element_to_html", "pair": [{"R": t[0], "C": t[1], "rects": t[2], "nhead": t[5]} for t in tabs],
                                                               "empty_paragraph_between": bool(between), "observed_html": res.value[:900]}, True)
    for i in ctx.coq_eval("c09", HEADER, terms, CASE_TYPE, "chk")[:5]:
        ctx.violation("correspondence", "model row_spans and body_xml.calculate_row_spans disagree (or the layout of the observed spans is not the document grid)",
                      dict(metas[i], obligation="correspondence Model/Tables.v:row_spans vs body_xml calculate_row_spans"), False)
    ctx.coverage["traces_validated_against_impl"] = len(terms)
    ctx.coverage["exhaustive"] = True
    ctx.coverage["rule"] = ("all rectangle tilings of R x C grids with R, C <= %d%s, both vMerge continuation spellings, optional leading header rows; "
                            "then random tilings up to 6 x 6; non-trivial = distinct tiling with both a row-span and a column-span"
                            % (maxd, "" if ctx.thorough else " and R*C <= 9"))
    ctx.coverage["input_distribution"] = dist


def replay(ctx, rep):
    r = rep["replay"]
    if "pair" in r:
        tabs = []
        for t in r["pair"]:
            rows, grid = G.encode([tuple(x) for x in t["rects"]], t["R"], t["C"])
            tabs.append((t["R"], rows, grid, t["nhead"], read_table(tbl_xml(rows, {"explicit_continue": True}, t["nhead"]))))
        between = [D.paragraph(children=[])] if r["empty_paragraph_between"] else []
        res = conversion.convert_document_element_to_html(D.document([tabs[0][4]] + between + [tabs[1][4]]))
        found = [n for n in O.strict_parse(res.value) if n.get("name") == "table"]
        bad = len(found) != 2 or any(check_table(node, t[1], t[2], t[3], t[0])[0] for t, node in zip(tabs, found))
        print("replay:", "violated" if bad else "property holds on this input")
        return 1 if bad else 0
    rows, grid = G.encode([tuple(x) for x in r["rects"]], r["R"], r["C"])
    nested = None
    if r.get("nested"):
        n = r["nested"]
        nested = {n["host"]: tbl_xml([[tuple(c) for c in row] for row in n["rows"]], r["spelling"], n["nhead"])}
    table = read_table(tbl_xml(rows, r["spelling"], r["nhead"], nested))
    res = conversion.convert_document_element_to_html(D.document([table]))
    if r.get("expected_rows") is not None:
        try:
            got = shape_rows(res.value)
        except Exception as e:
            got = repr(e)
        ok = got == [[tuple(c) for c in row] for row in r["expected_rows"]]
        print("replay:", "property holds on this input" if ok else "violated: %r" % (got,))
        return 0 if ok else 1
    try:
        bad, hr = check_table(None, rows, grid, r["nhead"], r["R"], res.value)
        if not bad and nested:
            n = r["nested"]
            cell = [c[4] for _, cells in hr for c in cells if c[1] == n["host"]][0]
            bad, _ = check_table(nested_tables(cell)[0], [[tuple(c) for c in row] for row in n["rows"]], n["grid"], n["nhead"], n["R"])
    except Exception as e:
        bad = repr(e)
    print("replay:", bad or "property holds on this input")
    return 1 if bad else 0
