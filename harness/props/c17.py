"""C17 — images arrive intact, typed and in order."""
import base64
import os

from mammoth.docx.xmlparser import XmlElement

from .. import apilevel as A, docx_builder as B, gen_xml, oracle_html as O
from .c16 import BUILTIN


IMG_HEADER = """From Mammoth Require Import LiveSpec LiveImgSpec EndToEndSpec ImgEndSpec.
Definition src_of (c : list (str * dpart) * bool * list (str * img_src) * api_opts * option (str * list str) * option (str * list str)) : source :=
  let '(parts, named, linked, a, _, _) := c in mkSource (package_of parts) named linked.
Definition chk_imgs c := live_imgs_agree (src_of c).
Definition chk_imgs_domain c := live_imgs_domain (src_of c).
Definition opts_of (c : list (str * dpart) * bool * list (str * img_src) * api_opts * option (str * list str) * option (str * list str)) : api_opts :=
  let '(_, _, _, a, _, _) := c in a.
Definition chk_img_e2e c := img_e2e_agrees (src_of c) (opts_of c).
Definition chk_img_e2e_domain c := img_e2e_in_domain (src_of c) (opts_of c).
"""


def expected_images(pkg, linked=None):
    """(content type, bytes or None when unreadable, alt) of every image, in document order — from the package alone"""
    rels = {i: t for i, t, ty in pkg.rels}
    cts = pkg.content_types
    ov = {p.lstrip("/"): c for p, c in cts["overrides"]}
    df = dict(cts["defaults"])
    out = []

    def ctype(path):
        ext = path.rpartition(".")[2]
        if not pkg.meta.get("no_content_types"):
            if path in ov:
                return ov[path]
            if ext in df:
                return df[ext]
        return ("image/" + BUILTIN[ext.lower()]) if ext.lower() in BUILTIN else None

    def image_of(n, inline_out):
        if n.name in ("wp:inline", "wp:anchor"):
            pr = n.find_child_or_null("wp:docPr").attributes
            alt = pr.get("descr") if pr.get("descr", "").strip() else pr.get("title")
            for blip in n.find_children("a:graphic").find_children("a:graphicData").find_children("pic:pic").find_children("pic:blipFill").find_children("a:blip"):
                rid, lid = blip.attributes.get("r:embed"), blip.attributes.get("r:link")
                if rid is not None:
                    t = rels[rid]
                    path = t[1:] if t.startswith("/") else "word/" + t
                    inline_out.append((ctype(path), pkg.media[path], alt))
                elif lid is not None:
                    t = rels[lid]
                    kind, data = (linked if linked is not None else pkg.linked)[t]
                    inline_out.append((ctype(t), bytes(data) if kind == "data" else None, alt))
            return True
        if n.name == "v:imagedata":
            rid = n.attributes.get("r:id")
            if rid is not None:
                t = rels[rid]
                path = t[1:] if t.startswith("/") else "word/" + t
                inline_out.append((ctype(path), pkg.media[path], None))
            return True
        return False

    def walk(nodes, inline_out, extra_out):
        """inline_out: images in place; extra_out: images inside w:pict, which the reader puts after the host paragraph"""
        for n in nodes:
            if not isinstance(n, XmlElement):
                continue
            if image_of(n, inline_out):
                continue
            if n.name in ("w:del", "w:rPr", "w:pPr", "w:instrText"):
                continue
            if n.name == "w:p":
                inl, ext = [], []
                walk(n.children, inl, ext)
                inline_out += inl + ext
            elif n.name == "w:pict":
                sub_i, sub_e = [], []
                walk(n.children, sub_i, sub_e)
                extra_out += sub_e + sub_i
            elif n.name == "w:tc":
                vm = n.find_child_or_null("w:tcPr").find_child("w:vMerge")
                if vm is not None and vm.attributes.get("w:val") in (None, "", "continue"):
                    continue
                walk(n.children, inline_out, extra_out)
            elif n.name == "w:sdt":
                if n.find_child_or_null("w:sdtPr").find_child("wordml:checkbox") is None:
                    walk(n.find_child_or_null("w:sdtContent").children, inline_out, extra_out)
            elif n.name == "mc:AlternateContent":
                walk(n.find_child_or_null("mc:Fallback").children, inline_out, extra_out)
            elif n.name in ("w:foo", "w:customXml", "x:unknown", "w:moveFrom"):
                continue
            else:
                walk(n.children, inline_out, extra_out)
    top_e = []
    walk(pkg.body, out, top_e)
    out += top_e
    return out



def imgs(forest, out):
    for n in forest:
        if "name" in n:
            if n["name"] == "img":
                out.append(n["attrs"])
            imgs(n["children"], out)
    return out


def run(ctx):
    ctx.build()
    rng = ctx.rng
    n = 1500 if ctx.thorough else 150
    terms, metas = [], []
    dist = {"packages": 0, "images": 0, "converters": {}, "content_type_sources": {"override": 0, "default_or_builtin": 0, "none": 0}, "linked": 0}
    with A.Workdir() as wd:
        for i in range(n):
            g = gen_xml.XGen(rng, textboxes=False, notes=False, comments=False, anomalies=0.3 if i % 2 else 0.0, deleted=False, fields=False,
                                 type_aliases=0.3 if i % 3 == 0 else 0.0)
            pkg = g.package(rng.randint(1, 4))
            if i % 5 == 0:
                # byte payloads: every byte value, empty, large
                for k, name in enumerate(sorted(pkg.media)):
                    big = 100000 if (ctx.thorough or i == 0) else 5000      # one payload above the 64 KiB copy/encode block size in every run
                    pkg.media[name] = [bytes(rng.randrange(256) for _ in range(big)), bytes(range(256)), b""][k % 3]
            if i % 7 == 3:
                # part names are taken literally: a name holding percent escapes is THAT entry, not the entry its decoded spelling would name
                # (an unreferenced decoy with other bytes sits under the decoded name)
                for k, name in enumerate(sorted(pkg.media)):
                    base, _, ext = name.rpartition(".")
                    new, decoded = "%s%%20n%%41%d.%s" % (base, k, ext), "%s nA%d.%s" % (base, k, ext)
                    pkg.media[new] = pkg.media.pop(name)
                    pkg.media[decoded] = b"decoy" + bytes([k])
                    pkg.rels = [(i_, (t_.replace(name[len("word/"):], new[len("word/"):]) if t_ in (name[len("word/"):], "/" + name) else t_), ty_)
                                for i_, t_, ty_ in pkg.rels]
                    pkg.content_types["overrides"] = [(("/" + new) if p_.lstrip("/") == name else p_, c_) for p_, c_ in pkg.content_types["overrides"]]
            named = rng.random() < 0.5
            d = os.path.join(wd.path, "c%d" % i)
            os.makedirs(d)
            conv = rng.choice(["data_uri", "data_uri", "counting", "counting_alt", "counting_alt_empty", "no_open"])
            if i < 2:
                # dedicated cases: one embedded image larger than any 64 KiB block, default converter / counting converter
                from mammoth.docx.xmlparser import element as X
                g = gen_xml.XGen(rng, textboxes=False, notes=False, comments=False, deleted=False, fields=False, linked_rate=0.0)
                pkg = g.package(1)
                pkg.body.append(X("w:p", {}, [X("w:r", {}, [g.drawing()])]))
                name = sorted(pkg.media)[-1]
                pkg.media[name] = bytes(rng.randrange(256) for _ in range(70000 + i))
                conv = ["data_uri", "counting"][i]
            elif i in (2, 3, 4):
                # the same picture several times in a row, with nothing in between: each occurrence is an image of its own
                from mammoth.docx.xmlparser import element as X
                g = gen_xml.XGen(rng, textboxes=False, notes=False, comments=False, deleted=False, fields=False, linked_rate=0.0, anomalies=0.0)
                pkg = g.package(1)
                dr = g.drawing()
                pkg.body.append(X("w:p", {}, [X("w:r", {}, [dr, dr, dr]), X("w:r", {}, [dr])]))
                conv = ["data_uri", "counting", "no_open"][i - 2]
            elif i in (5, 6, 7):
                # a picture WITH a description, under the converters that return their own alt (a text, or the empty string) and under one that returns none
                from mammoth.docx.xmlparser import element as X
                g = gen_xml.XGen(rng, textboxes=False, notes=False, comments=False, deleted=False, fields=False, linked_rate=0.0, anomalies=0.0)
                pkg = g.package(1)
                dr = g.drawing()
                for n_ in [dr] + list(dr.children):
                    if getattr(n_, "name", None) in ("wp:inline", "wp:anchor"):
                        n_.children[:] = [X("wp:docPr", {"descr": "a described picture", "title": "its title"})] + [c for c in n_.children if c.name != "wp:docPr"]
                pkg.body.append(X("w:p", {}, [X("w:r", {}, [dr])]))
                conv = ["counting_alt_empty", "counting_alt", "counting"][i - 5]
            opts = {"style_map": None, "include_default_style_map": True, "include_embedded_style_map": True,
                    "ignore_empty_paragraphs": True, "id_prefix": None, "conv": conv}
            data, parts = B.build(pkg)
            path = os.path.join(d, "in.docx") if named else None
            if path:
                with open(path, "wb") as f:
                    f.write(data)
            linked = A.linked_outcomes(pkg, d if named else None)
            html, raw = A.run_impl(data, opts, path)
            ctx.count()
            dist["packages"] += 1
            dist["converters"][conv] = dist["converters"].get(conv, 0) + 1
            exp = expected_images(pkg, linked)
            dist["images"] += len(exp)
            meta = {"package": gen_xml.pkg_json(pkg), "options": opts, "named": named, "index": i}
            bad = None
            if isinstance(html, Exception):
                bad = "conversion raised %r" % html
            else:
                got = imgs(O.strict_parse(html.value), [])
                # an image that cannot be opened yields a warning and no element when the converter opens it
                k = 0
                for (ct, data_, alt) in exp:
                    k += 1
                    if data_ is None and conv != "no_open":
                        continue
                    if not got:
                        bad = "image %d of the document has no img element" % k
                        break
                    a = got.pop(0)
                    if conv == "data_uri":
                        src = a.get("src", "")
                        head = "data:%s;base64," % ct
                        try:
                            payload = base64.b64decode(src[len(head):], validate=True) if src.startswith(head) else None
                        except Exception:
                            payload = None
                        if payload != bytes(data_):
                            bad = "image %d: src is not a data URI of the part's bytes under content type %s" % (k, ct)
                        elif (a.get("alt") or None) != (alt or None):
                            bad = "image %d: alt %r, expected %r" % (k, a.get("alt"), alt)
                    elif conv in ("counting", "counting_alt", "counting_alt_empty"):
                        if a.get("src") != "img%d.%s" % (k, str(ct).partition("/")[2]) or a.get("data-len") != str(len(data_)):
                            bad = "image %d: the converter was not called once, in order, with the content type and the bytes (%r)" % (k, a)
                        elif conv == "counting_alt" and a.get("alt") != "custom":
                            bad = "image %d: the converter's alt did not take precedence" % k
                        elif conv == "counting_alt_empty" and a.get("alt") != "":
                            bad = "image %d: the converter returned alt='' but the output has alt=%r (document alt %r)" % (k, a.get("alt"), alt)
                        elif conv == "counting" and (a.get("alt") or None) != (alt or None):
                            bad = "image %d: alt %r, expected %r" % (k, a.get("alt"), alt)
                    else:
                        if a.get("src") != "no-open-%d" % k:
                            bad = "image %d: attributes returned by the converter do not appear as given (%r)" % (k, a)
                    if bad:
                        break
                if not bad and got:
                    bad = "more img elements than images in the document"
            if bad:
                ctx.violation("oracle", bad, dict(meta, api="mammoth.convert_to_html(convert_image=...)",
                                                 observed=None if isinstance(html, Exception) else html.value[:500]), True)
                if len(ctx.violations) > 10:
                    break
            elif exp:
                ctx.nontrivial(i)
                if len(exp) > 1:
                    ctx.sample({"images": [(ct, None if b_ is None else len(b_), alt) for ct, b_, alt in exp], "converter": conv})
            if conv != "counting_alt_empty":
                terms.append(A.case_term(parts, named, linked, opts, html, raw))
                metas.append(meta)
    for i in ctx.coq_eval("c17", A.HEADER + IMG_HEADER, terms, A.CASE_TYPE, "chk_api", shard=10, more=("chk_imgs", "chk_imgs_domain", "chk_img_e2e", "chk_img_e2e_domain"))[:5]:
        ctx.violation("correspondence", "model and implementation disagree",
                      dict(metas[i], obligation="correspondence Model/Api.v vs mammoth.convert_to_html"), False)
    # the reader-half theorem's statement, evaluated: images of what the model reader returns = the Coq live-image specification
    for i in ctx.more_bad["chk_imgs"][:5]:
        ctx.violation("proof", "the images the reader returns are not the live images of the body in document order (Proofs/LiveImgSpec.v: live_imgs_agree is false)",
                      dict(metas[i], obligation="Props/C17.v: C17_reader_images evaluated on this package"), False)
    dist["in_reader_theorem_domain_with_images"] = len(terms) - len(ctx.more_bad["chk_imgs_domain"])
    for i in ctx.more_bad["chk_img_e2e"][:5]:
        ctx.violation("proof", "the img elements of the forest do not begin with those of the body's live images in document order (Proofs/ImgEndSpec.v: img_e2e_agrees is false)",
                      dict(metas[i], obligation="Props/C17.v: C17_end_to_end evaluated on this package"), False)
    dist["in_end_to_end_theorem_domain_with_images"] = len(terms) - len(ctx.more_bad["chk_img_e2e_domain"])
    ctx.coverage["traces_validated_against_impl"] = len(terms)
    ctx.coverage["input_distribution"] = dist
    ctx.coverage["rule"] = ("packages with several inline / anchored / VML images, embedded and linked, content types declared by override, extension default or neither, "
                            "payloads incl. all byte values, empty and large, default and three custom converters; expected (type, bytes, alt) per image computed from the package; "
                            "non-trivial = package with at least one image whose img elements all matched")
    ctx.assumptions += ["byte transport through zipfile and base64 is runtime: compared, not proved; case-variant extensions only where the declared default agrees with the built-in table"]


def replay(ctx, rep):
    r = rep["replay"]
    pkg = gen_xml.pkg_from_json(r["package"])
    data, _ = B.build(pkg)
    html, _ = A.run_impl(data, r["options"], None)
    if isinstance(html, Exception):
        print("replay: raised", html)
        return 1
    got = imgs(O.strict_parse(html.value), [])
    exp = expected_images(pkg)
    print("replay: %d img elements for %d images" % (len(got), len(exp)))
    return 0 if len(got) <= len(exp) else 1
