"""C16 — everything the converter skips is reported once; clean documents report nothing."""
import re

from mammoth import options as moptions
from mammoth.docx.xmlparser import XmlElement

from .. import apilevel as A, docx_builder as B, gen_xml, terms as T
from ..gen_xml import xml_json, PSTYLES, RSTYLES, TSTYLES
from .c03 import spec_matches

MAPS = [None, "p.Quote => blockquote > p:fresh\ncomment-reference => sup", "this is not a mapping\np.Heading1 => h1\nthis is not a mapping\n!!",
        "p[style-name^='Intense'] => blockquote > p:fresh\nr.Strong => strong\nr.Emph => em\np.ListParagraph => ul > li:fresh\np.NoName => p.nn:fresh\nr.Hyperlink => span\nr.FootnoteReference =>\ntable.Fancy => table.f"]
# lines that the documented grammar (matcher, whitespace, =>, optional whitespace, path, end of line) does not produce:
# plain nonsense, and READABLE mappings followed by something that cannot continue a path
UNREADABLE = ["this is not a mapping", "!!", "p.Aside => div.aside:frehs", "p.Aside => div.aside p", "p.Aside => div.aside:fresh !!!!",
              "r.Code => code => pre", "p=> h1", "p.Aside => div.aside:fresh:fresh", "b => strong em", "p.Aside => div.aside >", "p[style-name='x'] => p ]"]
READABLE = ["p.Aside => div.aside:fresh", "r.Code => code", "p.Aside =>div.aside", "b => strong", "p.Aside => div.aside > p:fresh"]
CONTAINERS = {"w:ins", "w:object", "w:smartTag", "w:drawing", "v:group", "v:rect", "v:roundrect", "v:shape", "v:textbox", "w:txbxContent",
              "w:pict", "w:hyperlink", "w:tr", "w:tc", "w:sdtContent", "mc:Fallback"}
IGNORED = {"office-word:wrap", "v:shadow", "v:shapetype", "w:annotationRef", "w:bookmarkEnd", "w:sectPr", "w:proofErr", "w:lastRenderedPageBreak",
           "w:commentRangeStart", "w:commentRangeEnd", "w:del", "w:footnoteRef", "w:endnoteRef", "w:pPr", "w:rPr", "w:tblPr", "w:tblGrid", "w:trPr", "w:tcPr"}
LEAVES = {"w:t", "w:tab", "w:noBreakHyphen", "w:softHyphen", "w:fldChar", "w:instrText", "w:bookmarkStart", "w:footnoteReference",
          "w:endnoteReference", "w:commentReference"}
BROWSER = {"image/png", "image/gif", "image/jpeg", "image/svg+xml", "image/tiff"}
BUILTIN = {"png": "png", "gif": "gif", "jpeg": "jpeg", "jpg": "jpeg", "tif": "tiff", "tiff": "tiff", "bmp": "bmp"}


KNOWN_PREFIXES = {"w", "r", "wp", "a", "pic", "content-types", "relationships", "mc", "v", "office-word", "wordml"}


def parsed_name(name):
    """how a prefixed name reads after parsing: prefixes of namespaces the converter does not know stay as {uri}local"""
    if ":" in name:
        p, l = name.split(":", 1)
        if "~" in p:
            return "{urn:verif:rebound:%s}%s" % (p.split("~", 1)[1], l)      # a prefix re-bound to another namespace on that element
        if p not in KNOWN_PREFIXES:
            return "{%s}%s" % (B.COMMON[p], l)
    return name


def abstract_matchers(styles):
    out = []
    for st in styles:
        j = T.matcher_json(st.document_matcher)
        kind = {"paragraph": "p", "run": "r", "table": "table"}.get(j["kind"])
        if kind is None:
            continue
        m = {"kind": kind, "style_id": j.get("style_id"),
             "style_name": None if j.get("style_name") is None else ("=" if j["style_name"]["op"] == "eq" else "^=", j["style_name"]["value"]),
             "list": None}
        if j.get("numbering"):
            m["list"] = ("ordered-list" if j["numbering"]["is_ordered"] else "unordered-list", int(j["numbering"]["level_index"]) + 1)
        out.append(m)
    return out


class Expect:
    """The anomalies of a package, listed by an independent walk of the XML (from the property text)."""
    def __init__(self, pkg, style_map):
        self.pkg = pkg
        self.msgs = set()
        self.sm = abstract_matchers(style_map)
        self.styles = {"paragraph": {}, "character": {}, "table": {}}
        for s in pkg.styles or []:
            ty = s.attributes.get("w:type")
            if ty in self.styles:
                self.styles[ty][s.attributes["w:styleId"]] = s.find_child_or_null("w:name").attributes.get("w:val")
        self.rels = {i: t for i, t, ty in pkg.rels}
        self.refs = set()
        self.crefs = set()      # comments whose reference the conversion reaches
        self.convert = True
        self.levels = self._levels()

    def _levels(self):
        # (numId, ilvl) -> ordered?   for the fixed numbering part of the generator; None when unresolvable
        if self.pkg.numbering is None:
            return {}
        absn, out = {}, {}
        for a in self.pkg.numbering:
            if a.name == "w:abstractNum":
                absn[a.attributes["w:abstractNumId"]] = a
        nums = {n.attributes["w:numId"]: n.find_child_or_null("w:abstractNumId").attributes["w:val"] for n in self.pkg.numbering if n.name == "w:num"}
        num_styles = {}
        for s in self.pkg.styles or []:
            if s.attributes.get("w:type") == "numbering":
                num_styles[s.attributes["w:styleId"]] = s.find_child_or_null("w:pPr").find_child_or_null("w:numPr").find_child_or_null("w:numId").attributes.get("w:val")
        self.pstyle_levels = {}
        for a in absn.values():
            for l in a.find_children("w:lvl"):
                ps = l.find_child_or_null("w:pStyle").attributes.get("w:val")
                if ps is not None:
                    self.pstyle_levels[ps] = (l.attributes["w:ilvl"], l.find_child_or_null("w:numFmt").attributes.get("w:val") != "bullet")

        def resolve(num_id, ilvl, depth=0):
            a = absn.get(nums.get(num_id))
            if a is None or depth > 5:
                return None
            link = a.find_child_or_null("w:numStyleLink").attributes.get("w:val")
            if link is not None:
                if link not in num_styles:
                    return None
                return resolve(num_styles[link], ilvl, depth + 1)
            for l in a.find_children("w:lvl"):
                if l.attributes["w:ilvl"] == ilvl:
                    return (ilvl, l.find_child_or_null("w:numFmt").attributes.get("w:val") != "bullet")
            return None
        self.resolve = resolve
        return out

    def styled(self, kind_letter, kind_word, table, sid, numbering=None, visited=True):
        """undefined style id -> reader warning; unrecognised style -> converter warning"""
        if sid is None:
            return
        name = table.get(sid)
        if sid not in table:
            self.msgs.add("%s style with ID %s was referenced but not defined in the document" % (kind_word, sid))
        if kind_letter in ("p", "r") and visited and self.convert:
            el = {"kind": kind_letter, "style_id": sid, "style_name": name, "numbering": numbering}
            if not any(spec_matches(m, el) for m in self.sm):
                self.msgs.add("Unrecognised %s style: %s (Style ID: %s)" % ("paragraph" if kind_letter == "p" else "run", name, sid))

    def walk(self, nodes):
        for n in nodes:
            if not isinstance(n, XmlElement):
                continue
            nm = n.name
            if nm == "w:p":
                ppr = n.find_child_or_null("w:pPr")
                if ppr.find_child_or_null("w:rPr").find_child("w:del") is not None:
                    self.pending = getattr(self, "pending", []) + list(n.children)
                    continue
                kids = getattr(self, "pending", []) + list(n.children)
                self.pending = []
                sid = ppr.find_child_or_null("w:pStyle").attributes.get("w:val")
                numpr = ppr.find_child_or_null("w:numPr")
                num_id = numpr.find_child_or_null("w:numId").attributes.get("w:val")
                ilvl = numpr.find_child_or_null("w:ilvl").attributes.get("w:val")
                if num_id is not None and ilvl is not None:
                    numbering = self.resolve(num_id, ilvl) if self.pkg.numbering is not None else None
                else:
                    numbering = self.pstyle_levels.get(sid) if (sid is not None and self.pkg.numbering is not None) else None
                self.styled("p", "Paragraph", self.styles["paragraph"], sid, numbering)
                self.walk(kids)
            elif nm == "w:r":
                sid = n.find_child_or_null("w:rPr").find_child_or_null("w:rStyle").attributes.get("w:val")
                self.styled("r", "Run", self.styles["character"], sid)
                self.walk(n.children)
            elif nm == "w:tbl":
                sid = n.find_child_or_null("w:tblPr").find_child_or_null("w:tblStyle").attributes.get("w:val")
                self.styled("table", "Table", self.styles["table"], sid)
                self.walk(n.children)
            elif nm == "w:br":
                t = n.attributes.get("w:type")
                if t and t not in ("textWrapping", "page", "column"):
                    self.msgs.add("Unsupported break type: %s" % t)
            elif nm == "w:sym":
                from mammoth.docx.dingbats import dingbats
                font, ch = n.attributes.get("w:font"), n.attributes.get("w:char")
                cp = dingbats.get((font, int(ch, 16)))
                if cp is None and re.match("^F0..", ch):
                    cp = dingbats.get((font, int(ch[2:], 16)))
                if cp is None:
                    self.msgs.add("A w:sym element with an unsupported character was ignored: char %s in font %s" % (ch, font))
            elif nm in ("wp:inline", "wp:anchor"):
                for blip in n.find_children("a:graphic").find_children("a:graphicData").find_children("pic:pic").find_children("pic:blipFill").find_children("a:blip"):
                    rid = blip.attributes.get("r:embed")
                    lid = blip.attributes.get("r:link")
                    if rid is None and lid is None:
                        self.msgs.add("Could not find image file for a:blip element")
                    else:
                        self.image(self.rels[rid] if rid is not None else self.rels[lid], rid is not None)
            elif nm == "v:imagedata":
                rid = n.attributes.get("r:id")
                if rid is None:
                    self.msgs.add("A v:imagedata element without a relationship ID was ignored")
                else:
                    self.image(self.rels[rid], True)
            elif nm == "w:sdt":
                if n.find_child_or_null("w:sdtPr").find_child("wordml:checkbox") is None:
                    self.walk(n.find_child_or_null("w:sdtContent").children)
            elif nm == "mc:AlternateContent":
                self.walk(n.find_child_or_null("mc:Fallback").children)
            elif nm in CONTAINERS:
                self.walk(n.children)
            elif nm in ("w:footnoteReference", "w:endnoteReference"):
                self.refs.add((nm[2:-9], n.attributes.get("w:id")))
            elif nm == "w:commentReference":
                if self.convert:
                    self.crefs.add(n.attributes.get("w:id"))
            elif nm in IGNORED or nm in LEAVES:
                pass
            else:
                self.msgs.add("An unrecognised element was ignored: %s" % parsed_name(nm))

    def image(self, target, embedded):
        path = (target[1:] if target.startswith("/") else "word/" + target) if embedded else target
        cts = self.pkg.content_types
        ct = None
        if not self.pkg.meta.get("no_content_types"):
            ov = {p.lstrip("/"): c for p, c in cts["overrides"]}
            df = dict(cts["defaults"])
            ext = path.rpartition(".")[2]
            if path in ov:
                ct = ov[path]
            elif ext in df:
                ct = df[ext]
        if ct is None:
            ext = path.rpartition(".")[2]
            if ext.lower() in BUILTIN:
                ct = "image/" + BUILTIN[ext.lower()]
        if ct not in BROWSER:
            self.msgs.add("Image of type %s is unlikely to display in web browsers" % ct)

    def all(self, comments_rendered):
        self.pending = []
        self.walk(self.pkg.body)
        for ty, part in (("footnote", self.pkg.footnotes), ("endnote", self.pkg.endnotes)):
            self.pending = []
            for n in part or []:
                if n.attributes.get("w:type") not in ("separator", "continuationSeparator"):
                    # every note is READ (reader warnings); it is converted only when a reference to it was reached
                    self.convert = (ty, n.attributes.get("w:id")) in self.refs
                    self.walk(n.children)
        self.convert = True
        self.pending = []
        for c in self.pkg.comments or []:
            # a comment is converted only when comment references are rendered AND a reference to it was reached
            if comments_rendered and c.attributes.get("w:id") in self.crefs:
                self.walk(c.children)
            else:
                # the comments part is always READ (reader warnings), but its paragraphs are converted only when rendered
                saved = self.sm
                self.sm = [{"kind": "p", "style_id": None, "style_name": None, "list": None}, {"kind": "r", "style_id": None, "style_name": None, "list": None}]
                self.walk(c.children)
                self.sm = saved
        return self.msgs


WARN_HEADER = """From Mammoth Require Import WarnSpec.
Definition chk_warns (c : list (str * dpart) * bool * list (str * img_src) * api_opts * option (str * list str) * option (str * list str)) : bool :=
  let '(parts, named, linked, a, _, _) := c in warns_agree (mkSource (package_of parts) named linked).
Definition chk_warns_domain (c : list (str * dpart) * bool * list (str * img_src) * api_opts * option (str * list str) * option (str * list str)) : bool :=
  let '(parts, named, linked, a, _, _) := c in in_warn_domain (mkSource (package_of parts) named linked).
"""


def run(ctx):
    ctx.build()
    rng = ctx.rng
    n = 2500 if ctx.thorough else 240
    terms, metas = [], []
    dist = {"packages": 0, "clean": 0, "with_messages": 0, "message_kinds": {}}
    for i in range(n):
        clean = (i % 3 == 0)
        g = gen_xml.XGen(rng, anomalies=0.0 if clean else 0.5, dangling=0.0 if clean else 0.3, hostile=0.1, optional_absent=0.0)
        pkg = g.package()
        smt = None if clean else MAPS[i % len(MAPS)]
        if smt is not None and not clean and rng.random() < 0.6:
            extra = [rng.choice(UNREADABLE + READABLE) for _ in range(rng.randint(1, 4))]
            lines = smt.split("\n") + extra
            rng.shuffle(lines)
            # a mapping for an element kind placed before the map's own lines could change which style wins: keep the extra lines last for p/r
            smt = "\n".join([l for l in lines if l not in READABLE] + [l for l in lines if l in READABLE])
        if clean:
            # a style map that recognises every style the generator uses
            smt = "\n".join(["p.%s => p.s%d:fresh" % (sid, k) for k, (sid, _) in enumerate(PSTYLES)] +
                            ["r.%s => span.r%d" % (sid, k) for k, (sid, _) in enumerate(RSTYLES)] + ["comment-reference => sup"])
        opts = {"style_map": smt, "include_default_style_map": True, "include_embedded_style_map": True,
                "ignore_empty_paragraphs": True, "id_prefix": None, "conv": "no_open"}
        data, parts = B.build(pkg)
        html, raw = A.run_impl(data, opts, None)
        ctx.count()
        dist["packages"] += 1
        meta = {"package": gen_xml.pkg_json(pkg), "options": opts, "index": i, "clean": clean}
        bad = None
        if isinstance(html, Exception):
            bad = "conversion raised %r" % html
        else:
            got = [m.message for m in html.messages]
            sm_objs = moptions.read_options({"style_map": smt or ""}).value["style_map"]
            exp = Expect(pkg, sm_objs).all(smt is not None and "comment-reference" in smt)
            for l in (smt or "").split("\n"):
                l = l.strip()
                if l in UNREADABLE:      # unreadable by construction (documented grammar), not by asking the implementation
                    exp.add("Did not understand this style mapping, so ignored it: " + l)
            exp = {B.sanitize(m) for m in exp}
            if len(got) != len(set(got)):
                bad = "a warning is reported more than once"
            elif set(got) - exp:
                bad = "unexpected message(s): %s" % sorted(set(got) - exp)[:3]
            elif exp - set(got):
                bad = "skipped construct(s) not reported: %s" % sorted(exp - set(got))[:3]
            elif clean and got:
                bad = "a clean document produced messages"
            for m in got:
                k = re.sub(r"[:].*", "", m)[:40]
                dist["message_kinds"][k] = dist["message_kinds"].get(k, 0) + 1
            if clean:
                dist["clean"] += 1
            if got:
                dist["with_messages"] += 1
        if bad:
            ctx.violation("oracle", bad, dict(meta, api="mammoth.convert_to_html(...).messages",
                                             observed=None if isinstance(html, Exception) else [m.message for m in html.messages]), True)
            if len(ctx.violations) > 12:
                break
        else:
            if html.messages:
                ctx.nontrivial(i)
                ctx.sample({"messages": [m.message for m in html.messages][:4]})
        terms.append(A.case_term(parts, False, {}, opts, html, raw))
        metas.append(meta)
    for i in ctx.coq_eval("c16", A.HEADER + WARN_HEADER, terms, A.CASE_TYPE, "chk_api", shard=12, more=("chk_warns", "chk_warns_domain"))[:5]:
        ctx.violation("correspondence", "model and implementation disagree (value or messages)",
                      dict(metas[i], obligation="correspondence Model/Api.v vs mammoth.convert_to_html"), False)
    # the statement of C16_docx_warnings, evaluated: the reader's messages = the warning specification on the XML of the four parts
    for i in ctx.more_bad["chk_warns"][:5]:
        ctx.violation("proof", "the reader's messages are not the warnings the specification lists for the XML of the parts (Proofs/WarnSpec.v: warns_agree is false)",
                      dict(metas[i], obligation="Props/C16.v: C16_docx_warnings evaluated on this package"), False)
    dist["in_reader_warnings_theorem_domain"] = len(terms) - len(ctx.more_bad["chk_warns_domain"])
    ctx.coverage["traces_validated_against_impl"] = len(terms)
    ctx.coverage["input_distribution"] = dist
    ctx.coverage["rule"] = ("packages with anomalies injected at any depth (unknown elements, undefined style ids, unmapped styled paragraphs/runs, unsupported break types "
                            "and symbols, blips without image, non-browser image types, unreadable style-map lines) and clean packages with a style map recognising every "
                            "style; the message set must equal the anomalies listed by an independent walk of the package; non-trivial = package that produced messages")


def replay(ctx, rep):
    r = rep["replay"]
    pkg = gen_xml.pkg_from_json(r["package"])
    data, _ = B.build(pkg)
    html, _ = A.run_impl(data, r["options"], None)
    if isinstance(html, Exception):
        print("replay: raised", html)
        return 1
    smt = r["options"]["style_map"]
    sm_objs = moptions.read_options({"style_map": smt or ""}).value["style_map"]
    exp = {B.sanitize(m) for m in Expect(pkg, sm_objs).all(smt is not None and "comment-reference" in smt)}
    for l in (smt or "").split("\n"):
        if l.strip() in UNREADABLE:
            exp.add(B.sanitize("Did not understand this style mapping, so ignored it: " + l.strip()))
    got = {m.message for m in html.messages}
    print("replay: unexpected", sorted(got - exp), "missing", sorted(exp - got))
    return 0 if got == exp else 1
