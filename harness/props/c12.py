"""C12 — embedding a style map round-trips and preserves the rest of the package."""
import io
import os
import struct
import zipfile
from xml.etree import ElementTree

import mammoth

from .. import apilevel as A, docx_builder as B, gen_xml, gen_styles, terms as T

HEADER = """From Mammoth Require Import Embed EmbedTables.
Local Open Scope N_scope.
Definition bytes_eqb := list_eqb N.eqb.
(* utf-8: (string, observed encoding) *)
Definition chk_utf8 (c : str * list N) : bool :=
  bytes_eqb (utf8_encode (fst c)) (snd c) && opt_eqb str_eqb (utf8_decode (snd c)) (Some (fst c)).
Definition xelem_eqb (a b : xelem) : bool := str_eqb (fst a) (fst b) && list_eqb (pair_eqb str_eqb str_eqb) (snd a) (snd b).
(* relationships / content-types children before, and as observed after an embed (attributes sorted by key) *)
Definition sort_attrs (e : xelem) : xelem :=
  (fst e, fold_left (fun acc kv => (fix ins (l : list (str * str)) := match l with [] => [kv] | x :: l' => if str_ltb (fst kv) (fst x) then kv :: l else x :: ins l' end) acc) (snd e) []).
Definition chk_parts (c : list xelem * list xelem * list xelem * list xelem) : bool :=
  let '(r0, r1, c0, c1) := c in
  list_eqb xelem_eqb (map sort_attrs (update_rels r0)) r1 && list_eqb xelem_eqb (map sort_attrs (update_ctypes c0)) c1.
(* the file model: (old bytes, new archive bytes, observed file after) under the truncate flag read from the source *)
Definition chk_file (c : list N * list N * list N) : bool :=
  let '(old, new, after) := c in
  bytes_eqb (f_bytes (fst (run_ops (write_phase update_zip_truncates (N.to_nat copy_bufsize) new) None (mkFS old 0)))) after.
"""


class FaultyFile:
    """Proxy over a real file object that raises IOError at the k-th operation and records the trace."""
    def __init__(self, f, fault_at=None):
        self.f, self.fault_at, self.n, self.trace = f, fault_at, 0, []

    def _op(self, name, *a):
        if self.fault_at is not None and self.n == self.fault_at:
            self.n += 1
            self.trace.append(name + "!")
            raise IOError("injected fault at operation %d (%s)" % (self.fault_at, name))
        self.n += 1
        self.trace.append(name)
        return getattr(self.f, name)(*a)

    def read(self, *a):
        return self._op("read", *a)

    def write(self, *a):
        return self._op("write", *a)

    def seek(self, *a):
        return self._op("seek", *a)

    def tell(self):
        return self.f.tell()

    def truncate(self, *a):
        return self._op("truncate", *a)

    def flush(self):
        return self.f.flush()

    def seekable(self):
        return True


def children(xml_bytes):
    root = ElementTree.fromstring(xml_bytes)
    return [(c.tag, dict(c.attrib)) for c in root]


def xelems_term(cs, sort=False):
    return T.lst(lambda e: "(%s, %s)" % (T.s(e[0]), T.lst(lambda kv: "(%s, %s)" % (T.s(kv[0]), T.s(kv[1])),
                                                     sorted(e[1].items()) if sort else list(e[1].items()))), cs)


def zip_end(data):
    """offset just past the end-of-central-directory record (incl. comment), or None"""
    i = data.rfind(b"PK\x05\x06")
    if i < 0:
        return None
    clen = struct.unpack("<H", data[i + 20:i + 22])[0]
    return i + 22 + clen


def make_package(rng, i):
    g = gen_xml.XGen(rng, images=True, tables=(i % 2 == 0))
    pkg = g.package(rng.randint(1, 3))
    extra = []
    if i == 0 or rng.random() < 0.6:
        extra.append(("customXml/item%d.bin" % i, bytes(rng.randrange(256) for _ in range(70000 if i % 7 == 0 else rng.choice([0, 1, 100, 300])))))
    if rng.random() < 0.3:
        extra.append(("docProps/empty.xml", b""))
    if rng.random() < 0.3:
        extra += [("many/f%d.txt" % k, b"x" * k) for k in range(20)]
    if rng.random() < 0.2:
        extra.append(("adir/", b""))
    pkg.meta["extra_entries"] = extra
    return pkg


def style_map_strings(rng):
    out = ["", "p => h1", "p.A => h2\n# c\n\nr.B => em", "é😀 ퟿", gen_styles.rand_mapping_text(rng),
           "\n".join(gen_styles.rand_mapping_text(rng) for _ in range(rng.randint(1, 60))),
           gen_styles.rand_codepoints(rng, 30), "x" * rng.choice([1, 10, 1000, 70000])]
    rng.shuffle(out)
    return out


def check_state(orig_entries, data, s, what):
    """the property's clauses on the file content after a successful embed of s"""
    try:
        z = zipfile.ZipFile(io.BytesIO(data))
        bad = z.testzip()
        if bad:
            return "corrupt member %s" % bad
    except zipfile.BadZipFile as e:
        return "the file is no longer a valid zip archive (%s)" % e
    end = zip_end(data)
    if end != len(data):
        return "stale bytes after the end of the archive (%s bytes)" % (None if end is None else len(data) - end)
    try:
        got = mammoth.read_embedded_style_map(io.BytesIO(data))
    except Exception as e:
        return "read_embedded_style_map raised %s: %s" % (type(e).__name__, str(e)[:120])
    if got != s:
        return "read_embedded_style_map does not return the embedded string"
    names = z.namelist()
    if len(names) != len(set(names)):
        return "duplicate entries in the archive"
    for name, content in orig_entries.items():
        if name in ("word/_rels/document.xml.rels", "[Content_Types].xml", "mammoth/style-map"):
            continue
        if name not in names or z.read(name) != content:
            return "part %s is not byte-identical" % name
    rels = children(z.read("word/_rels/document.xml.rels"))
    cts = children(z.read("[Content_Types].xml"))
    if sum(1 for t, a in rels if a.get("Id") == "rMammothStyleMap") != 1:
        return "relationships part does not hold exactly one style-map entry"
    if sum(1 for t, a in cts if a.get("PartName") == "/mammoth/style-map") != 1:
        return "content-types part does not hold exactly one style-map entry"
    o_rels = [x for x in children(orig_entries["word/_rels/document.xml.rels"]) if x[1].get("Id") != "rMammothStyleMap"]
    o_cts = [x for x in children(orig_entries["[Content_Types].xml"]) if x[1].get("PartName") != "/mammoth/style-map"]
    if [x for x in rels if x[1].get("Id") != "rMammothStyleMap"] != o_rels:
        return "relationships entries were lost or reordered"
    if [x for x in cts if x[1].get("PartName") != "/mammoth/style-map"] != o_cts:
        return "content-types entries were lost or reordered"
    return None


def run(ctx):
    ctx.build()
    rng = ctx.rng
    n_hist = 300 if ctx.thorough else 40
    utf8_terms, part_terms, file_terms, part_meta, file_meta = [], [], [], [], []
    dist = {"histories": 0, "embeds": 0, "shrinking_embeds": 0, "on_disk": 0, "fault_runs": 0, "faults_before_write": 0, "faults_in_write_phase": 0}
    with A.Workdir() as wd:
        for h in range(n_hist):
            pkg = make_package(rng, h)
            data0, _ = B.build(pkg)
            orig = {n: zipfile.ZipFile(io.BytesIO(data0)).read(n) for n in zipfile.ZipFile(io.BytesIO(data0)).namelist()}
            on_disk = h % 3 == 0
            path = os.path.join(wd.path, "h%d.docx" % h)
            if on_disk:
                with open(path, "wb") as f:
                    f.write(data0)
                dist["on_disk"] += 1
            cur = data0
            seq = style_map_strings(rng)[:rng.randint(2, 6)]
            dist["histories"] += 1
            hist = []
            ok = True
            for s in seq:
                s = "".join(c for c in s if not 0xD800 <= ord(c) <= 0xDFFF)
                hist.append(s if len(s) < 80 else "%s...(%d chars)" % (s[:40], len(s)))
                before = cur
                if on_disk:
                    same_handle = None
                    with open(path, "r+b") as f:
                        mammoth.embed_style_map(f, s)
                        # "after embed_style_map(file, s), read_embedded_style_map(file) returns s": through THE SAME file object
                        try:
                            same_handle = (mammoth.read_embedded_style_map(f), None)
                            f.seek(0)
                            same_handle = (same_handle[0], f.read())
                        except Exception as e:
                            same_handle = ("raised %s" % type(e).__name__, None)
                    with open(path, "rb") as f:
                        cur = f.read()
                    if same_handle[0] != s or same_handle[1] != cur:
                        ctx.violation("oracle", "after embedding %d maps (r+b file): the file object that was passed in does not give the embedded map back / does not hold the bytes of the file "
                                      "(read_embedded_style_map(file) = %r)" % (len(hist), same_handle[0] if same_handle[0] is None or len(str(same_handle[0])) < 60 else str(same_handle[0])[:60]),
                                      {"history": hist, "on_disk": True, "package": gen_xml.pkg_json(pkg), "api": "mammoth.embed_style_map / read_embedded_style_map on one file object"}, True)
                        ok = False
                        break
                else:
                    f = io.BytesIO(cur)
                    mammoth.embed_style_map(f, s)
                    cur = f.getvalue()
                ctx.count()
                dist["embeds"] += 1
                bad = check_state(orig, cur, s, "embed")
                meta = {"history": hist, "on_disk": on_disk, "package": gen_xml.pkg_json(pkg),
                        "extra_entries": [[n, len(b)] for n, b in pkg.meta.get("extra_entries", [])]}
                if bad:
                    ctx.violation("oracle", "after embedding %d maps (%s): %s" % (len(hist), "r+b file" if on_disk else "BytesIO", bad),
                                  dict(meta, api="mammoth.embed_style_map"), True)
                    ok = False
                    break
                # conversion equals converting the original with style_map = s
                a = mammoth.convert_to_html(io.BytesIO(cur))
                b = mammoth.convert_to_html(io.BytesIO(data0), style_map=s)
                if a.value != b.value or [m.message for m in a.messages] != [m.message for m in b.messages]:
                    ctx.violation("oracle", "converting the file differs from converting the original with style_map=s",
                                  dict(meta, api="mammoth.embed_style_map + convert_to_html"), True)
                    ok = False
                    break
                ctx.nontrivial((h, len(hist)))
                if len(utf8_terms) < (400 if ctx.thorough else 80) and len(s) < 400:
                    utf8_terms.append("(%s, %s)" % (T.s(s), T.lst(T.n, list(s.encode("utf8")))))
                if len(part_terms) < (300 if ctx.thorough else 60):
                    zb, za = zipfile.ZipFile(io.BytesIO(before)), zipfile.ZipFile(io.BytesIO(cur))
                    part_terms.append("(%s, %s, %s, %s)" % (
                        xelems_term(children(zb.read("word/_rels/document.xml.rels"))), xelems_term(children(za.read("word/_rels/document.xml.rels")), True),
                        xelems_term(children(zb.read("[Content_Types].xml"))), xelems_term(children(za.read("[Content_Types].xml")), True)))
                    part_meta.append(meta)
                if len(before) > len(cur) or (zip_end(cur) or 0) < len(before):
                    dist["shrinking_embeds"] += 1
                if len(hist) == 1 and len(ctx.coverage["samples"]) < 4:
                    ctx.sample({"history": hist, "file_length_before": len(before), "after": len(cur)})
            if not ok:
                continue
            # fault injection on the last embed of the history
            s = "p => h%d" % (h % 6 + 1)
            total = FaultyFile(io.BytesIO(cur))
            mammoth.embed_style_map(total, s)
            trace = total.trace
            first_mut = min([k for k, t in enumerate(trace) if t in ("write", "truncate")] or [len(trace)])
            for k in range(len(trace)):
                f = io.BytesIO(cur)
                ff = FaultyFile(f, fault_at=k)
                try:
                    mammoth.embed_style_map(ff, s)
                    failed = False
                except (IOError, zipfile.BadZipFile):
                    failed = True
                dist["fault_runs"] += 1
                ctx.count()
                if k < first_mut:
                    dist["faults_before_write"] += 1
                else:
                    dist["faults_in_write_phase"] += 1
                if not failed:
                    # the injected error did not come out of the call: then the call claims success, and every clause must hold of the file
                    bad_ = check_state(orig, f.getvalue(), s, "embed")
                    if bad_:
                        ctx.violation("oracle", "an I/O error at operation %d (%s) was swallowed: the call returned normally, but %s" % (k, trace[k], bad_),
                                      {"api": "mammoth.embed_style_map", "fault_operation": k, "operation": trace[k], "trace": trace,
                                       "file_length": len(cur), "package": gen_xml.pkg_json(pkg)}, True)
                        break
                if failed and f.getvalue() != cur:
                    wrote = sum(1 for t in ff.trace[:-1] if t == "write")
                    single_write_phase = all(t in ("write", "truncate") for t in trace[first_mut:])
                    if trace[k] == "truncate" and k == len(trace) - 1 and single_write_phase:
                        what = "an I/O error at the final truncate (after the copy completed) leaves the file modified"
                    elif trace[k] == "write" and wrote >= 1 and single_write_phase:
                        what = "an I/O error at a later write of the copy (write number %d, after %d completed) leaves the file modified" % (wrote + 1, wrote)
                    elif wrote == 0 and k <= first_mut:
                        what = "an I/O error at operation %d (%s), before anything was written, leaves the file modified" % (k, trace[k])
                    else:
                        # the call went on reading / seeking after it had started to write: a failure there is not one of the two
                        # recorded findings (which are faults INSIDE the one final copy)
                        what = ("an I/O error at operation %d (%s), after %d write(s) had already modified the file, makes the call fail with the file "
                                "changed: the call does not do all its reading before its one write phase" % (k, trace[k], wrote))
                    ctx.violation("oracle", what, {"api": "mammoth.embed_style_map", "fault_operation": k, "operation": trace[k],
                                                   "completed_writes": wrote, "trace": trace, "file_length": len(cur),
                                                   "package": gen_xml.pkg_json(pkg)}, True)
            # file model: old bytes / new archive / observed
            if len(file_terms) < (60 if ctx.thorough else 12) and len(cur) < 6000:
                f = io.BytesIO(cur)
                rec = FaultyFile(f)
                mammoth.embed_style_map(rec, "p => h1")
                after = f.getvalue()
                newlen = zip_end(after)
                file_terms.append("(%s, %s, %s)" % (T.lst(T.n, list(cur)), T.lst(T.n, list(after[:newlen])), T.lst(T.n, list(after))))
                file_meta.append({"file_length_before": len(cur), "after": len(after), "trace": rec.trace})
    for i in ctx.coq_eval("c12u", HEADER, utf8_terms, "str * list N", "chk_utf8")[:3]:
        ctx.violation("correspondence", "model utf-8 codec and str.encode disagree", {"obligation": "correspondence Model/Embed.v:utf8_encode"}, False)
    for i in ctx.coq_eval("c12p", HEADER, part_terms, "list xelem * list xelem * list xelem * list xelem", "chk_parts", shard=10)[:3]:
        ctx.violation("correspondence", "model and implementation disagree on the relationships / content-types update",
                      dict(part_meta[i], obligation="correspondence Model/Embed.v:update_rels/update_ctypes vs style_map._generate_*_xml"), False)
    for i in ctx.coq_eval("c12f", HEADER, file_terms, "list N * list N * list N", "chk_file", shard=3)[:3]:
        ctx.violation("correspondence", "model of the file rewrite (seek, write chunks, truncate as read from the source) and the observed file differ",
                      dict(file_meta[i], obligation="correspondence Model/Embed.v:write_phase vs zips.update_zip"), False)
    ctx.coverage["traces_validated_against_impl"] = len(utf8_terms) + len(part_terms) + len(file_terms)
    ctx.coverage["input_distribution"] = dist
    ctx.coverage["rule"] = ("histories of 2-6 embeds of style maps of growing and shrinking lengths (empty, Unicode, 70 kB) into generated packages with binary, empty, "
                            "directory and many extra parts, on BytesIO and on r+b files; after each embed: valid zip, no stale bytes, read-back equals s, other parts "
                            "byte-identical, exactly one style-map entry in each part, conversion equals converting the original with style_map=s; then an I/O error "
                            "injected at every file operation of one more embed; non-trivial = (history, step) whose embed satisfied every clause")
    ctx.assumptions += ["zipfile (parse o serialize = id), ElementTree serialisation and the OS file layer are runtime: tested, not proved"]


def replay(ctx, rep):
    r = rep["replay"]
    pkg = gen_xml.pkg_from_json(r["package"])
    data, _ = B.build(pkg)
    if "fault_operation" in r:
        f = io.BytesIO(data)
        try:
            mammoth.embed_style_map(FaultyFile(f, r["fault_operation"]), "p => h1")
            print("replay: embed did not fail")
            return 0
        except (IOError, zipfile.BadZipFile):
            bad = f.getvalue() != data
            print("replay:", "file modified although embedding failed" if bad else "file unchanged")
            return 1 if bad else 0
    f = io.BytesIO(data)
    mammoth.embed_style_map(f, "x" * 3000)
    mammoth.embed_style_map(f, "p => h1")
    orig = {n: zipfile.ZipFile(io.BytesIO(data)).read(n) for n in zipfile.ZipFile(io.BytesIO(data)).namelist()}
    bad = check_state(orig, f.getvalue(), "p => h1", "replay")
    print("replay:", bad or "property holds on this input")
    return 1 if bad else 0
