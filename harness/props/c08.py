"""C08 — paragraphs map one-to-one, in order, to heading, list-item and paragraph blocks."""
from mammoth.docx.xmlparser import element as X, text as XT

from .. import apilevel as A, docx_builder as B, gen_xml, oracle_html as O, terms as T

NEST_HEADER = """From Mammoth Require Import Html Styles MiscSpec ListsSpec.
Local Open Scope N_scope.
Definition chk_nest (c : list block * list ev) : bool :=
  forallb block_ok (fst c) && list_eqb ev_eqb (spec_events (fst c)) (snd c).
"""


def events_of(forest):
    out = []
    for n in forest:
        if "name" in n:
            out.append("(EOpen %s)" % T.s(n["name"]))
            out += events_of(n["children"])
            out.append("(EClose %s)" % T.s(n["name"]))
        else:
            out.append("(EText %s)" % T.s(n["text"]))
    return out

ORDERED = {"1": [False, False, True, True, False, True], "2": [True, True, False, True, True]}
STYLES = [("Heading1", "Heading 1"), ("Heading2", "heading 2"), ("H3x", "Heading 3"), ("h4id", "HEADING 4"), ("Heading5", None), ("Heading6", "Heading 6"),
          ("ListParagraph", "List Paragraph"), ("Normal", "Normal"), ("Mystery", "Mystery Style")]


def styles_part():
    out = [X("w:style", {"w:type": "paragraph", "w:styleId": sid}, [X("w:name", {"w:val": nm})] if nm else []) for sid, nm in STYLES]
    out.append(X("w:style", {"w:type": "numbering", "w:styleId": "ListStyle"}, [X("w:pPr", {}, [X("w:numPr", {}, [X("w:numId", {"w:val": "2"})])])]))
    return out


def rand_para(rng, i):
    """returns (xml paragraph, expected block) ; block = ("h", k) | ("p",) | ("li", depth, ordered)"""
    text = "para%d" % i
    run = X("w:r", {}, [X("w:t", {}, [XT(text)])])
    k = rng.random()
    ppr, exp = [], ("p",)
    if k < 0.2:
        h = rng.choice([("Heading1", 1), ("Heading2", 2), ("H3x", 3), ("h4id", 4), ("Heading5", 5), ("Heading6", 6)])
        ppr.append(X("w:pStyle", {"w:val": h[0]}))
        exp = ("h", h[1])
        if rng.random() < 0.4:
            # a NUMBERED heading (by id or recognised by name only): still its heading, not a list item
            ppr.append(X("w:numPr", {}, [X("w:ilvl", {"w:val": str(rng.choice([0, 1, 2]))}), X("w:numId", {"w:val": rng.choice(["1", "2", "3"])})]))
    elif k < 0.3:
        ppr.append(X("w:pStyle", {"w:val": rng.choice(["Normal", "Mystery", "Undefined"])}))
    elif k < 0.36:
        ppr.append(X("w:pStyle", {"w:val": "ListParagraph"}))        # numbering through the paragraph style: abstractNum 1, level 0
        exp = ("li", 1, True)
    elif k < 0.85:
        mech = rng.choice(["direct1", "direct2", "link", "style_plus_own", "unmapped_style"])
        lvl = rng.choice([0, 0, 1, 1, 2, 3, 4])
        numid = {"direct1": "1", "direct2": "2", "link": "3", "style_plus_own": "1", "unmapped_style": "2"}[mech]
        if mech == "style_plus_own":
            ppr.append(X("w:pStyle", {"w:val": "ListParagraph"}))    # the paragraph's own numPr takes precedence
        elif mech == "unmapped_style":
            # a list item that also carries a style no mapping knows — the same style plain paragraphs of the document carry
            ppr.append(X("w:pStyle", {"w:val": rng.choice(["Normal", "Mystery", "Undefined"])}))
        table = ORDERED["1"] if numid == "1" else ORDERED["2"]
        ppr.append(X("w:numPr", {}, [X("w:ilvl", {"w:val": str(lvl)}), X("w:numId", {"w:val": numid})]))
        exp = ("li", lvl + 1, table[lvl])
    elif k < 0.88:
        # the paragraph's own, complete numPr names a list that does not exist: it is NOT numbered — also when its style would number it
        ppr.append(X("w:pStyle", {"w:val": "ListParagraph"}))
        ppr.append(X("w:numPr", {}, [X("w:ilvl", {"w:val": rng.choice(["0", "1"])}), X("w:numId", {"w:val": rng.choice(["0", "99"])})]))
        exp = ("p",)
    elif k < 0.92:
        # level 6+ or unresolvable numbering: an ordinary paragraph
        ppr.append(X("w:numPr", {}, [X("w:ilvl", {"w:val": rng.choice(["5", "7"])}), X("w:numId", {"w:val": rng.choice(["2", "4", "5", "99"])})]))
        if ppr[-1].children[1].attributes["w:val"] == "2" and ppr[-1].children[0].attributes["w:val"] == "5":
            exp = ("p",)
    return X("w:p", {}, ([X("w:pPr", {}, ppr)] if ppr else []) + [run]), exp, text


def spec_blocks(seq):
    """The stack algorithm: forest of {"name", "children"} / {"text"} for a sequence of (block, text)."""
    root, stack = [], []
    for exp, text in seq:
        if exp[0] != "li":
            root.append({"name": "h%d" % exp[1] if exp[0] == "h" else "p", "children": [{"text": text}]})
            stack = []
            continue
        _, d, o = exp
        m = len(stack)
        k = (d if stack[d - 1]["name"] == ("ol" if o else "ul") else d - 1) if d <= m else m
        stack = stack[:k]
        for level in range(k + 1, d + 1):
            new = {"name": ("ol" if o else "ul") if level == d else "ul", "children": []}
            if level == 1:
                root.append(new)
            else:
                stack[-1]["children"][-1]["children"].append(new)
            stack.append(new)
            if level < d:
                new["children"].append({"name": "li", "children": []})
        stack[-1]["children"].append({"name": "li", "children": [{"text": text}]})
    return root


def skeleton(forest):
    out = []
    for n in forest:
        if "name" in n:
            out.append({"name": n["name"], "children": skeleton(n["children"])})
        elif n.get("text", "").strip():
            out.append({"text": n["text"]})
    return out


def run(ctx):
    ctx.build()
    rng = ctx.rng
    n = 2500 if ctx.thorough else 250
    terms, metas = [], []
    nest_terms, nest_metas = [], []
    dist = {"documents": 0, "paragraphs": 0, "kinds": {"h": 0, "p": 0, "li": 0}, "max_depth": {}, "containers": {"body": 0, "cell": 0, "note": 0}}
    for i in range(n):
        seq = [rand_para(rng, j) for j in range(rng.randint(1, 8))]
        container = rng.choice(["body", "body", "cell", "note"])
        pkg = gen_xml.Package()
        pkg.styles = styles_part()
        pkg.numbering = gen_xml.XGen(rng).numbering_part()
        paras = []
        for p_, _, _ in seq:
            # (an EMPTY paragraph - no runs, or runs without text - yields no block and does not come between its neighbours)
            if rng.random() < 0.2:
                paras.append(rng.choice([X("w:p"), X("w:p", {}, [X("w:pPr", {}, [X("w:pStyle", {"w:val": "Normal"})])]),
                                         X("w:p", {}, [X("w:r", {}, [X("w:t")])]), X("w:p", {}, [X("w:r", {}, [X("w:rPr", {}, [X("w:b")])])])]))
            paras.append(p_)
        if container == "body":
            pkg.body = paras
        elif container == "cell":
            pkg.body = [X("w:tbl", {}, [X("w:tr", {}, [X("w:tc", {}, paras)])])]
        else:
            pkg.body = [X("w:p", {}, [X("w:r", {}, [X("w:footnoteReference", {"w:id": "2"})])])]
            pkg.footnotes = [X("w:footnote", {"w:id": "2"}, paras)]
        opts = {"style_map": None, "include_default_style_map": True, "include_embedded_style_map": True,
                "ignore_empty_paragraphs": True, "id_prefix": None, "conv": "data_uri"}
        data, parts = B.build(pkg)
        html, raw = A.run_impl(data, opts, None)
        ctx.count()
        dist["documents"] += 1
        dist["containers"][container] += 1
        dist["paragraphs"] += len(seq)
        for _, e, _ in seq:
            dist["kinds"][e[0]] += 1
        md = max([e[1] for _, e, _ in seq if e[0] == "li"] or [0])
        dist["max_depth"][md] = dist["max_depth"].get(md, 0) + 1
        meta = {"package": gen_xml.pkg_json(pkg), "options": opts, "expected_blocks": [list(e) + [t] for _, e, t in seq], "container": container, "index": i}
        bad = None
        if isinstance(html, Exception):
            bad = "conversion raised %r" % html
        else:
            forest = O.strict_parse(html.value)
            if container == "cell":
                forest = forest[0]["children"][0]["children"][0]["children"]          # table > tr > td
            elif container == "note":
                li = [x for x in forest if x.get("name") == "ol"][-1]["children"][0]
                forest = li["children"][:-1]                                            # drop the back-link paragraph
            got = skeleton(forest)
            exp = spec_blocks([(e, t) for _, e, t in seq])
            if container == "note":
                # the note's back-link paragraph (" ↑") is collapsible: it forms its own trailing p, or merges into a trailing p
                got = skeleton(li["children"])
                lastp = got[-1] if got and got[-1].get("name") == "p" else None
                if lastp is None or not lastp["children"] or lastp["children"][-1].get("name") != "a":
                    bad = "the note does not end with its back-link"
                else:
                    kids = lastp["children"][:-1]
                    if kids and "text" in kids[-1] and kids[-1]["text"].endswith(" "):
                        kids[-1] = {"text": kids[-1]["text"][:-1]}
                    got = got[:-1] + ([{"name": "p", "children": kids}] if kids else [])
            if not bad and got != exp:
                bad = "blocks differ from the one-block-per-paragraph / list nesting specification"
        if bad:
            ctx.violation("oracle", bad, dict(meta, api="mammoth.convert_to_html", observed=None if isinstance(html, Exception) else html.value[:800]), True)
            if len(ctx.violations) > 10:
                break
        else:
            if md >= 2:
                ctx.nontrivial(i)
                ctx.sample({"blocks": meta["expected_blocks"], "html": html.value[:300]})
        terms.append(A.case_term(parts, False, {}, opts, html, raw))
        metas.append(meta)
        if not bad and container != "note":
            # the machine of the nesting THEOREM (Proofs/ListsSpec.v: spec_events) against the events of the implementation's output
            blocks = T.lst(lambda et: ("(BPlain (mkTag %s [] [] false None) [Text %s])" % (T.s("h%d" % et[0][1] if et[0][0] == "h" else "p"), T.s(et[1])))
                           if et[0][0] != "li" else "(BItem %d%%nat %s [Text %s])" % (et[0][1], T.b(et[0][2]), T.s(et[1])), [(e, t) for _, e, t in seq])
            nest_terms.append("(%s, %s)" % (blocks, T.lst(lambda x: x, events_of(got))))
            nest_metas.append(meta)
    for i in ctx.coq_eval("c08n", NEST_HEADER, nest_terms, "list block * list ev", "chk_nest", shard=60)[:5]:
        ctx.violation("proof", "the output's tag events are not those of the stack machine the nesting theorem is stated with (Proofs/ListsSpec.v: spec_events)",
                      dict(nest_metas[i], obligation="Props/C08.v: C08_default_lists_nest evaluated on this paragraph sequence"), False)
    for i in ctx.coq_eval("c08", A.HEADER, terms, A.CASE_TYPE, "chk_api", shard=20)[:5]:
        ctx.violation("correspondence", "model and implementation disagree",
                      dict(metas[i], obligation="correspondence Model/Api.v vs mammoth.convert_to_html"), False)
    ctx.coverage["traces_validated_against_impl"] = len(terms)
    ctx.coverage["input_distribution"] = dist
    ctx.coverage["rule"] = ("sequences of 1-8 non-empty paragraphs (Heading 1-6 by id or by name in any case, unknown / no style, list items at levels 1-5 through numPr, "
                            "numStyleLink indirection, paragraph-style numbering, own numPr over style numbering, unresolvable numbering) in the body, a table cell or a note, "
                            "default style map; the block skeleton must equal the stack-algorithm specification; non-trivial = sequence reaching list depth >= 2")


def replay(ctx, rep):
    r = rep["replay"]
    pkg = gen_xml.pkg_from_json(r["package"])
    data, _ = B.build(pkg)
    html, _ = A.run_impl(data, r["options"], None)
    if isinstance(html, Exception):
        print("replay: raised", html)
        return 1
    forest = O.strict_parse(html.value)
    exp = spec_blocks([(tuple(e[:-1]), e[-1]) for e in r["expected_blocks"]])
    ok = r["container"] != "body" or skeleton(forest) == exp
    print("replay:", "property holds on this input" if ok else "violated")
    return 0 if ok else 1
