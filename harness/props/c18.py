"""C18 — conversion reads nothing outside the given file except linked images."""
import io
import os
import sys
import zipfile

import mammoth

from .. import apilevel as A, docx_builder as B, doclevel, gen_xml
from .c17 import expected_images

EVENTS = []
RECORDING = [False]
INTERESTING = ("open", "urllib.Request", "socket.connect", "socket.getaddrinfo", "socket.gethostbyname", "socket.gethostbyaddr",
               "subprocess.Popen", "os.system", "ftplib.connect", "http.client.connect")


def _hook(event, args):
    if RECORDING[0] and event in INTERESTING:
        try:
            EVENTS.append((event, tuple(repr(a)[:200] if not isinstance(a, (str, int, type(None))) else a for a in args[:2])))
        except Exception:
            EVENTS.append((event, ()))


_installed = [False]


def install():
    if not _installed[0]:
        sys.addaudithook(_hook)
        _installed[0] = True


def external_events(scratch):
    """events that touch something outside the interpreter's own files"""
    out = []
    pyroots = tuple({sys.prefix, sys.base_prefix, os.path.dirname(os.__file__), "/repo", os.environ.get("MAMMOTH_REPO", "/repo"), "/venv", "/root/.pyenv"})
    for ev, args in EVENTS:
        if ev == "open":
            path = args[0]
            if isinstance(path, int):
                continue
            p = str(path)
            if p.startswith(pyroots) or p.endswith((".pyc", ".py")):
                continue
            out.append(("open", os.path.realpath(p) if os.path.isabs(p) else p))
        else:
            out.append((ev, args[0] if args else None))
    return out


def add_doctype(data, canary_file, canary_url):
    """rewrite every XML part with a DOCTYPE carrying an external subset, an external general entity and an external
    parameter entity; the general entity is referenced from a comment-free place that does not change meaning"""
    buf = io.BytesIO()
    with zipfile.ZipFile(io.BytesIO(data)) as zin, zipfile.ZipFile(buf, "w") as zout:
        for item in zin.infolist():
            content = zin.read(item.filename)
            if item.filename.endswith((".xml", ".rels")) and content.startswith(b"<?xml"):
                end = content.index(b"?>") + 2
                root = content[end:].lstrip()
                name = root[1:].split(b" ", 1)[0].split(b">", 1)[0].split(b"/", 1)[0]
                doctype = (b'<!DOCTYPE ' + name + b' SYSTEM "file://' + canary_file.encode() + b'" [\n'
                           b'<!ENTITY ext SYSTEM "file://' + canary_file.encode() + b'">\n'
                           b'<!ENTITY exturl SYSTEM "' + canary_url.encode() + b'">\n'
                           b'<!ENTITY % pe SYSTEM "file://' + canary_file.encode() + b'">\n%pe;\n]>\n')
                content = content[:end].replace(b' standalone="yes"', b"") + b"\n" + doctype + root
            zout.writestr(item, content)
    return buf.getvalue()


def run(ctx):
    ctx.build()
    install()
    rng = ctx.rng
    n = 1200 if ctx.thorough else 120
    terms, metas = [], []
    dist = {"runs": 0, "named": 0, "anonymous": 0, "with_linked": 0, "with_doctype": 0, "converters": {}, "external_opens": 0}
    # warm-up: import everything the conversion needs before recording
    warm, _ = B.build(gen_xml.XGen(rng).package())
    mammoth.convert_to_html(io.BytesIO(warm))
    mammoth.convert_to_markdown(io.BytesIO(warm))
    with A.Workdir() as wd:
        canary = os.path.join(wd.path, "canary.dtd")
        with open(canary, "w") as f:
            f.write("<!-- canary -->")
        for i in range(n):
            g = gen_xml.XGen(rng, textboxes=False, notes=(i % 2 == 0), comments=False, anomalies=0.1, deleted=False, linked_rate=0.6, odd_links=0.4)
            pkg = g.package(rng.randint(1, 4))
            # linked images: relative targets (files next to the input, present or missing) and URLs on a closed local port
            for t in list(pkg.linked):
                kind, data_ = pkg.linked.pop(t)
                nt = t if "://" not in t else "http://127.0.0.1:9/%s" % t.rsplit("/", 1)[1]
                pkg.linked[nt] = (kind, data_)
                pkg.rels = [(a, nt if b == t else b, c) for a, b, c in pkg.rels]
            named = rng.random() < 0.5
            bulky = i in (1, 2)
            if bulky:
                # dedicated: parts far larger than any in-memory buffer a library might spill to disk (an embedded picture of 3 MiB and a main part of
                # 2 MiB), converted from an anonymous stream / a named file with the default converter: still no file may be opened
                from mammoth.docx.xmlparser import element as X, text as XT
                pkg = gen_xml.Package()
                pkg.media["word/media/image1.png"] = bytes(range(256)) * (3 * 4096)
                pkg.rels = [("rIdBig", "media/image1.png", B.REL + "image")]
                pic = X("a:graphic", {}, [X("a:graphicData", {}, [X("pic:pic", {}, [X("pic:blipFill", {}, [X("a:blip", {"r:embed": "rIdBig"})])])])])
                pkg.body = [X("w:p", {}, [X("w:r", {}, [X("w:t", {}, [XT("bulk " * 400000)])]), X("w:r", {}, [X("w:drawing", {}, [X("wp:inline", {}, [pic])])])])]
                named = (i == 2)
            missing_part = (i == 3)
            if missing_part:
                # dedicated: an EMBEDDED picture whose part is not in the package, while files of that name lie next to the (named) input:
                # the conversion may fail, but an embedded picture is never looked for outside the package
                from mammoth.docx.xmlparser import element as X, text as XT
                pkg = gen_xml.Package()
                pkg.rels = [("rIdMiss", "media/missing.png", B.REL + "image"), ("rIdAbs", "/word/media/absent.png", B.REL + "image")]
                pic = lambda rid: X("w:drawing", {}, [X("wp:inline", {}, [X("a:graphic", {}, [X("a:graphicData", {}, [X("pic:pic", {}, [X("pic:blipFill", {}, [X("a:blip", {"r:embed": rid})])])])])])])
                pkg.body = [X("w:p", {}, [X("w:r", {}, [X("w:t", {}, [XT("before")]), pic("rIdMiss" if rng.random() < 0.5 else "rIdAbs")])])]
                named = True
            if i in (4, 5):
                # dedicated: a style map (embedded in the package) that is nothing but the NAME of a file which exists: it is a style map that cannot be
                # read as one - never a reason to open that file
                pkg.embedded_style_map = canary if i == 4 else "p => h1\n" + canary
            d = os.path.join(wd.path, "c%d" % i)
            os.makedirs(d)
            if missing_part:
                for rel_ in ("media", os.path.join("word", "media")):
                    os.makedirs(os.path.join(d, rel_), exist_ok=True)
                    for nm_ in ("missing.png", "absent.png"):
                        with open(os.path.join(d, rel_, nm_), "wb") as f_:
                            f_.write(b"CANARY outside the package")
            conv = rng.choice(["data_uri", "data_uri", "counting", "no_open"])
            if bulky or missing_part:
                conv = "data_uri"
            opts = {"style_map": None, "include_default_style_map": True, "include_embedded_style_map": True,
                    "ignore_empty_paragraphs": True, "id_prefix": None, "conv": conv}
            data, parts = B.build(pkg)
            doctype = rng.random() < 0.4 and not bulky and not missing_part
            if doctype:
                data = add_doctype(data, canary, "http://127.0.0.1:9/evil.dtd")
                dist["with_doctype"] += 1
            path = os.path.join(d, "in.docx") if named else None
            if path and i % 3 == 1:
                # the input is reached through a symbolic link: targets are resolved against the directory of the name that was GIVEN
                os.makedirs(os.path.join(d, "store"), exist_ok=True)
                with open(os.path.join(d, "store", "blob.docx"), "wb") as f:
                    f.write(data)
                os.symlink(os.path.join("store", "blob.docx"), path)
                dist["symlinked_input"] = dist.get("symlinked_input", 0) + 1
            elif path:
                with open(path, "wb") as f:
                    f.write(data)
            linked = A.linked_outcomes(pkg, d if named else None)      # also creates the files that exist
            # expected external accesses, from the property text: one per linked image the converter opens, in order
            exp = []
            note_refs = []
            reached = []      # targets of the link-only blips the conversion reaches (not those in deletions, field codes, unused alternates)
            rels = {a: b for a, b, c in pkg.rels}
            from mammoth.docx.xmlparser import XmlElement

            def walk(nodes):
                for x in nodes:
                    if isinstance(x, XmlElement):
                        if x.name == "a:blip" and x.attributes.get("r:embed") is None and x.attributes.get("r:link") is not None:
                            t = rels[x.attributes["r:link"]]
                            reached.append(t)
                            if conv != "no_open":
                                if "://" in t:
                                    exp.append(("urllib.Request", t))
                                elif named:
                                    exp.append(("open", os.path.realpath(os.path.join(d, t))))
                        elif x.name in ("w:footnoteReference", "w:endnoteReference"):
                            note_refs.append((x.name[2:-9], x.attributes.get("w:id")))
                        elif x.name in ("w:del", "w:instrText"):
                            continue
                        elif x.name == "mc:AlternateContent":
                            walk(x.find_child_or_null("mc:Fallback").children)
                            continue
                        elif x.name == "w:sdt":
                            if x.find_child_or_null("w:sdtPr").find_child("wordml:checkbox") is None:
                                walk(x.find_child_or_null("w:sdtContent").children)
                            continue
                        walk(x.children)
            walk(pkg.body)
            # the notes are converted after the body, one per note reference the body reached, in REFERENCE order
            body_refs = list(note_refs)
            for ty, nid in body_refs:
                part = pkg.footnotes if ty == "footnote" else pkg.endnotes
                for nn in (part or []):
                    if nn.attributes.get("w:type") is None and nn.attributes.get("w:id") == nid:
                        walk(nn.children)
            if exp:
                dist["with_linked"] += 1
            fobj = open(path, "rb") if named else io.BytesIO(data)
            del EVENTS[:]
            RECORDING[0] = True
            try:
                kw = {}
                c, _ = doclevel.make_converter(conv)
                if c is not None:
                    kw["convert_image"] = c
                res = mammoth.convert_to_html(fobj, **kw)
                err = None
            except Exception as e:
                res, err = None, e
            finally:
                RECORDING[0] = False
                fobj.close()
            ctx.count()
            dist["runs"] += 1
            dist["named" if named else "anonymous"] += 1
            dist["converters"][conv] = dist["converters"].get(conv, 0) + 1
            got = external_events(wd.path)
            # a URL open also produces socket events towards the same host: keep the first event of each access
            norm = []
            for ev, a in got:
                if ev.startswith("socket.") or ev == "http.client.connect":
                    if norm and norm[-1][0] == "urllib.Request":
                        continue
                    norm.append((ev, a))
                else:
                    norm.append((ev, a))
            dist["external_opens"] += len(norm)
            meta = {"package": gen_xml.pkg_json(pkg) if not bulky else "dedicated bulky package (3 MiB picture, 2 MiB main part)", "named": named, "converter": conv, "doctype": doctype, "index": i}
            bad = None
            if err is not None and not missing_part:
                bad = "conversion raised %r instead of returning a warning" % err
            elif missing_part and (norm != exp or (res is not None and "CANARY" in repr(res.value))):
                bad = "an embedded picture whose part is missing from the package was looked for outside it: %s" % (norm[:3],)
            elif norm != exp:
                extra = [e for e in norm if e not in exp]
                if any(canary in str(a) or "evil.dtd" in str(a) for _, a in norm):
                    bad = "a file that is only NAMED inside the package (DTD, external entity, or a path-like style map) was opened: %s" % extra[:2]
                else:
                    bad = "external accesses %s, expected exactly the linked images %s" % (norm[:4], exp[:4])
            elif not named and any("://" not in t for t in reached) and conv != "no_open":
                if not any("fileobj has no name" in m.message for m in res.messages):
                    bad = "a relative linked image with an anonymous input did not produce the warning"
            if bad:
                ctx.violation("oracle", bad, dict(meta, api="mammoth.convert_to_html under sys.addaudithook", events=norm[:6]), True)
                if len(ctx.violations) > 8:
                    break
            else:
                if exp or doctype:
                    ctx.nontrivial(i)
                    ctx.sample({"named": named, "converter": conv, "doctype": doctype, "external_accesses": norm[:3]})
            if not doctype and err is None and not bulky and not missing_part:
                # correspondence of the result (the model takes what each external target yields as input)
                raw = mammoth.extract_raw_text(io.BytesIO(data))
                terms.append(A.case_term(parts, named, linked, opts, res, raw))
                metas.append(meta)
    for i in ctx.coq_eval("c18", A.HEADER, terms, A.CASE_TYPE, "chk_api", shard=10)[:5]:
        ctx.violation("correspondence", "model and implementation disagree",
                      dict(metas[i], obligation="correspondence Model/Api.v vs mammoth.convert_to_html"), False)
    ctx.coverage["traces_validated_against_impl"] = len(terms)
    ctx.coverage["input_distribution"] = dist
    ctx.coverage["rule"] = ("conversions under an audit hook recording open / urllib / socket events; packages with and without linked images (relative files present or "
                            "missing, URLs on a closed local port), XML parts carrying DOCTYPEs with external subsets and external general and parameter entities pointing at a "
                            "canary file and URL, named files and anonymous BytesIO, converters that do or do not open; the accesses outside the interpreter's own files must "
                            "be exactly the linked images opened, in order; non-trivial = run with a linked image or a DOCTYPE")
    ctx.assumptions += ["expat's refusal to load DTDs / external entities is runtime behaviour: observed through the audit hook, not proved"]


def replay(ctx, rep):
    install()
    r = rep["replay"]
    if isinstance(r["package"], str):
        from mammoth.docx.xmlparser import element as X, text as XT
        pkg = gen_xml.Package()
        pkg.media["word/media/image1.png"] = bytes(range(256)) * (3 * 4096)
        pkg.rels = [("rIdBig", "media/image1.png", B.REL + "image")]
        pic = X("a:graphic", {}, [X("a:graphicData", {}, [X("pic:pic", {}, [X("pic:blipFill", {}, [X("a:blip", {"r:embed": "rIdBig"})])])])])
        pkg.body = [X("w:p", {}, [X("w:r", {}, [X("w:t", {}, [XT("bulk " * 400000)])]), X("w:r", {}, [X("w:drawing", {}, [X("wp:inline", {}, [pic])])])])]
    else:
        pkg = gen_xml.pkg_from_json(r["package"])
    data, _ = B.build(pkg)
    del EVENTS[:]
    RECORDING[0] = True
    try:
        mammoth.convert_to_html(io.BytesIO(data))
    finally:
        RECORDING[0] = False
    got = external_events("/nonexistent")
    print("replay: external accesses with an anonymous input:", got)
    return 1 if got else 0
