"""C07 — reading a style map never fails and never hangs."""
import json
import os
import subprocess
import sys
import time

from mammoth import options as moptions
from mammoth.styles.parser import read_style_mapping, tokeniser

from .. import apilevel as A, common, gen_styles as G, terms as T

HEADER = """From Mammoth Require Import Options DefaultStyleMap.
Local Open Scope N_scope.
Definition tok_eqb (a b : token) : bool := N.eqb (ttype a) (ttype b) && str_eqb (tvalue a) (tvalue b).
(* (line, observed tokens or crash, observed style / None / crash) *)
Definition chk_line (c : str * option (list token) * option (option style)) : bool :=
  let '(l, otoks, ores) := c in
  match tokenise l, otoks with
  | Ok ts, Some ts' => list_eqb tok_eqb ts ts'
  | Crash _, None => true
  | _, _ => false
  end &&
  match read_style_mapping l, ores with
  | Ok (Some s), Some (Some s') => style_eqb s s'
  | Ok None, Some None => true
  | Crash _, None => true
  | _, _ => false
  end.
(* (text, observed (styles, messages) or crash) *)
Definition chk_map (c : str * option (list style * list str)) : bool :=
  match read_options_style_map (fst c) [] false, snd c with
  | Ok (ss, ms), Some (ss', ms') => list_eqb style_eqb ss ss' && list_eqb str_eqb ms ms'
  | Crash _, None => true
  | _, _ => false
  end.
"""

TYPES = {"identifier": 0, "symbol": 1, "whitespace": 2, "string": 3, "unterminated string": 4, "integer": 5, "end": 6,
         "unknown": 7}
PREFIX = "Did not understand this style mapping, so ignored it: "


def tok_term(t):
    return "(mkTok %d %s)" % (TYPES[t.type], T.s(t.value))


def observe_line(line):
    try:
        toks = tokeniser.tokenise(line)
        tt = "(Some %s)" % T.lst(tok_term, toks)
    except Exception:
        toks, tt = None, "None"
    try:
        r = read_style_mapping(line)
        if r.value is None:
            rt = "(Some None)"
        else:
            rt = "(Some (Some %s))" % T.style(r.value)
        res = r
    except Exception as e:
        rt, res = "None", e
    return "(%s, %s, %s)" % (T.s(line), tt, rt), toks, res


def observe_map(text):
    """options.read_options through the public option name; returns (term, result-or-exception)."""
    try:
        r = moptions.read_options({"style_map": text})
        styles = r.value["style_map"]
        msgs = [m.message for m in r.messages]
        nd = len(moptions._default_style_map)
        if styles[len(styles) - nd:] != moptions._default_style_map:
            raise AssertionError("the defaults are not at the end of the style map")
        # the defaults (compared by Props/C03 and C08) are left out of the term: only the explicit part is evaluated here
        term = "(%s, Some (%s, %s))" % (T.s(text), T.lst(T.style, styles[:len(styles) - nd]), T.lst(T.s, msgs))
        return term, (styles, r.messages)
    except Exception as e:
        return "(%s, None)" % T.s(text), e


def oracle_map(text, res):
    """The property itself, on the implementation: no exception; blank and # lines silent; every other
    line applied or quoted in exactly one warning; remaining lines effective."""
    if isinstance(res, Exception):
        return "reading the style map raised %s: %s" % (type(res).__name__, str(res)[:100])
    styles, msgs = res
    lines = [l.strip() for l in text.split("\n")]
    lines = [l for l in lines if l and not l.startswith("#")]
    n_default = len(moptions._default_style_map)
    custom = styles[:len(styles) - n_default]
    bad, good = [], 0
    for l in lines:
        try:
            r = read_style_mapping(l)
        except Exception as e:
            return "reading the line raised %s" % type(e).__name__
        if r.value is None:
            if PREFIX + l not in bad:
                bad.append(PREFIX + l)
        else:
            good += 1
    if [m.message for m in msgs] != bad:
        return "warnings are not exactly one quoting warning per distinct unreadable line"
    if any(m.type != "warning" for m in msgs):
        return "a message is not a warning"
    if len(custom) != good:
        return "a readable line did not take effect"
    # ... and the style map can be USED: converting a document whose styles have names full of characters that mean something in other
    # notations (regular expressions, globs, format strings) returns, whatever the readable lines say
    try:
        import io as _io
        import mammoth as _mammoth
        _mammoth.convert_to_html(_io.BytesIO(probe_docx()), style_map=text)
    except Exception as e:
        return "converting a document with this style map raised %s: %s" % (type(e).__name__, str(e)[:80])
    return None


_PROBE = []


def probe_docx():
    if not _PROBE:
        from mammoth.docx.xmlparser import element as X, text as XT
        from .. import docx_builder as B, gen_xml
        names = ["Note (1)", "C++ listing", "N" * 26 + "!", "Heading 1", "a.b*c [x] {0} %s \\d+ ^$ |", "(unclosed", "*", "+"]
        pkg = gen_xml.Package()
        pkg.styles = [X("w:style", {"w:type": "paragraph", "w:styleId": "P%d" % k}, [X("w:name", {"w:val": nm})]) for k, nm in enumerate(names)] + \
                     [X("w:style", {"w:type": "character", "w:styleId": "R%d" % k}, [X("w:name", {"w:val": nm})]) for k, nm in enumerate(names)]
        pkg.body = [X("w:p", {}, [X("w:pPr", {}, [X("w:pStyle", {"w:val": "P%d" % k})]),
                                  X("w:r", {}, [X("w:rPr", {}, [X("w:rStyle", {"w:val": "R%d" % k})]), X("w:t", {}, [XT("t%d" % k)])])]) for k in range(len(names))]
        _PROBE.append(B.build(pkg)[0])
    return _PROBE[0]


def timing_ladder(ctx):
    """Implementation-only scaling test in a child process (a hang cannot be interrupted in-process)."""
    top = 100000 if ctx.thorough else 20000
    fams = sorted(G.PUMPS)
    results = {}
    budget = 20.0 if ctx.thorough else 8.0
    procs = []
    for fam in fams:
        p = subprocess.Popen([common.PY, "-m", "harness.timing", fam, str(top)], cwd=common.VERIF, env=common.ENV,
                             stdout=subprocess.PIPE, stderr=subprocess.STDOUT, text=True)
        procs.append((fam, p, time.time()))
    for fam, p, t0 in procs:
        try:
            out, _ = p.communicate(timeout=max(1.0, budget * 6 - (time.time() - t0)))
        except subprocess.TimeoutExpired:
            p.kill()
            out, _ = p.communicate()
            out += "\nTIMEOUT"
        rows = []
        for line in out.splitlines():
            if line.startswith("T "):
                _, n, dt = line.split()
                rows.append((int(n), float(dt)))
            elif line.startswith("ERR "):
                ctx.violation("oracle", "style map from family %s raised: %s" % (fam, line[4:120]),
                              {"api": "options.read_options", "family": fam, "error": line[4:]}, True)
        results[fam] = rows
        ctx.count(len(rows))
        hung = "TIMEOUT" in out
        slow = [r for r in rows if r[1] > budget]
        ratios = [(b[0], b[1] / a[1]) for a, b in zip(rows, rows[1:]) if a[1] > 0.02]
        bad_growth = any(r1[1] > 4.5 and r2[1] > 4.5 for r1, r2 in zip(ratios, ratios[1:]))
        if hung or slow or bad_growth:
            last = rows[-1] if rows else (0, 0.0)
            n_fail = (rows[-1][0] * 2 if rows else 16) if hung else (slow[0][0] if slow else ratios[-1][0])
            ctx.violation("oracle", "reading time for family %s is not polynomially bounded in practice (%s)" %
                          (fam, "no answer within the budget at n=%d" % n_fail if hung else "super-quadratic growth or over budget"),
                          {"api": "options.read_options({'style_map': PUMPS[family](n)})", "family": fam, "n": n_fail,
                           "style_map_prefix": G.PUMPS[fam](min(n_fail, 60)), "times": rows}, True)
    ctx.coverage["timing_ladder"] = {f: r[-3:] for f, r in results.items()}


def run(ctx):
    ctx.build()
    rng = ctx.rng
    lines = ["", "#x", "p => h1", "p.a\\", "'", "p:ordered-list(0) => p", "p:ordered-list(007) => p", "p =>", "p => !",
             "p => p:fresh:separator('x')", "p => p:separator('x'):fresh", "r[style-name^='a'] => b.c.d[class='e']",
             "p.Hé => p", "p => p", "p\x1f=>\x1fp", "p  =>  p", "br[type='line'] => br", "br[type='x'] => br",
             "highlight[color='yellow'] => mark", "p => a|b|c > d", "p => p.a.b[class='c'].d", "p => p[class='c'][class='d']",
             "p => p[a='1'][a='2']", "p\r=> p", "p => p > \t q", "p => p>q", "p => p >q",
             # a backslash escapes ONE character, whatever follows it: sequences that other notations read as numeric / named escapes
             "p => h3.\\U00110000", "p[style-name='\\UFFFFFFFF'] => h5", "p.\\u00e9 => p", "p => p.\\uD800x", "p[style-name='\\x41\\101\\0'] => p",
             "p => p[title='\\N{DASH}\\U0001F600']", "r.\\U0010FFFF\\U00110000 => em", "p.a\\u12 => p", "p => p.\\u", "p => p['\\U']"]
    n = 6000 if ctx.thorough else 900
    for i in range(n):
        k = rng.random()
        if k < 0.45:
            lines.append(G.rand_mapping_text(rng))
        elif k < 0.65:
            lines.append(G.mutate(rng, G.rand_mapping_text(rng)))
        elif k < 0.85:
            lines.append(G.token_soup(rng))
        else:
            lines.append(G.rand_codepoints(rng))
    for fam, f in sorted(G.PUMPS.items()):
        for m in (1, 2, 3, 7, 12):
            lines += [l for l in f(m).split("\n")][:2]
    lines = [l for l in lines if "\n" not in l]
    # whole style maps
    texts = ["", "\n\n", "# only a comment", "p => h1\n\n#c\nq q\nq q\nr => em\n  \t p.a => h2  ", "\r\n p => h1 \r\n",
             "p:ordered-list(" + "9" * 5000 + ") => p", "p:ordered-list(" + "9" * (4300 if ctx.thorough else 300) + ") => p", "x\nx\ny\nx",
             # unreadable lines whose characters any Unicode normalisation or case folding would change: each is quoted as written, and
             # canonically equivalent lines are DIFFERENT lines (two warnings)
             "e\u0301 is not a mapping\n\u00e9 is not a mapping\np => h1", "\u212b => \u00c5\n\u00c5 => \u212b\n\u1100\u1161 ?\n\uac00 ?",
             "p.\ufb01 =>\n\u0130 => i\nI\u0307 => i",
             # style names are compared as strings: nothing in them is a pattern
             "p[style-name^='Note ('] => aside\np[style-name='C++ listing'] => pre\nr[style-name='a.b*c [x] {0} %s \\\\d+ ^$ |'] => code",
             "p[style-name='(N+)+$'] => p\np[style-name^='(N+)+'] => p", "p[style-name='[unclosed'] => p\nr[style-name^='*'] => em\nr[style-name='+'] => b",
             "p[style-name='(unclosed'] => h2\np[style-name^='N{26}'] => h3"]
    for i in range(1500 if ctx.thorough else 250):
        ls = []
        for _ in range(rng.randint(0, 6)):
            k = rng.random()
            ls.append(G.rand_mapping_text(rng) if k < 0.5 else G.token_soup(rng) if k < 0.7 else
                      rng.choice(["", "  ", "# c", " #x", "p => h1", "!!", "!!"]) if k < 0.9 else G.rand_codepoints(rng))
        texts.append(rng.choice(["\n", "\n", "\r\n", "\n\n"]).join(ls))
    # the timing ladder first: when a pumped family already hangs there is no point in stressing the rest in this process
    timing_ladder(ctx)
    # the implementation runs in a child process, so that a hang can be killed and the culprit named
    lterms, mterms, dist = [], [], {"lines": 0, "parsed": 0, "rejected": 0, "token_types": {}}
    budget = 900 if ctx.thorough else 150
    with A.Workdir() as wd:
        inf, outf = os.path.join(wd.path, "job.json"), os.path.join(wd.path, "out.jsonl")
        with open(inf, "w", encoding="utf-8") as f:
            json.dump({"lines": lines, "texts": texts}, f)
        p = subprocess.Popen([common.PY, "-m", "harness.c07_worker", inf, outf], cwd=common.VERIF, env=common.ENV,
                             stdout=subprocess.PIPE, stderr=subprocess.STDOUT, text=True)
        try:
            wout, _ = p.communicate(timeout=budget)
            hung = False
        except subprocess.TimeoutExpired:
            p.kill()
            wout, _ = p.communicate()
            hung = True
        rows = []
        if os.path.exists(outf):
            with open(outf, encoding="utf-8") as f:
                rows = [json.loads(x) for x in f if x.strip()]
    done = any(r.get("done") for r in rows)
    last_start = None
    kept_lines, kept_texts = [], []
    for r in rows:
        if "start" in r:
            last_start = r["start"]
        elif r.get("kind") == "line":
            l = lines[r["i"]]
            lterms.append(r["term"])
            kept_lines.append(l)
            ctx.count()
            dist["lines"] += 1
            if "exc" in r:
                ctx.violation("oracle", "read_style_mapping raised %s" % r["exc"], {"api": "read_style_mapping", "line": l}, True)
            elif r["parsed"]:
                dist["parsed"] += 1
                ctx.nontrivial("ok:" + l)
            else:
                dist["rejected"] += 1
            for ty in r["types"]:
                dist["token_types"][ty] = dist["token_types"].get(ty, 0) + 1
        elif r.get("kind") == "text":
            tx = texts[r["i"]]
            mterms.append(r["term"])
            kept_texts.append(tx)
            ctx.count()
            if r["bad"]:
                ctx.violation("oracle", r["bad"], {"api": "options.read_options", "style_map": tx if len(tx) < 300 else tx[:100] + "...",
                                                   "style_map_len": len(tx), "generator": "p:ordered-list(9*N) => p" if len(tx) > 4000 else None}, True)
            elif r.get("msgs"):
                ctx.nontrivial("warn:" + tx[:80])
                ctx.sample({"style_map": tx[:200], "messages": r["msgs"]})
    if not done:
        if hung and last_start is not None:
            culprit = lines[last_start[1]] if last_start[0] == "line" else texts[last_start[1]]
            ctx.violation("oracle", "reading this style map did not finish within %d s (hang / super-polynomial time)" % budget,
                          {"api": "read_style_mapping" if last_start[0] == "line" else "options.read_options", "style_map": culprit[:400],
                           "style_map_len": len(culprit)}, True)
        else:
            ctx.violation("correspondence", "the implementation worker died: %s" % (wout or "")[-300:], {"obligation": "harness/c07_worker"}, False)
    for i in ctx.coq_eval("c07l", HEADER, lterms, "str * option (list token) * option (option style)", "chk_line")[:5]:
        ctx.violation("correspondence", "model and implementation disagree on a style-map line",
                      {"obligation": "correspondence Model/StyleParser.v vs tokenise/read_style_mapping", "line": kept_lines[i]}, False)
    for i in ctx.coq_eval("c07m", HEADER, mterms, "str * option (list style * list str)", "chk_map", shard=60)[:5]:
        ctx.violation("correspondence", "model and implementation disagree on a style map",
                      {"obligation": "correspondence Model/Options.v:read_options_style_map vs options.read_options",
                       "style_map": kept_texts[i][:300]}, False)
    ctx.coverage["traces_validated_against_impl"] = len(lterms) + len(mterms)
    ctx.coverage["input_distribution"] = dist
    ctx.coverage["rule"] = ("style-map lines: printed random mappings (hostile identifiers/strings), mutations, token soups, random code points, "
                            "strings pumped from every loop of the token regexes; whole maps with blank/#/duplicate lines; timing ladder n=16..%d "
                            "per pumped family in child processes. non-trivial = distinct line that parsed, or distinct map that produced warnings"
                            % (100000 if ctx.thorough else 20000))
    ctx.assumptions += ["wall-clock time is measured, not proved; the proved bound is on the backtracking cost model of Model/Regex.v"]


def replay(ctx, rep):
    r = rep["replay"]
    if "family" in r:
        text = G.PUMPS[r["family"]](r["n"])
        p = subprocess.run([common.PY, "-c", "import sys,time\nfrom mammoth import options\nt=time.time()\n"
                            "options.read_options({'style_map': sys.stdin.read()})\nprint(time.time()-t)"],
                           input=text, env=common.ENV, capture_output=True, text=True, timeout=None if False else 60)
        print("replay:", p.stdout.strip(), p.stderr.strip()[-200:])
        return 1 if p.returncode else 0
    text = r.get("style_map") or r.get("line")
    if r.get("generator"):
        text = "p:ordered-list(" + "9" * (r["style_map_len"] - 22) + ") => p"
    _, res = observe_map(text)
    bad = oracle_map(text, res)
    print("replay:", bad or "property holds on this input")
    return 1 if bad else 0
