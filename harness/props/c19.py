"""C19 — document transforms visit each target once and leave everything else alone."""
import io

import mammoth
from mammoth import documents as D, transforms

from .. import apilevel as A, docx_builder as B, doclevel as DL, gen_docs, gen_xml, terms as T

HEADER = """From Mammoth Require Import Transforms DelemEq.
Local Open Scope N_scope.
(* (which entry point: true = paragraph, transform family index, document children, observed calls, observed result children,
    observed get_descendants of the first child, observed get_descendants_of_type Run) *)
Definition is_text (e : delem) : bool := match e with DText _ => true | _ => false end.
Definition is_tab (e : delem) : bool := match e with DTab => true | _ => false end.
(* entry point: 0 = transforms.paragraph, 1 = transforms.run, 2 = element_of_type(Text, .), 3 = element_of_type(Tab, .) *)
Definition chk (c : N * N * list delem * list delem * list delem * list delem * list delem) : bool :=
  let '(entry, k, children, ocalls, ores, odesc, oruns) := c in
  let p := match entry with 0 => is_para | 1 => is_run | 2 => is_text | _ => is_tab end in
  let d := mkDoc children [] [] in
  list_eqb delem_eqb (document_calls p (t_family k) d) ocalls
  && list_eqb delem_eqb (d_children (transform_document p (t_family k) d)) ores
  && match children with
     | e :: _ => list_eqb delem_eqb (descendants e) odesc && list_eqb delem_eqb (descendants_of_type is_run e) oruns
     | [] => true
     end.
"""
CASE_TYPE = "N * N * list delem * list delem * list delem * list delem * list delem"


def family(k, log):
    def t_id(e):
        log.append(e)
        return e

    def t_restyle(e):
        log.append(e)
        return e.copy(style_id="Restyled")

    def t_drop_last(e):
        log.append(e)
        return e.copy(children=list(e.children)[:-1])
    return [t_id, t_restyle, t_drop_last, t_id][k]


def count(e, cls):
    return (1 if isinstance(e, cls) else 0) + sum(count(c, cls) for c in (getattr(e, "children", None) or []))


def run(ctx):
    ctx.build()
    rng = ctx.rng
    n = 3000 if ctx.thorough else 300
    terms, metas = [], []
    dist = {"documents": 0, "entry_paragraph": 0, "entry_run": 0, "families": {0: 0, 1: 0, 2: 0, 3: 0}, "calls": 0}
    for i in range(n):
        g = gen_docs.Gen(rng, notes=False, comments=False, images=(i % 3 == 0))
        doc, _ = g.document()
        ek = rng.choice([0, 0, 1, 1, 2, 3])      # entry point: paragraph, run, element_of_type(Text), element_of_type(Tab)
        para = ek == 0
        k = rng.randrange(4) if ek < 2 else rng.choice([0, 3])     # leaf types have no style / children to change: identity and record-only
        log = []
        cls = [D.Paragraph, D.Run, D.Text, D.Tab][ek]
        entry = [transforms.paragraph, transforms.run, lambda f: transforms.element_of_type(D.Text, f), lambda f: transforms.element_of_type(D.Tab, f)][ek]
        result = entry(family(k, log))(doc)
        ctx.count()
        dist["documents"] += 1
        dist[["entry_paragraph", "entry_run", "entry_text", "entry_tab"][ek]] = dist.get(["entry_paragraph", "entry_run", "entry_text", "entry_tab"][ek], 0) + 1
        dist["families"][k] += 1
        dist["calls"] += len(log)
        first = doc.children[0] if doc.children else None
        desc = transforms.get_descendants(first) if first is not None else []
        runs = transforms.get_descendants_of_type(first, D.Run) if first is not None else []
        bad = None
        expected_calls = sum(count(c, cls) for c in doc.children)
        if len(log) != expected_calls:
            bad = "the transform was called %d times for %d %s" % (len(log), expected_calls, ["paragraphs", "runs", "text elements", "tabs"][ek])
        elif any(not isinstance(e, cls) for e in log):
            bad = "the transform was called on an element of another kind"
        elif k in (0, 3):
            a = DL.observe(doc, [])
            b = DL.observe(result, [])
            if isinstance(a, Exception) != isinstance(b, Exception) or (not isinstance(a, Exception) and (a.value != b.value or a.messages != b.messages)):
                bad = "an identity transform changed the conversion result"
        if not bad:
            # "the returned element takes the original's place": the result is the original tree with every target replaced by what
            # the transform returned for it (its children already transformed), everything else as it was
            def ref(e):
                if isinstance(e, D.HasChildren):
                    e = e.copy(children=[ref(c) for c in e.children])
                return family(k, [])(e) if isinstance(e, cls) else e
            try:
                same = (ref(doc) == result)
            except Exception as ex:
                same = "comparison raised %r" % ex
            if same is not True:
                bad = "the transformed document is not the original with each target replaced by the transform's result (%s)" % same
        if first is not None and not bad:
            if len(desc) != count(first, object) - 1:
                bad = "get_descendants does not return every descendant exactly once"
            elif [id(x) for x in runs] != [id(x) for x in desc if isinstance(x, D.Run)]:
                bad = "get_descendants_of_type is not the filter of get_descendants"
            else:
                # also for the element's OWN type (the element is not one of its descendants) and for a leaf type
                for ty in (type(first), D.Text, D.Paragraph, D.Table):
                    got_ty = transforms.get_descendants_of_type(first, ty)
                    if [id(x) for x in got_ty] != [id(x) for x in desc if isinstance(x, ty)]:
                        bad = "get_descendants_of_type(%s, %s) is not exactly the descendants of that type" % (type(first).__name__, ty.__name__)
                        break
        meta = {"document": [T.delem_json(c) for c in doc.children], "entry": ["paragraph", "run", "text", "tab"][ek], "family": k, "index": i}
        if bad:
            ctx.violation("oracle", bad, dict(meta, api="mammoth.transforms"), True)
        elif log:
            ctx.nontrivial(i)
            if len(log) > 2:
                ctx.sample({"entry": meta["entry"], "family": k, "calls": len(log)})
        for e in list(doc.children) + list(result.children):
            T.attach_image_sources([e])
        terms.append("(%d, %d, %s, %s, %s, %s, %s)" % (ek, k, T.lst(T.delem, doc.children), T.lst(T.delem, log),
                                                      T.lst(T.delem, result.children), T.lst(T.delem, desc), T.lst(T.delem, runs)))
        metas.append(meta)
    for i in ctx.coq_eval("c19", HEADER, terms, CASE_TYPE, "chk", shard=25)[:5]:
        ctx.violation("correspondence", "model and mammoth.transforms disagree (call sequence, result or descendants)",
                      dict(metas[i], obligation="correspondence Model/Transforms.v vs mammoth.transforms"), False)
    # through the public API on a real file: transform_document is applied before conversion
    # (documents with everything the reader and the converter warn about: the RESULT is the value and the messages)
    for j in range(40 if ctx.thorough else 12):
        pkg = gen_xml.XGen(rng, anomalies=0.5, dangling=0.4, hostile=0.2, linked_rate=0.0).package()
        if j % 2 == 0:
            # (whatever else the package carries - an embedded style map that restyles what the document uses - goes through a transform untouched)
            pkg.embedded_style_map = "p.Normal => p.n:fresh\nr.Emph => code\np.Quote => blockquote > p:fresh\nr.Strong => b.s\np.Heading1 => h1.t:fresh"
        data, _ = B.build(pkg)
        ident = [("paragraph", transforms.paragraph(lambda p: p)), ("run", transforms.run(lambda r_: r_)),
                 ("element_of_type(Text)", transforms.element_of_type(D.Text, lambda t_: t_)), ("plain function", lambda d_: d_)][j % 4]
        for fn in (mammoth.convert_to_html, mammoth.convert_to_markdown):
            try:
                a = fn(io.BytesIO(data))
                a = (a.value, [(m.type, m.message) for m in a.messages])
            except Exception as e:
                a = ("raised", type(e).__name__)
            try:
                b = fn(io.BytesIO(data), transform_document=ident[1])
                b = (b.value, [(m.type, m.message) for m in b.messages])
            except Exception as e:
                b = ("raised", type(e).__name__)
            ctx.count()
            if a != b:
                what = "value" if a[0] != b[0] else "messages"
                ctx.violation("oracle", "an identity transform_document (%s) changed the %s of %s: %s vs %s" % (ident[0], what, fn.__name__, str(b[1] if what == "messages" else b[0])[:120], str(a[1] if what == "messages" else a[0])[:120]),
                              {"api": "mammoth.%s(transform_document=...)" % fn.__name__, "package": gen_xml.pkg_json(pkg)}, True)
                break
            elif a[1] and a[0] != "raised":
                dist["api_identity_with_messages"] = dist.get("api_identity_with_messages", 0) + 1
    ctx.coverage["traces_validated_against_impl"] = len(terms)
    ctx.coverage["input_distribution"] = dist
    ctx.coverage["rule"] = ("random document trees (tables in tables, links, images) x entry point {paragraph, run} x transform family {identity, restyle, drop last "
                            "child, record-only}; the call sequence, the transformed document and get_descendants / get_descendants_of_type are compared with the model in Coq; "
                            "non-trivial = document on which the transform was called at least once")


def replay(ctx, rep):
    r = rep["replay"]
    if "document" not in r:
        print("replay: see package")
        return 1
    children = [T.delem_from_json(j) for j in r["document"]]
    doc = D.document(children)
    log = []
    ek = ["paragraph", "run", "text", "tab"].index(r["entry"])
    cls = [D.Paragraph, D.Run, D.Text, D.Tab][ek]
    entry = [transforms.paragraph, transforms.run, lambda f: transforms.element_of_type(D.Text, f), lambda f: transforms.element_of_type(D.Tab, f)][ek]
    result = entry(family(r["family"], log))(doc)
    exp = sum(count(c, cls) for c in children)

    def ref(e):
        if isinstance(e, D.HasChildren):
            e = e.copy(children=[ref(c) for c in e.children])
        return family(r["family"], [])(e) if isinstance(e, cls) else e
    same = ref(doc) == result
    print("replay: calls", len(log), "targets", exp, "result as specified:", same)
    return 0 if len(log) == exp and all(isinstance(e, cls) for e in log) and same else 1
