"""C11 — run formatting becomes exactly the corresponding inline elements."""
import itertools

from mammoth.docx.xmlparser import element as X, text as XT

from .. import apilevel as A, docx_builder as B, gen_xml, oracle_html as O
from ..gen_xml import xml_json

TOGGLES = [("w:b", "bold"), ("w:i", "italic"), ("w:strike", "strike"), ("w:caps", "allcaps"), ("w:smallCaps", "smallcaps")]
SPELLINGS = ["absent", "bare", "true", "1", "false", "0"]
OVERRIDES = {"bold": "b => b.mb", "italic": "i => i.mi", "underline": "u => u.mu", "strike": "strike => del.ms",
             "allcaps": "all-caps => span.mac", "smallcaps": "small-caps => span.msc", "highlight": "highlight => mark.mh",
             "highlight_yellow": "highlight[color='yellow'] => mark.my"}
# a second table whose tags collide with the defaults and with each other: same tag, with and without a class, side by side
OVERRIDES2 = {"bold": "b => em.mb", "italic": "i => strong.mi", "underline": "u => em.mu", "strike": "strike => strong.ms",
              "allcaps": "all-caps => em.mac", "smallcaps": "small-caps => em", "highlight": "highlight => em.mh",
              "highlight_yellow": "highlight[color='yellow'] => strong.my"}
DEFAULTS = {"bold": "strong", "italic": "em", "strike": "s"}


def tag_class(table, name):
    path = table[name].split("=> ")[1]
    tag, _, cls = path.partition(".")
    return (tag, cls or None)
BLOCKS = {"p", "table", "tr", "td", "th", "thead", "tbody", "ol", "ul", "li", "dl", "dt", "dd", "h1", "h2"}


def toggle_on(spelling):
    return spelling in ("bare", "true", "1")


def make_run(rng, props, text):
    """props: dict name -> spelling / value; returns (xml run, expected wrapper facts)"""
    kids = []
    for tag, name in TOGGLES:
        sp = props.get(name, "absent")
        if sp != "absent":
            kids.append(X(tag, {} if sp == "bare" else {"w:val": sp}))
    u = props.get("underline", "absent")
    if u != "absent":
        kids.append(X("w:u", {} if u == "bare" else {"w:val": u}))
    va = props.get("valign")
    if va:
        kids.append(X("w:vertAlign", {"w:val": va}))
    hl = props.get("highlight", "absent")
    if hl != "absent":
        kids.append(X("w:highlight", {} if hl == "bare" else {"w:val": hl}))
    rng.shuffle(kids)
    return X("w:r", {}, ([X("w:rPr", {}, kids)] if kids or rng.random() < 0.3 else []) + [X("w:t", {}, [XT(text)])])


def expected_wrappers(props, overrides, table=None):
    """multiset of (name, class) the property text prescribes for the run's text"""
    table = table or OVERRIDES
    out = []
    for name in ("bold", "italic", "strike"):
        if toggle_on(props.get(name, "absent")):
            out.append(tag_class(table, name) if name in overrides else (DEFAULTS[name], None))
    for name in ("allcaps", "smallcaps"):
        if toggle_on(props.get(name, "absent")) and name in overrides:
            out.append(tag_class(table, name))
    u = props.get("underline", "absent")
    if u not in ("absent", "bare", "false", "0", "none") and "underline" in overrides:
        out.append(tag_class(table, "underline"))
    va = props.get("valign")
    if va == "superscript":
        out.append(("sup", None))
    elif va == "subscript":
        out.append(("sub", None))
    hl = props.get("highlight", "absent")
    if hl not in ("absent", "bare", "none", ""):
        if hl == "yellow" and "highlight_yellow" in overrides and (
                "highlight" not in overrides or overrides.index("highlight_yellow") < overrides.index("highlight")):
            out.append(tag_class(table, "highlight_yellow"))
        elif "highlight" in overrides:
            out.append(tag_class(table, "highlight"))
        elif hl == "yellow" and "highlight_yellow" in overrides:
            out.append(tag_class(table, "highlight_yellow"))
    return sorted(out, key=repr)


def leaf_wrappers(forest, text, chain=()):
    for n in forest:
        if "name" in n:
            r = leaf_wrappers(n["children"], text, chain + ((n["name"], n["attrs"].get("class")),))
            if r is not None:
                return r
        elif text in n.get("text", ""):
            return sorted([c for c in chain if c[0] not in BLOCKS], key=repr)
    return None


def exact_leaf_wrappers(forest, text, chain=()):
    for n in forest:
        if "name" in n:
            r = exact_leaf_wrappers(n["children"], text, chain + ((n["name"], n["attrs"].get("class")),))
            if r is not None:
                return r
        elif n.get("text", "") == text:
            return sorted([c for c in chain if c[0] not in BLOCKS], key=repr)
    return None


def rand_props(rng):
    p = {}
    for _, name in TOGGLES:
        p[name] = rng.choice(SPELLINGS + ["absent"] * 3)
    p["underline"] = rng.choice(["absent"] * 3 + ["bare", "single", "none", "false", "0", "double", "true", "1"])
    p["valign"] = rng.choice([None] * 4 + ["superscript", "subscript", "baseline"])
    p["highlight"] = rng.choice(["absent"] * 3 + ["yellow", "red", "none", "bare", "darkYellow", "lightGray", "darkBlue"])
    return p


def run(ctx):
    ctx.build()
    rng = ctx.rng
    docs = []
    if ctx.thorough:
        # all 2^5 on/off subsets of the toggles x spellings of "on"/"off", with underline/highlight/valign varied
        for bits in itertools.product([0, 1], repeat=5):
            for on_sp, off_sp in itertools.product(["bare", "true", "1"], ["absent", "false", "0"]):
                p = {name: (on_sp if b else off_sp) for (_, name), b in zip(TOGGLES, bits)}
                p.update({"underline": rng.choice(["absent", "single", "none"]), "valign": rng.choice([None, "superscript", "subscript"]),
                          "highlight": rng.choice(["absent", "yellow", "none"])})
                docs.append([p, rand_props(rng)])
    for i in range(1500 if ctx.thorough else 160):
        k = rng.choice([1, 2, 2, 3])
        runs = [rand_props(rng) for _ in range(k)]
        if k > 1 and rng.random() < 0.4:
            runs[1] = dict(runs[0])          # equal formatting: collapsing merges the wrappers
        docs.append(runs)
    # neighbours that differ in EXACTLY ONE property (each of the ten in turn, both orders; two different highlight colours), every mapping
    # in force: whatever treats runs as interchangeable because they "look the same" shows here
    forced = set()
    single = [(name, "true", "absent") for _, name in TOGGLES] + [("underline", "single", "absent"), ("underline", "double", "none"),
              ("valign", "superscript", None), ("valign", "subscript", "superscript"), ("valign", "subscript", "baseline"),
              ("highlight", "yellow", "absent"), ("highlight", "yellow", "red"), ("highlight", "darkBlue", "none"), ("highlight", "red", "bare")]
    for name, on, off in single:
        base = rand_props(rng) if rng.random() < 0.5 else {}
        a_, b_ = dict(base), dict(base)
        a_[name], b_[name] = on, off
        for pair in ([a_, b_], [b_, a_], [a_, b_, dict(a_)]):
            forced.add(len(docs))
            docs.append(pair)
    # a run WITHOUT the formatting of its two equal neighbours, holding only white space: the gap between them belongs to neither
    gaps = {}
    for name, on, off in single[:9]:
        a_ = {name: on}
        mid = {name: off} if off not in (None, "absent") else {}
        forced.add(len(docs))
        gaps[len(docs)] = rng.choice([" ", "\t", "\u00a0", "  "])
        docs.append([a_, mid, dict(a_)])
    terms, metas = [], []
    dist = {"documents": 0, "runs": 0, "runs_with_formatting": 0, "neighbours_equal": 0, "override_sets": {}}
    for i, runs in enumerate(docs):
        overrides = [k for k in OVERRIDES if rng.random() < 0.35 or i in forced]
        rng.shuffle(overrides)
        key = ",".join(sorted(overrides))
        dist["override_sets"][key] = dist["override_sets"].get(key, 0) + 1
        table = OVERRIDES2 if i % 3 == 2 else OVERRIDES
        sm = "\n".join(table[k] for k in overrides) or None
        xml_runs = [make_run(rng, p, gaps[i] if (i in gaps and j == 1) else "run%dx%d" % (i, j)) for j, p in enumerate(runs)]
        pkg = gen_xml.Package()
        pkg.body = [X("w:p", {}, xml_runs)]
        opts = {"style_map": sm, "include_default_style_map": True, "include_embedded_style_map": True,
                "ignore_empty_paragraphs": True, "id_prefix": None, "conv": "data_uri"}
        if sm is not None and i % 4 == 1:
            # the same overrides from the document's EMBEDDED style map, with the built-in defaults switched off
            # (strong / em / s are the converter's own defaults for unmapped bold / italic / strikethrough, not style-map entries)
            pkg.embedded_style_map = sm
            opts["style_map"] = None
            opts["include_default_style_map"] = False
        data, parts = B.build(pkg)
        html, raw = A.run_impl(data, opts, None)
        ctx.count()
        dist["documents"] += 1
        dist["runs"] += len(runs)
        if len(runs) > 1 and runs[0] == runs[1]:
            dist["neighbours_equal"] += 1
        meta = {"body": [xml_json(x) for x in pkg.body], "options": opts, "run_properties": runs, "overrides": overrides, "colliding_tags": table is OVERRIDES2, "embedded_style_map": pkg.embedded_style_map, "index": i}
        bad = None
        if isinstance(html, Exception):
            bad = "conversion raised %r" % html
        else:
            forest = O.strict_parse(html.value)
            for j, p in enumerate(runs):
                exp = expected_wrappers(p, overrides, table)
                got = leaf_wrappers(forest, "run%dx%d" % (i, j))
                if i in gaps and j == 1:
                    # the white-space run: a text node of its own, under its OWN wrappers only
                    got = exact_leaf_wrappers(forest, gaps[i])
                if exp:
                    dist["runs_with_formatting"] += 1
                if got != exp:
                    bad = "run %d: expected inline wrappers %s, found %s" % (j, exp, got)
                    break
        if bad:
            ctx.violation("oracle", bad, dict(meta, api="mammoth.convert_to_html", observed=None if isinstance(html, Exception) else html.value[:600]), True)
        else:
            if any(expected_wrappers(p, overrides, table) for p in runs):
                ctx.nontrivial(i)
                ctx.sample({"run_properties": runs, "overrides": overrides, "html": html.value[:240]})
        terms.append(A.case_term(parts, False, {}, opts, html, raw))
        metas.append(meta)
    for i in ctx.coq_eval("c11", A.HEADER, terms, A.CASE_TYPE, "chk_api", shard=40)[:5]:
        ctx.violation("correspondence", "model and implementation disagree",
                      dict(metas[i], obligation="correspondence Model/Api.v vs mammoth.convert_to_html"), False)
    ctx.coverage["traces_validated_against_impl"] = len(terms)
    ctx.coverage["input_distribution"] = dist
    ctx.coverage["exhaustive"] = bool(ctx.thorough)
    ctx.coverage["rule"] = ("paragraphs of 1-3 runs; every toggle in every legal spelling (absent, bare, true, 1, false, 0), underline / highlight / vertAlign values, "
                            "neighbouring runs with equal and different formatting, style maps overriding random subsets of the eight property mappings"
                            + ("; all 2^5 toggle subsets x on/off spellings enumerated" if ctx.thorough else "")
                            + "; the inline ancestors of each run's text must be exactly the wrappers the property prescribes; non-trivial = document with at least one formatted run")


def replay(ctx, rep):
    r = rep["replay"]
    pkg = gen_xml.Package()
    pkg.body = [gen_xml.xml_from_json(j) for j in r["body"]]
    pkg.embedded_style_map = r.get("embedded_style_map")
    data, _ = B.build(pkg)
    html, _ = A.run_impl(data, r["options"], None)
    if isinstance(html, Exception):
        print("replay: raised", html)
        return 1
    forest = O.strict_parse(html.value)
    bad = False
    for j, p in enumerate(r["run_properties"]):
        if leaf_wrappers(forest, "run%dx%d" % (r["index"], j)) != expected_wrappers(p, r["overrides"], OVERRIDES2 if r.get("colliding_tags") else OVERRIDES):
            bad = True
    print("replay:", "violated" if bad else "property holds on this input")
    return 1 if bad else 0
