"""C15 — conversion is a pure, repeatable function of the file and the options."""
import copy
import hashlib
import io
import json
import os
import subprocess
import threading

import mammoth
from mammoth import documents, options as moptions

from .. import apilevel as A, common, docx_builder as B, gen_xml, terms as T

LEVEL = "other"
OPTION_SETS = [{}, {"style_map": "p.Quote => blockquote > p:fresh\ncomment-reference => sup"}, {"id_prefix": "x-", "ignore_empty_paragraphs": False},
               {"include_default_style_map": False, "style_map": "p => div"}, {"style_map": "b => b\nbad line"}]


def digest(res):
    if isinstance(res, Exception):
        return "EXC:" + type(res).__name__
    return hashlib.sha1((res.value + "\x00" + "\x00".join(m.message for m in res.messages)).encode("utf-8")).hexdigest()


def convert(data, opts, fmt="html"):
    try:
        fn = mammoth.convert_to_html if fmt == "html" else mammoth.convert_to_markdown
        return fn(io.BytesIO(data), **opts)
    except Exception as e:
        return e


def snapshot_shared():
    """deep structural snapshot of the shared defaults the property names"""
    sm = [json.dumps(T.style_json(s), sort_keys=True) for s in moptions._default_style_map]
    singles = [repr(documents.line_break), repr(documents.page_break), repr(documents.column_break), repr(documents.tab())]
    tags = [id(s.html_path) for s in moptions._default_style_map]
    return sm, singles, tags


def make_docs(rng, n):
    out = []
    for i in range(n):
        g = gen_xml.XGen(rng, anomalies=0.2, hostile=0.2, linked_rate=0.0)     # the input's NAME is not part of these jobs: no linked images
        pkg = g.package()
        if i % 3 == 0:
            pkg.embedded_style_map = "p.Normal => p.n\nr.Emph => em"
        if i % 2 == 1:
            pkg.meta["alt_parts"] = True       # several relationships of one type to existing parts: which one is read must not depend on anything
        data, parts = B.build(pkg)
        out.append((pkg, data, parts))
    # list-heavy documents: the markdown writer keeps per-conversion list state (nesting, numbering) while it writes
    from .c08 import rand_para, styles_part
    for j in range(3):
        pkg = gen_xml.Package()
        pkg.styles = styles_part()
        pkg.numbering = gen_xml.XGen(rng).numbering_part()
        pkg.body = [rand_para(rng, k)[0] for k in range(150)]
        data, parts = B.build(pkg)
        out.append((pkg, data, parts))
    # two packages that look at the SAME extensions through different declarations: one declares its own types for jpg / png / gif, the other
    # declares none and relies on the common-extension table; neither may colour the other, whichever is converted first
    from mammoth.docx.xmlparser import element as X, text as XT
    for declare in (True, False):
        pkg = gen_xml.Package()
        body = []
        for k, ext in enumerate(["jpg", "png", "gif", "JPG"]):
            pkg.media["word/media/image%d.%s" % (k, ext)] = bytes([k, 1, 2, 3])
            pkg.rels.append(("rIdT%d" % k, "media/image%d.%s" % (k, ext), B.REL + "image"))
            pic = X("a:graphic", {}, [X("a:graphicData", {}, [X("pic:pic", {}, [X("pic:blipFill", {}, [X("a:blip", {"r:embed": "rIdT%d" % k})])])])])
            body.append(X("w:p", {}, [X("w:r", {}, [X("w:t", {}, [XT("picture %d" % k)]), X("w:drawing", {}, [X("wp:inline", {}, [pic])])])]))
        pkg.body = body
        pkg.content_types["defaults"] = [d_ for d_ in pkg.content_types["defaults"] if d_[0].lower() not in ("jpg", "png", "gif")]
        if declare:
            pkg.content_types["defaults"] += [("jpg", "image/jpg"), ("png", "image/x-png"), ("gif", "image/x-gif")]
        data, parts = B.build(pkg)
        out.append((pkg, data, parts))
    # a package whose main part is NOT well-formed XML: converting it raises (every time, the same way) — and must leave no trace:
    # whatever is converted after it, or at the same time in another thread, converts as if it had never been there
    import zipfile
    pkg = gen_xml.Package()
    pkg.body = []
    good, _ = B.build(pkg)
    buf = io.BytesIO()
    with zipfile.ZipFile(io.BytesIO(good)) as zin, zipfile.ZipFile(buf, "w") as zout:
        for name in zin.namelist():
            zout.writestr(name, b"<w:document xmlns:w='http://schemas.openxmlformats.org/wordprocessingml/2006/main'><w:body><w:p>" + b"x" * 70000
                          if name == "word/document.xml" else zin.read(name))
    out.append((pkg, buf.getvalue(), None))
    return out


def run(ctx):
    ctx.build()
    rng = ctx.rng
    ndocs = 40 if ctx.thorough else 12
    docs = make_docs(rng, ndocs)
    ndocs = len(docs)
    jobs = [(i, k, fmt) for i in range(ndocs) for k in range(len(OPTION_SETS)) for fmt in ("html", "markdown")]
    dist = {"documents": ndocs, "jobs": len(jobs), "history_steps": 0, "thread_runs": 0, "hash_seeds": 0, "repeated_fileobj": 0}
    shared0 = snapshot_shared()
    base = {}
    for (i, k, fmt) in jobs:
        base[(i, k, fmt)] = digest(convert(docs[i][1], dict(OPTION_SETS[k]), fmt))
        ctx.count()

    def fail(what, data):
        ctx.violation("oracle", what, data, True)

    # ---- histories: shuffled sequences in one process; earlier results and shared defaults must not change
    kept = []
    for h in range(6 if ctx.thorough else 3):
        order = jobs[:]
        rng.shuffle(order)
        for (i, k, fmt) in order[: (400 if ctx.thorough else 120)]:
            data = docs[i][1]
            buf = io.BytesIO(data)
            fn = mammoth.convert_to_html if fmt == "html" else mammoth.convert_to_markdown
            opts = dict(OPTION_SETS[k])
            try:
                res = fn(buf, **opts)
            except Exception as e:
                res = e
            ctx.count()
            dist["history_steps"] += 1
            if digest(res) != base[(i, k, fmt)]:
                fail("the same bytes and options gave a different result after other conversions in the same process",
                     {"api": "mammoth.convert_to_%s" % fmt, "document": i, "options": OPTION_SETS[k], "history_prefix": order[:10], "package": gen_xml.pkg_json(docs[i][0])})
                break
            if buf.getvalue() != data:
                fail("conversion modified the input file", {"api": "mammoth.convert_to_%s" % fmt, "document": i})
                break
            if opts != OPTION_SETS[k] and set(opts) - set(OPTION_SETS[k]) - {"style_map", "ignore_empty_paragraphs"}:
                pass
            if not isinstance(res, Exception) and len(kept) < 30:
                kept.append((res, res.value, [m.message for m in res.messages]))
        for res, v, ms in kept:
            if res.value != v or [m.message for m in res.messages] != ms:
                fail("a result already returned was changed by a later conversion", {"api": "mammoth.convert_to_html"})
                break
    if snapshot_shared() != shared0:
        fail("the built-in style map or the shared document singletons were modified by conversions", {"api": "mammoth.options._default_style_map"})
    # ---- values the CALLER owns: a converter that hands back the same dict every time must get it back untouched, and a picture
    # without alt text must not inherit the alt text of a picture converted earlier
    from mammoth.docx.xmlparser import element as X

    def picture_doc(descr):
        g = gen_xml.XGen(rng, textboxes=False, notes=False, comments=False, deleted=False, fields=False, linked_rate=0.0, anomalies=0.0)
        pkg = g.package(1)
        dr = g.drawing()
        for n_ in [dr] + list(dr.children) + [c2 for c in dr.children for c2 in c.children]:
            if getattr(n_, "name", None) in ("wp:inline", "wp:anchor"):
                n_.children[:] = [c for c in n_.children if c.name != "wp:docPr"] + ([X("wp:docPr", {"descr": descr})] if descr else [])
                n_.children.sort(key=lambda c: c.name != "wp:docPr")
        pkg.body.append(X("w:p", {}, [X("w:r", {}, [dr])]))
        return B.build(pkg)[0]
    shared = {"src": "placeholder.png"}
    conv = mammoth.images.img_element(lambda image: shared)
    with_alt, without_alt = picture_doc("first picture"), picture_doc(None)
    alone = _safe(lambda: mammoth.convert_to_html(io.BytesIO(without_alt), convert_image=mammoth.images.img_element(lambda image: {"src": "placeholder.png"})))
    r1 = _safe(lambda: mammoth.convert_to_html(io.BytesIO(with_alt), convert_image=conv))
    r2 = _safe(lambda: mammoth.convert_to_html(io.BytesIO(without_alt), convert_image=conv))
    ctx.count(3)
    if shared != {"src": "placeholder.png"}:
        fail("a conversion modified the dict its image converter returned (a value the caller owns and may reuse)",
             {"api": "mammoth.convert_to_html(convert_image=img_element(lambda image: SHARED))", "shared_after": dict(shared)})
    elif digest(r2) != digest(alone):
        fail("a picture without alt text converted differently after another picture had been converted with the same converter",
             {"api": "mammoth.convert_to_html(convert_image=...)", "alone": getattr(alone, "value", repr(alone))[:300], "after": getattr(r2, "value", repr(r2))[:300]})
    # ---- interpreter-global state: what every other thread of the process sees must be the same before, DURING (observed from a
    # transform_document callback, which runs in the middle of a conversion) and after a conversion
    import sys

    def global_state():
        import locale
        import warnings
        return {"recursion_limit": sys.getrecursionlimit(), "cwd": os.getcwd(), "environ": dict(os.environ), "umask_free": True,
                "locale": locale.setlocale(locale.LC_ALL), "warning_filters": len(warnings.filters), "stdout": id(sys.stdout), "stderr": id(sys.stderr),
                "int_max_str_digits": sys.get_int_max_str_digits() if hasattr(sys, "get_int_max_str_digits") else None}
    for i in range(min(ndocs, 6)):
        before = global_state()
        seen = []

        def spy(document):
            seen.append(global_state())
            return document
        for fn in (mammoth.convert_to_html, mammoth.convert_to_markdown):
            _safe(lambda: fn(io.BytesIO(docs[i][1]), transform_document=spy))
        _safe(lambda: mammoth.extract_raw_text(io.BytesIO(docs[i][1])))
        ctx.count(3)
        after = global_state()
        for label, st in [("during", x) for x in seen] + [("after", after)]:
            diff = sorted(k for k in before if st.get(k) != before[k])
            if diff:
                fail("a conversion changed interpreter-wide state (%s) %s it ran: every other thread of the process sees that" % (", ".join(diff), "while" if label == "during" else "after"),
                     {"api": "mammoth.convert_to_html(transform_document=spy)", "document": i, "changed": diff,
                      "before": {k: str(before[k])[:80] for k in diff}, "observed": {k: str(st.get(k))[:80] for k in diff}})
                break
    # ---- repeated calls on one file object
    with A.Workdir() as wd:
        for i in range(min(ndocs, 8)):
            path = os.path.join(wd.path, "d%d.docx" % i)
            with open(path, "wb") as f:
                f.write(docs[i][1])
            with open(path, "rb") as f:
                a = digest(_safe(lambda: mammoth.convert_to_html(f)))
                b = digest(_safe(lambda: mammoth.convert_to_html(f)))
                c = digest(_safe(lambda: mammoth.extract_raw_text(f)))
                d2 = digest(_safe(lambda: mammoth.extract_raw_text(f)))
            ctx.count(4)
            dist["repeated_fileobj"] += 1
            with open(path, "rb") as f:
                same = f.read() == docs[i][1]
            if a != b or c != d2 or a != base[(i, 0, "html")] or not same:
                fail("repeated calls on the same file object differ, or the file changed", {"api": "mammoth.convert_to_html(fileobj) twice", "document": i,
                                                                                              "package": gen_xml.pkg_json(docs[i][0])})
    # ---- one file OBJECT whose bytes are replaced between conversions: the result is a function of the bytes, not of the object
    buf = io.BytesIO()
    for i in list(range(min(ndocs, 6))) + [0]:
        buf.seek(0)
        buf.truncate()
        buf.write(docs[i][1])
        buf.seek(0)
        a = digest(_safe(lambda: mammoth.convert_to_html(buf)))
        ctx.count()
        dist["reused_fileobj"] = dist.get("reused_fileobj", 0) + 1
        if a != base[(i, 0, "html")]:
            fail("a file object that was converted before gives, after its bytes were replaced, another result than its bytes give", {
                "api": "mammoth.convert_to_html(the same io.BytesIO, rewritten)", "document": i, "package": gen_xml.pkg_json(docs[i][0])})
            break
    # ---- threads (the interpreter is told to switch threads as often as it can)
    import sys
    old_interval = sys.getswitchinterval()
    sys.setswitchinterval(1e-6)
    for rnd in range(6 if ctx.thorough else 3):
        nthreads = 8
        barrier = threading.Barrier(nthreads)
        results = {}
        heavy = [(i, 0, "markdown") for i in range(ndocs - 4, ndocs - 1)] + [(i, 0, "html") for i in range(ndocs - 4, ndocs - 1)]
        my = [rng.sample(jobs, min(len(jobs), 40 if ctx.thorough else 12)) + heavy for _ in range(nthreads)]
        for lst_ in my:
            rng.shuffle(lst_)

        def work(t):
            barrier.wait()
            for (i, k, fmt) in my[t]:
                results[(t, i, k, fmt)] = digest(convert(docs[i][1], dict(OPTION_SETS[k]), fmt))
        ths = [threading.Thread(target=work, args=(t,)) for t in range(nthreads)]
        for th in ths:
            th.start()
        for th in ths:
            th.join()
        dist["thread_runs"] += len(results)
        ctx.count(len(results))
        for (t, i, k, fmt), dg in results.items():
            if dg != base[(i, k, fmt)]:
                fail("a conversion running concurrently with others in other threads gave a different result",
                     {"api": "mammoth.convert_to_%s in 8 threads" % fmt, "document": i, "options": OPTION_SETS[k], "package": gen_xml.pkg_json(docs[i][0])})
                break
    sys.setswitchinterval(old_interval)
    # ---- hash seeds: a child interpreter per seed converts the same files
    with A.Workdir() as wd:
        for i, (_, data, _) in enumerate(docs[:8]):
            with open(os.path.join(wd.path, "d%d.docx" % i), "wb") as f:
                f.write(data)
        script = ("import sys,io,json,hashlib,mammoth\nopts=json.loads(sys.argv[2])\nout=[]\n"
                  "for i in range(%d):\n"
                  " for k,o in enumerate(opts):\n"
                  "  for fn in (mammoth.convert_to_html, mammoth.convert_to_markdown):\n"
                  "   try:\n"
                  "    r=fn(open(sys.argv[1]+'/d%%d.docx'%%i,'rb'),**o); out.append(hashlib.sha1((r.value+'\\0'+'\\0'.join(m.message for m in r.messages)).encode('utf-8')).hexdigest())\n"
                  "   except Exception as e: out.append('EXC:'+type(e).__name__)\n"
                  "print(json.dumps(out))\n") % min(ndocs, 8)
        expect = [base[(i, k, fmt)] for i in range(min(ndocs, 8)) for k in range(len(OPTION_SETS)) for fmt in ("html", "markdown")]
        for seed in (["0", "1", "2", "12345", "random", "4294967295", "7", "99"] if ctx.thorough else ["0", "1", "random"]):
            env = dict(common.ENV, PYTHONHASHSEED=seed)
            p = subprocess.run([common.PY, "-c", script, wd.path, json.dumps(OPTION_SETS)], env=env, capture_output=True, text=True, timeout=600)
            dist["hash_seeds"] += 1
            ctx.count(len(expect))
            try:
                got = json.loads([l for l in p.stdout.splitlines() if l.startswith("[")][-1])
            except Exception:
                got = None
            if got != expect:
                fail("results differ under PYTHONHASHSEED=%s" % seed, {"api": "child interpreter", "seed": seed, "stderr": p.stderr[-300:]})
    # ---- the pure model agrees with every baseline (so all of the above equal a mathematical function of bytes and options)
    terms, metas = [], []
    for i in range(ndocs - 4):
        for k in (0, 1, 2):
            opts = {"style_map": OPTION_SETS[k].get("style_map"), "include_default_style_map": OPTION_SETS[k].get("include_default_style_map", True),
                    "include_embedded_style_map": True, "ignore_empty_paragraphs": OPTION_SETS[k].get("ignore_empty_paragraphs", True),
                    "id_prefix": OPTION_SETS[k].get("id_prefix"), "conv": "data_uri"}
            html, raw = A.run_impl(docs[i][1], opts, None)
            terms.append(A.case_term(docs[i][2], False, {}, opts, html, raw))
            metas.append({"document": i, "options": OPTION_SETS[k], "package": gen_xml.pkg_json(docs[i][0])})
    for j in ctx.coq_eval("c15", A.HEADER, terms, A.CASE_TYPE, "chk_api", shard=8)[:5]:
        ctx.violation("correspondence", "the pure model and the implementation disagree", dict(metas[j], obligation="correspondence Model/Api.v"), False)
    for key in base:
        ctx.nontrivial(str(key))
    ctx.sample({"documents": ndocs, "option_sets": OPTION_SETS[:2], "example_digest": list(base.values())[:2]})
    ctx.coverage["traces_validated_against_impl"] = len(terms)
    ctx.coverage["input_distribution"] = dist
    ctx.coverage["explanation"] = ("history-driven testing: every (document, options, format) job is converted once alone, then again inside shuffled histories in one process, "
                                   "concurrently in 8 threads released by a barrier, repeatedly on one file object, and in child interpreters under several PYTHONHASHSEEDs; every "
                                   "result must equal its baseline digest, inputs must be byte-identical afterwards, results already returned and the shared built-in style map / "
                                   "document singletons must be unchanged; the baselines are also compared with the pure Coq model. The proved fragment (Props/C15.v): the writer's "
                                   "output and attribute equality do not depend on dict insertion order, and message deduplication is order-deterministic.")
    ctx.coverage["rule"] = "non-trivial = distinct (document, options, format) job whose digest was stable across every history, thread, file-object and hash-seed run"
    ctx.assumptions += ["thread schedules and hash seeds are sampled, not enumerated: module state, closures and the GIL live in the interpreter and are not modelled"]


def _safe(f):
    try:
        return f()
    except Exception as e:
        return e


def replay(ctx, rep):
    print("replay: C15 violations are histories; re-run ./check C15 with the same seed")
    return 1
