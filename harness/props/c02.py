"""C02 — HTML output is well-formed and document strings never become markup."""
import json

from mammoth import html, writers
from mammoth.writers import html as wh

from .. import gen_html, oracle_html as O, terms as T

HEADER = """From Mammoth Require Import Html Writer WriterSpec.
Local Open Scope N_scope.
Definition chk (c : list (node str) * str) : bool :=
  str_eqb (write_html (fst c)) (snd c)
  && match lex_html (snd c) with
     | Some ts => list_eqb token_eqb ts (norm_events (events (fst c))) && balanced [] ts
     | None => false
     end.
Definition chk_esc (c : str * str) : bool := str_eqb (escape (fst c)) (snd c) && str_eqb (decode_entities (snd c)) (fst c).
"""


def write(forest):
    w = writers.writer("html")
    html.write(w, forest)
    return w.as_string()


def plain_forest(rng, budget):
    f = gen_html.rand_forest(rng, budget)
    return f


def run(ctx):
    ctx.build()
    # ---- escape
    strs = list(gen_html.HOSTILE) + [chr(c) for c in range(0, 128)]
    for i in range(3000 if ctx.thorough else 600):
        strs.append("".join(ctx.rng.choice(gen_html.HOSTILE + ["&", "<", ">", '"', "a", "&amp", "&#x3c;"])
                            for _ in range(ctx.rng.randint(0, 8))))
    eterms = []
    for x in strs:
        y = wh._escape_html(x)
        ctx.count()
        if "".join(wh._escape_html(ch) for ch in x) != y:
            ctx.violation("oracle", "_escape_html is not character-wise", {"api": "_escape_html", "input": x, "observed": y}, True)
        if any(ch in y for ch in '<>"') or O.ENT.sub("", y).count("&"):
            ctx.violation("oracle", "escaped text contains a raw special character", {"api": "_escape_html", "input": x, "observed": y}, True)
        eterms.append("(%s, %s)" % (T.s(x), T.s(y)))
    for i in ctx.coq_eval("c02e", HEADER, eterms, "str * str", "chk_esc")[:3]:
        ctx.violation("correspondence", "model escape and _escape_html disagree",
                      {"obligation": "correspondence Model/Writer.v:escape vs writers.html._escape_html", "input": strs[i]}, False)
    # ---- forests
    terms, metas = [], []
    dist = {"forests": 0, "with_void": 0, "with_hostile_attr": 0, "with_text_merge": 0}
    forests = list(gen_html.all_forests(3 if ctx.thorough else 2, gen_html.TAGS_SMALL, gen_html.LEAVES_SMALL))
    for i in range(10000 if ctx.thorough else 1200):
        forests.append(plain_forest(ctx.rng, ctx.rng.randint(1, 12)))
    for forest in forests:
        inp = [T.node_json(x) for x in forest]
        out = write(forest)
        ctx.count()
        dist["forests"] += 1
        bad = None
        try:
            parsed = O.strict_parse(out)
            exp = O.norm_forest(inp)
            if parsed != exp:
                bad = "output does not parse back to the forest that was written"
        except ValueError as e:
            bad = "output is not well-formed: %s" % e
        if " />" in out:
            dist["with_void"] += 1
        if "&quot;" in out:
            dist["with_hostile_attr"] += 1
        if any(s in out for s in ("&lt;", "&amp;", "&quot;")) and "<" in out:
            ctx.nontrivial(json.dumps(inp, sort_keys=True))
            ctx.sample({"forest": inp, "written": out})
        if bad:
            ctx.violation("oracle", bad, {"api": "mammoth.html.write + HtmlWriter", "input": inp, "observed": out}, True)
            if len(ctx.violations) > 20:
                break
        terms.append("(%s, %s)" % (T.forest(forest), T.s(out)))
        metas.append(inp)
    for i in ctx.coq_eval("c02w", HEADER, terms, "list (node str) * str", "chk")[:5]:
        ctx.violation("correspondence", "model writer and HtmlWriter disagree, or the output does not lex back",
                      {"obligation": "correspondence Model/Writer.v:write_html vs mammoth.html.write", "input": metas[i]}, False)
    ctx.coverage["traces_validated_against_impl"] = len(terms) + len(eterms)
    ctx.coverage["rule"] = ("escape: all ASCII characters + hostile strings; writer: all forests <= %d nodes + random forests with hostile text and "
                            "attribute values; each output is parsed by a strict independent tokenizer (Python) and by the Coq lexer of Proofs/WriterSpec.v; "
                            "non-trivial = distinct forest whose output contains both markup and an entity" % (3 if ctx.thorough else 2))
    ctx.coverage["input_distribution"] = dist
    ctx.assumptions += ["substitution clause through derived strings (id_prefix ++ name, '#' ++ ...) end-to-end is tested metamorphically, not proved"]


def replay(ctx, rep):
    r = rep["replay"]
    if r.get("api") == "_escape_html":
        y = wh._escape_html(r["input"])
        bad = any(ch in y for ch in '<>"')
    else:
        forest = [T.node_from_json(j) for j in r["input"]]
        out = write(forest)
        try:
            bad = O.strict_parse(out) != O.norm_forest(r["input"])
        except ValueError:
            bad = True
    print("replay:", "violated" if bad else "property holds on this input")
    return 1 if bad else 0
