"""C02 — HTML output is well-formed and document strings never become markup."""
import json

from mammoth import html, writers
from mammoth.writers import html as wh

from .. import docx_builder as B, gen_html, gen_styles, gen_xml, oracle_html as O, terms as T

HEADER = """From Mammoth Require Import Html Writer WriterSpec.
Local Open Scope N_scope.
Definition chk (c : list (node str) * str) : bool :=
  str_eqb (write_html (fst c)) (snd c)
  && match lex_html (snd c) with
     | Some ts => list_eqb token_eqb ts (norm_events (events (fst c))) && balanced [] ts
     | None => false
     end.
Definition chk_esc (c : str * str) : bool := str_eqb (escape (fst c)) (snd c) && str_eqb (decode_entities (snd c)) (fst c).
"""


def write(forest):
    w = writers.writer("html")
    html.write(w, forest)
    return w.as_string()


def plain_forest(rng, budget):
    f = gen_html.rand_forest(rng, budget)
    return f


def run(ctx):
    ctx.build()
    # ---- escape
    strs = list(gen_html.HOSTILE) + [chr(c) for c in range(0, 128)]
    for i in range(3000 if ctx.thorough else 600):
        strs.append("".join(ctx.rng.choice(gen_html.HOSTILE + ["&", "<", ">", '"', "a", "&amp", "&#x3c;"])
                            for _ in range(ctx.rng.randint(0, 8))))
    eterms = []
    for x in strs:
        y = wh._escape_html(x)
        ctx.count()
        if "".join(wh._escape_html(ch) for ch in x) != y:
            ctx.violation("oracle", "_escape_html is not character-wise", {"api": "_escape_html", "input": x, "observed": y}, True)
        if any(ch in y for ch in '<>"') or O.ENT.sub("", y).count("&"):
            ctx.violation("oracle", "escaped text contains a raw special character", {"api": "_escape_html", "input": x, "observed": y}, True)
        eterms.append("(%s, %s)" % (T.s(x), T.s(y)))
    for i in ctx.coq_eval("c02e", HEADER, eterms, "str * str", "chk_esc")[:3]:
        ctx.violation("correspondence", "model escape and _escape_html disagree",
                      {"obligation": "correspondence Model/Writer.v:escape vs writers.html._escape_html", "input": strs[i]}, False)
    # ---- forests
    terms, metas = [], []
    dist = {"forests": 0, "with_void": 0, "with_hostile_attr": 0, "with_text_merge": 0}
    forests = list(gen_html.all_forests(3 if ctx.thorough else 2, gen_html.TAGS_SMALL, gen_html.LEAVES_SMALL))
    for i in range(10000 if ctx.thorough else 1200):
        forests.append(plain_forest(ctx.rng, ctx.rng.randint(1, 12)))
    for forest in forests:
        inp = [T.node_json(x) for x in forest]
        out = write(forest)
        ctx.count()
        dist["forests"] += 1
        bad = None
        try:
            parsed = O.strict_parse(out)
            exp = O.norm_forest(inp)
            if parsed != exp:
                bad = "output does not parse back to the forest that was written"
        except ValueError as e:
            bad = "output is not well-formed: %s" % e
        if " />" in out:
            dist["with_void"] += 1
        if "&quot;" in out:
            dist["with_hostile_attr"] += 1
        if any(s in out for s in ("&lt;", "&amp;", "&quot;")) and "<" in out:
            ctx.nontrivial(json.dumps(inp, sort_keys=True))
            ctx.sample({"forest": inp, "written": out})
        if bad:
            ctx.violation("oracle", bad, {"api": "mammoth.html.write + HtmlWriter", "input": inp, "observed": out}, True)
            if len(ctx.violations) > 20:
                break
        terms.append("(%s, %s)" % (T.forest(forest), T.s(out)))
        metas.append(inp)
    for i in ctx.coq_eval("c02w", HEADER, terms, "list (node str) * str", "chk")[:5]:
        ctx.violation("correspondence", "model writer and HtmlWriter disagree, or the output does not lex back",
                      {"obligation": "correspondence Model/Writer.v:write_html vs mammoth.html.write", "input": metas[i]}, False)
    api_stream(ctx, dist)
    ctx.coverage["traces_validated_against_impl"] = len(terms) + len(eterms)
    ctx.coverage["rule"] = ("escape: all ASCII characters + hostile strings; writer: all forests <= %d nodes + random forests with hostile text and "
                            "attribute values; each output is parsed by a strict independent tokenizer (Python) and by the Coq lexer of Proofs/WriterSpec.v; "
                            "non-trivial = distinct forest whose output contains both markup and an entity" % (3 if ctx.thorough else 2))
    ctx.coverage["input_distribution"] = dist
    ctx.assumptions += ["substitution clause through derived strings (id_prefix ++ name, '#' ++ ...) end-to-end is tested metamorphically (api_stream: hostile strings vs harmless tokens), not proved"]


# ---------------------------------------------------------------- document level: strings in, strings out
HOSTILE_PREFIXES = ["", "p-", "{0}-", "{{x}}", "}{", "{", "%s%d", "\\1$1", '"<&>', "&lt;", "é\u0338", " ", "#", "a b"]


def api_doc(rng, strings):
    """A package whose DATA strings are strings[...] (a function index -> string), with fixed structure:
    returns (package, id_prefix, style map text, converter attribute values)."""
    from mammoth.docx.xmlparser import element as X, text as XT
    n = [0]

    def S():
        n[0] += 1
        return strings(n[0])
    pkg = gen_xml.Package()
    pkg.styles = [X("w:style", {"w:type": "paragraph", "w:styleId": "S1"}, [X("w:name", {"w:val": "Style One"})]),
                  X("w:style", {"w:type": "character", "w:styleId": "R1"}, [X("w:name", {"w:val": "Run One"})])]
    body = []
    for pi in range(rng.randint(1, 4)):
        kids = [X("w:pPr", {}, [X("w:pStyle", {"w:val": "S1"})])] if rng.random() < 0.5 else []
        for ri in range(rng.randint(1, 4)):
            k = rng.random()
            run = X("w:r", {}, ([X("w:rPr", {}, [X("w:rStyle", {"w:val": "R1"})])] if rng.random() < 0.4 else []) + [X("w:t", {"xml:space": "preserve"}, [XT(S())])])
            if k < 0.2:
                rid = "rIdL%d" % len(pkg.rels)
                pkg.rels.append((rid, S(), B.REL + "hyperlink"))
                kids.append(X("w:hyperlink", {"r:id": rid}, [run]))
            elif k < 0.35:
                kids.append(X("w:hyperlink", {"w:anchor": S()}, [run]))
            elif k < 0.5:
                kids += [X("w:bookmarkStart", {"w:id": str(ri), "w:name": S()}), run]
            elif k < 0.6:
                name = "media/image%d.png" % (len(pkg.media) + 1)
                pkg.media["word/" + name] = b"\x89PNG" + bytes([len(pkg.media)])
                rid = "rIdI%d" % len(pkg.rels)
                pkg.rels.append((rid, name, B.REL + "image"))
                blip = X("a:blip", {"r:embed": rid})
                pic = X("a:graphic", {}, [X("a:graphicData", {}, [X("pic:pic", {}, [X("pic:blipFill", {}, [blip])])])])
                # (some pictures have no description: they must come out without an alt attribute)
                docpr = [X("wp:docPr", {"descr": S()})] if rng.random() < 0.6 else []
                kids.append(X("w:r", {}, [X("w:drawing", {}, [X("wp:inline", {}, docpr + [pic])])]))
            elif k < 0.7:
                if pkg.footnotes is None:
                    pkg.footnotes = []
                nid = str(len(pkg.footnotes) + 2)
                pkg.footnotes.append(X("w:footnote", {"w:id": nid}, [X("w:p", {}, [X("w:r", {}, [X("w:t", {}, [XT(S())])])])]))
                kids += [run, X("w:r", {}, [X("w:footnoteReference", {"w:id": nid})])]
            else:
                kids.append(run)
        body.append(X("w:p", {}, kids))
    # two adjacent runs mapped to the same element with the same class names in ANOTHER ORDER: two attribute values, two elements
    body.append(X("w:p", {}, [X("w:r", {}, [X("w:rPr", {}, [X("w:rStyle", {"w:val": "R2"})]), X("w:t", {"xml:space": "preserve"}, [XT(S())])]),
                              X("w:r", {}, [X("w:rPr", {}, [X("w:rStyle", {"w:val": "R3"})]), X("w:t", {"xml:space": "preserve"}, [XT(S())])])]))
    pkg.styles += [X("w:style", {"w:type": "character", "w:styleId": "R2"}, [X("w:name", {"w:val": "Run Two"})]),
                   X("w:style", {"w:type": "character", "w:styleId": "R3"}, [X("w:name", {"w:val": "Run Three"})])]
    pkg.body = body
    # (the element names are the style map's, whatever HTML makes of them: script, style, textarea, title, xmp are elements like any other)
    ptag, rtag = rng.choice(["p", "p", "style", "script", "textarea", "title", "pre", "xmp"]), rng.choice(["span", "span", "script", "code", "style", "plaintext"])
    sm = "p.S1 => %s[data-x=%s].%s:fresh\nr.R1 => %s[title=%s]" % (ptag, gen_styles.esc_string(S()), "cls", rtag, gen_styles.esc_string(S()))
    sm += "\nr.R2 => i.ka.kb\nr.R3 => i.kb.ka"
    return pkg, S(), sm, (S(), S())


def skeleton_and_values(forest, vals):
    out = []
    for nd in forest:
        if "name" in nd:
            for k in sorted(nd["attrs"]):
                vals.append(nd["attrs"][k])
            out.append((nd["name"], tuple(sorted(nd["attrs"])), tuple(skeleton_and_values(nd["children"], vals))))
        else:
            vals.append(nd["text"])
            out.append("#text")
    return out


def api_stream(ctx, dist):
    """the same document twice: once with hostile strings, once with every string replaced by a distinct harmless token.
    Both outputs must be well-formed, have the same skeleton, and the values of the first must be those of the second with
    the tokens replaced back — i.e. every string decodes to exactly the original and none of it became markup."""
    import io
    import random
    import mammoth
    rng = ctx.rng
    for i in range(600 if ctx.thorough else 90):
        seed = rng.randrange(1 << 30)
        hostile = {}

        def hs(k, r=random.Random(seed ^ 0x5bd1)):
            if k not in hostile:
                v = ""
                while not v.strip() or v in hostile.values():
                    v = B.sanitize("".join(r.choice(gen_html.HOSTILE + ["q", "&#38;", "<b>", "{}", "%", "\\", "a\\b", "\\\\srv\\", "%20", "%5C", "%41", "/", "..", "+", "~", "\u2028", "?a=1", "A"]) for _ in range(r.randint(1, 3))))
                hostile[k] = v
            return hostile[k]
        token = lambda k: "Qx%dxQ" % k
        outs = []
        for strings in (hs, token):
            pkg, prefix, sm, cattrs = api_doc(random.Random(seed), strings)
            if strings is hs and rng.random() < 0.5:
                prefix = rng.choice(HOSTILE_PREFIXES)
            elif strings is token and outs and outs[0][0] in HOSTILE_PREFIXES:
                prefix = "QxPxQ"
            data, _ = B.build(pkg)

            shared_attrs = {"src": cattrs[0], "title": cattrs[1]}

            def conv(image, shared_attrs=shared_attrs):
                return shared_attrs          # the converter hands back the SAME dict for every picture: it is the caller's, not mammoth's
            try:
                res = mammoth.convert_to_html(io.BytesIO(data), style_map=sm, id_prefix=prefix, convert_image=mammoth.images.img_element(conv))
                outs.append((prefix, res.value, None))
            except Exception as e:
                outs.append((prefix, None, e))
        ctx.count()
        dist["api_documents"] = dist.get("api_documents", 0) + 1
        (hp, hv, he), (tp, tv, te) = outs
        back = dict((token(k), v) for k, v in hostile.items())
        back["QxPxQ"] = hp
        meta = {"api": "mammoth.convert_to_html", "doc_seed": seed, "id_prefix": hp, "strings": {str(k): v for k, v in sorted(hostile.items())[:12]}}
        bad = None
        if he is not None or te is not None:
            bad = "conversion raised %r" % (he or te)
        else:
            try:
                fh, ft = O.strict_parse(hv), O.strict_parse(tv)
                vh, vt = [], []
                imgs_h = []

                def find_imgs(forest):
                    for nd in forest:
                        if "name" in nd:
                            if nd["name"] == "img":
                                imgs_h.append(nd)
                            find_imgs(nd["children"])
                find_imgs(fh)
                described = []

                def find_drawings(nodes):
                    for x_ in nodes:
                        if hasattr(x_, "children"):
                            if x_.name == "wp:inline":
                                described.append(any(c.name == "wp:docPr" for c in x_.children))
                            find_drawings(x_.children)
                find_drawings(pkg.body)
                if [("alt" in nd["attrs"]) for nd in imgs_h] != described:
                    bad = "alt attributes do not follow the pictures' own descriptions: %s vs described %s" % ([nd["attrs"].get("alt") for nd in imgs_h], described)
                elif 'class="kb ka"' not in tv or 'class="ka kb"' not in tv or 'class="kb ka"' not in hv:
                    bad = "two runs mapped to <i> with the class names in different orders did not both keep their own class value"
                elif skeleton_and_values(fh, vh) != skeleton_and_values(ft, vt):
                    bad = "substituting harmless strings for the document's strings changed tags, attribute names or nesting"
                else:
                    def unsub(x):
                        for tk, orig in back.items():
                            x = x.replace(tk, orig)
                        return x
                    for a, b in zip(vh, vt):
                        if a != unsub(b):
                            bad = "a string does not decode back to the original: got %r where %r was put in" % (a[:60], unsub(b)[:60])
                            break
            except ValueError as e:
                bad = "output is not well-formed: %s" % e
        if bad:
            ctx.violation("oracle", bad, dict(meta, observed=(hv or "")[:500]), True)
            if len(ctx.violations) > 20:
                break
        else:
            ctx.nontrivial("api%d" % i)


def replay(ctx, rep):
    r = rep["replay"]
    if r.get("api") == "mammoth.convert_to_html":
        print("replay: re-run ./check C02 with VERIF_SEED=%s; document seed %s, id_prefix %r" % (ctx.seed, r.get("doc_seed"), r.get("id_prefix")))
        return 1
    if r.get("api") == "_escape_html":
        y = wh._escape_html(r["input"])
        bad = any(ch in y for ch in '<>"')
    else:
        forest = [T.node_from_json(j) for j in r["input"]]
        out = write(forest)
        try:
            bad = O.strict_parse(out) != O.norm_forest(r["input"])
        except ValueError:
            bad = True
    print("replay:", "violated" if bad else "property holds on this input")
    return 1 if bad else 0
