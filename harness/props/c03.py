"""C03 — style mappings resolve by first match, with user > embedded > default precedence."""
import json

from mammoth.docx.xmlparser import element as X, text as XT

from .. import apilevel as A, docx_builder as B, gen_xml, gen_styles as GS, oracle_html as O
from ..gen_xml import xml_json

STYLES = [("Heading1", "Heading 1"), ("Quote", "Intense Quote"), ("ListParagraph", "List Paragraph"), ("Odd", "straße Ünï"),
          ("NoName", None)]
RSTYLES = [("Strong", "Strong"), ("Emph", "Emphasis")]
TSTYLES = [("TableGrid", "Table Grid")]


def spec_matches(m, el):
    """Written from the property text: kind, style ID (exact), style name (case-insensitive equality or prefix), list level and orderedness."""
    if m["kind"] != el["kind"]:
        return False
    if m.get("style_id") is not None and m["style_id"] != el.get("style_id"):
        return False
    if m.get("style_name") is not None:
        op, v = m["style_name"]
        n = el.get("style_name")
        if n is None:
            return False
        if op == "=" and v.upper() != n.upper():
            return False
        if op == "^=" and not n.upper().startswith(v.upper()):
            return False
    if el["kind"] == "p" and m.get("list") is not None:
        ty, lvl = m["list"]
        if el.get("numbering") != (str(lvl - 1), ty == "ordered-list"):
            return False
    return True


def near_misses(rng, el):
    """matchers that match el, and decoys that differ from a matching one in exactly one feature"""
    k = el["kind"]
    ms = []
    base = {"kind": k, "style_id": None, "style_name": None, "list": None}
    ms.append(dict(base))
    if el.get("style_id"):
        ms.append(dict(base, style_id=el["style_id"]))
        ms.append(dict(base, style_id=el["style_id"] + "x"))
        ms.append(dict(base, style_id=el["style_id"].lower()))
    if el.get("style_name"):
        n = el["style_name"]
        ms.append(dict(base, style_name=("=", n.swapcase())))
        ms.append(dict(base, style_name=("^=", n[:3].upper())))
        ms.append(dict(base, style_name=("=", n[:-1])))
        ms.append(dict(base, style_name=("^=", n[1:])))
    else:
        ms.append(dict(base, style_name=("^=", "")))
    if k == "p":
        num = el.get("numbering")
        if num:
            lvl, ordered = int(num[0]) + 1, num[1]
            ms.append(dict(base, list=("ordered-list" if ordered else "unordered-list", lvl)))
            ms.append(dict(base, list=("unordered-list" if ordered else "ordered-list", lvl)))
            ms.append(dict(base, list=("ordered-list" if ordered else "unordered-list", lvl + 1)))
        else:
            ms.append(dict(base, list=("ordered-list", 1)))
    other = {"p": "r", "r": "table", "table": "p"}[k]
    ms.append(dict(base, kind=other))
    rng.shuffle(ms)
    return ms[:rng.randint(1, 6)]


def probe_element(rng, k, i):
    """returns (xml block, abstract element)"""
    text = "probe%d" % i
    run = X("w:r", {}, [X("w:t", {}, [XT(text)])])
    if k == "p":
        sid, sname = rng.choice(STYLES + [(None, None)])
        ppr = []
        el = {"kind": "p", "style_id": sid, "style_name": sname, "numbering": None, "text": text}
        if sid:
            ppr.append(X("w:pStyle", {"w:val": sid}))
        if rng.random() < 0.4:
            lvl, numid = rng.choice([0, 1, 2]), rng.choice(["1", "2"])
            ppr.append(X("w:numPr", {}, [X("w:ilvl", {"w:val": str(lvl)}), X("w:numId", {"w:val": numid})]))
            el["numbering"] = (str(lvl), {"1": [False, False, True], "2": [True, True, False]}[numid][lvl])
        elif sid == "ListParagraph":
            el["numbering"] = ("0", True)      # numbering through the paragraph style (w:pStyle in abstractNum 1, level 0, decimal)
        return X("w:p", {}, ([X("w:pPr", {}, ppr)] if ppr else []) + [run]), el
    if k == "r":
        sid, sname = rng.choice(RSTYLES + [(None, None)])
        el = {"kind": "r", "style_id": sid, "style_name": sname, "text": text}
        r = X("w:r", {}, ([X("w:rPr", {}, [X("w:rStyle", {"w:val": sid})])] if sid else []) + [X("w:t", {}, [XT(text)])])
        return X("w:p", {}, [r]), el
    sid, sname = rng.choice(TSTYLES + [(None, None)])
    el = {"kind": "table", "style_id": sid, "style_name": sname, "text": text}
    tbl = X("w:tbl", {}, ([X("w:tblPr", {}, [X("w:tblStyle", {"w:val": sid})])] if sid else []) +
            [X("w:tr", {}, [X("w:tc", {}, [X("w:p", {}, [run])])])])
    return tbl, el


def find_marker(forest, text, chain=()):
    for n in forest:
        if "name" in n:
            r = find_marker(n["children"], text, chain + ((n["name"], n["attrs"].get("class")),))
            if r is not None:
                return r
        elif text in n.get("text", ""):
            return chain
    return None


def run(ctx):
    ctx.build()
    rng = ctx.rng
    n = 1200 if ctx.thorough else 150
    terms, metas = [], []
    dist = {"cases": 0, "winner_custom": 0, "winner_embedded": 0, "winner_default_or_none": 0, "decoys": 0}
    for i in range(n):
        k = rng.choice(["p", "p", "r", "table"])
        block, el = probe_element(rng, k, i)
        ms = near_misses(rng, el)
        lines = []
        for j, m in enumerate(ms):
            tagname = {"p": "div", "r": "span", "table": "table"}[k] if m["kind"] == k else "div"
            lines.append((m, GS.print_matcher(m) + " => " + tagname + ".m%d%s" % (j, ":fresh" if k != "r" else "")))
        cut = rng.randint(0, len(lines))
        custom, embedded = lines[:cut], lines[cut:]
        incl_emb, incl_def = rng.random() < 0.8, rng.random() < 0.7
        pkg = gen_xml.Package()
        g = gen_xml.XGen(rng)
        pkg.styles = [X("w:style", {"w:type": t, "w:styleId": sid}, [X("w:name", {"w:val": nm})] if nm else [])
                      for t, tbl in (("paragraph", STYLES), ("character", RSTYLES), ("table", TSTYLES)) for sid, nm in tbl]
        pkg.numbering = g.numbering_part()
        pkg.body = [block]
        if embedded or rng.random() < 0.3:
            pkg.embedded_style_map = "\n".join(l for _, l in embedded)
        opts = {"style_map": "\n".join(l for _, l in custom) if custom or rng.random() < 0.5 else None,
                "include_default_style_map": incl_def, "include_embedded_style_map": incl_emb,
                "ignore_empty_paragraphs": True, "id_prefix": None, "conv": "data_uri"}
        data, parts = B.build(pkg)
        html, raw = A.run_impl(data, opts, None)
        ctx.count()
        dist["cases"] += 1
        # expected winner, from the property text
        active = custom + (embedded if incl_emb else [])
        winner = None
        for j, (m, _) in enumerate(active):
            if spec_matches(m, el):
                winner = ms.index(m) if False else [x for x, (mm, _) in enumerate(lines) if mm is m][0]
                break
        dist["decoys"] += sum(1 for m, _ in active if not spec_matches(m, el))
        meta = {"body": [xml_json(block)], "element": el, "expected_marker": None if winner is None else "m%d" % winner,
                "same_kind_markers": ["m%d" % x for x, (mm, _) in enumerate(lines) if mm["kind"] == k], "custom": [l for _, l in custom], "embedded": [l for _, l in embedded],
                "options": opts, "index": i}
        bad = None
        if isinstance(html, Exception):
            bad = "conversion raised %r" % html
        else:
            chain = find_marker(O.strict_parse(html.value), el["text"]) or ()
            same_kind = {"m%d" % x for x, (mm, _) in enumerate(lines) if mm["kind"] == k}
            classes = [c for _, c in chain if c in same_kind]
            if winner is not None:
                (dist.__setitem__("winner_custom", dist["winner_custom"] + 1) if winner < cut
                 else dist.__setitem__("winner_embedded", dist["winner_embedded"] + 1))
                if classes != ["m%d" % winner]:
                    bad = "expected the mapping with marker m%d to win, output carries %s" % (winner, classes)
            else:
                dist["winner_default_or_none"] += 1
                if classes:
                    bad = "no explicit or embedded mapping matches, but the output carries marker %s" % classes
                elif k == "p" and not incl_def and not any(nm == "p" for nm, _ in chain):
                    bad = "an unmatched paragraph did not become p"
        if bad:
            ctx.violation("oracle", bad, dict(meta, api="mammoth.convert_to_html", observed=None if isinstance(html, Exception) else html.value[:600]), True)
        else:
            ctx.nontrivial(i)
            if winner is not None and len(ms) > 2:
                ctx.sample({"element": el, "custom": meta["custom"], "embedded": meta["embedded"], "html": html.value[:200]})
        terms.append(A.case_term(parts, False, {}, opts, html, raw))
        metas.append(meta)
    for i in ctx.coq_eval("c03", A.HEADER, terms, A.CASE_TYPE, "chk_api", shard=15)[:5]:
        ctx.violation("correspondence", "model and implementation disagree",
                      dict(metas[i], obligation="correspondence Model/Api.v vs mammoth.convert_to_html"), False)
    ctx.coverage["traces_validated_against_impl"] = len(terms)
    ctx.coverage["input_distribution"] = dist
    ctx.coverage["rule"] = ("one probe element (paragraph / run / table with random style id, style name and numbering) and 1-6 mappings that match it or miss it "
                            "in exactly one feature, split at a random point between style_map and the embedded part, with both include flags random; the winner "
                            "predicted from the property text must be the marker class found on the probe; non-trivial = case whose prediction held")


def replay(ctx, rep):
    r = rep["replay"]
    pkg = gen_xml.Package()
    import random
    g = gen_xml.XGen(random.Random(0))
    pkg.styles = [X("w:style", {"w:type": t, "w:styleId": sid}, [X("w:name", {"w:val": nm})] if nm else [])
                  for t, tbl in (("paragraph", STYLES), ("character", RSTYLES), ("table", TSTYLES)) for sid, nm in tbl]
    pkg.numbering = g.numbering_part()
    pkg.body = [gen_xml.xml_from_json(j) for j in r["body"]]
    if r["embedded"]:
        pkg.embedded_style_map = "\n".join(r["embedded"])
    data, _ = B.build(pkg)
    html, _ = A.run_impl(data, r["options"], None)
    if isinstance(html, Exception):
        print("replay: raised", html)
        return 1
    chain = find_marker(O.strict_parse(html.value), r["element"]["text"]) or ()
    classes = [c for _, c in chain if c in r["same_kind_markers"]]
    exp = [r["expected_marker"]] if r.get("expected_marker") else []
    print("replay: expected marker", exp, "observed", classes)
    return 0 if classes == exp else 1
