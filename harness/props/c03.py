"""C03 — style mappings resolve by first match, with user > embedded > default precedence."""
import json

from mammoth.docx.xmlparser import element as X, text as XT

from .. import apilevel as A, docx_builder as B, gen_xml, gen_styles as GS, oracle_html as O
from ..gen_xml import xml_json

STYLES = [("Heading1", "Heading 1"), ("Quote", "Intense Quote"), ("ListParagraph", "List Paragraph"), ("Odd", "straße Ünï"),
          ("NoName", None), ("Meta", "C++ (listing) [1].*")]     # (a name full of characters that mean something in patterns: it is a string)
RSTYLES = [("Strong", "Strong"), ("Emph", "Emphasis")]
TSTYLES = [("TableGrid", "Table Grid")]


def spec_matches(m, el):
    """Written from the property text: kind, style ID (exact), style name (case-insensitive equality or prefix), list level and orderedness."""
    if m["kind"] != el["kind"]:
        return False
    if m.get("style_id") is not None and m["style_id"] != el.get("style_id"):
        return False
    if m.get("style_name") is not None:
        op, v = m["style_name"]
        n = el.get("style_name")
        if n is None:
            return False
        if op == "=" and v.upper() != n.upper():
            return False
        if op == "^=" and not n.upper().startswith(v.upper()):
            return False
    if el["kind"] == "p" and m.get("list") is not None:
        ty, lvl = m["list"]
        if el.get("numbering") != (str(lvl - 1), ty == "ordered-list"):
            return False
    return True


def near_misses(rng, el):
    """matchers that match el, and decoys that differ from a matching one in exactly one feature"""
    k = el["kind"]
    ms = []
    base = {"kind": k, "style_id": None, "style_name": None, "list": None}
    ms.append(dict(base))
    if el.get("style_id"):
        ms.append(dict(base, style_id=el["style_id"]))
        ms.append(dict(base, style_id=el["style_id"] + "x"))
        ms.append(dict(base, style_id=el["style_id"].lower()))
    if el.get("style_name"):
        n = el["style_name"]
        ms.append(dict(base, style_name=("=", n.swapcase())))
        ms.append(dict(base, style_name=("^=", n[:3].upper())))
        ms.append(dict(base, style_name=("=", n[:-1])))
        ms.append(dict(base, style_name=("^=", n[1:])))
        # white space counts: a name padded with a space is another name, a prefix ending in a space is a longer prefix
        ms.append(dict(base, style_name=("=", n + " ")))
        ms.append(dict(base, style_name=("=", " " + n.lower())))
        ms.append(dict(base, style_name=("^=", (n.split(" ")[0] if " " in n else n[:3]) + "  ")))
    else:
        ms.append(dict(base, style_name=("^=", "")))
    if k == "p":
        num = el.get("numbering")
        if num:
            lvl, ordered = int(num[0]) + 1, num[1]
            ms.append(dict(base, list=("ordered-list" if ordered else "unordered-list", lvl)))
            ms.append(dict(base, list=("unordered-list" if ordered else "ordered-list", lvl)))
            ms.append(dict(base, list=("ordered-list" if ordered else "unordered-list", lvl + 1)))
        else:
            ms.append(dict(base, list=("ordered-list", 1)))
    # matchers that combine two features: all must agree (right + right matches, right + wrong is a decoy)
    if el.get("style_id") and el.get("style_name"):
        ms.append(dict(base, style_id=el["style_id"], style_name=("=", el["style_name"].upper())))
        ms.append(dict(base, style_id=el["style_id"], style_name=("=", el["style_name"] + "z")))
        ms.append(dict(base, style_id=el["style_id"] + "q", style_name=("^=", el["style_name"][:2])))
    if k == "p" and (el.get("style_id") or el.get("style_name")):
        feats = ([{"style_id": el["style_id"]}] if el.get("style_id") else []) + \
                ([{"style_name": ("=", el["style_name"])}, {"style_name": ("^=", el["style_name"][:3])}] if el.get("style_name") else [])
        feat = rng.choice(feats)
        num = el.get("numbering")
        if num:
            lvl, ordered = int(num[0]) + 1, num[1]
            ms.append(dict(base, list=("ordered-list" if ordered else "unordered-list", lvl), **feat))
            ms.append(dict(base, list=("unordered-list" if ordered else "ordered-list", lvl), **feat))
            ms.append(dict(base, list=("ordered-list" if ordered else "unordered-list", lvl + 2), **feat))
        else:
            ms.append(dict(base, list=("unordered-list", 1), **feat))
            ms.append(dict(base, list=("ordered-list", 2), **feat))
    other = {"p": "r", "r": "table", "table": "p"}[k]
    ms.append(dict(base, kind=other))
    rng.shuffle(ms)
    return ms[:rng.randint(1, 6)]


def probe_element(rng, k, i):
    """returns (xml block, abstract element)"""
    text = "probe%d" % i
    run = X("w:r", {}, [X("w:t", {}, [XT(text)])])
    if k == "p":
        sid, sname = rng.choice(STYLES + [(None, None)])
        ppr = []
        el = {"kind": "p", "style_id": sid, "style_name": sname, "numbering": None, "text": text}
        if sid:
            ppr.append(X("w:pStyle", {"w:val": sid}))
        if rng.random() < 0.4:
            lvl, numid = rng.choice([0, 1, 2]), rng.choice(["1", "2"])
            if rng.random() < 0.25:
                lvl, numid = 5, "1"        # the sixth level of abstractNum 0 (a numbered format): deeper than any default mapping
            ppr.append(X("w:numPr", {}, [X("w:ilvl", {"w:val": str(lvl)}), X("w:numId", {"w:val": numid})]))
            el["numbering"] = (str(lvl), {"1": [False, False, True, True, False, True], "2": [True, True, False]}[numid][lvl])
        elif sid == "ListParagraph":
            el["numbering"] = ("0", True)      # numbering through the paragraph style (w:pStyle in abstractNum 1, level 0, decimal)
        return X("w:p", {}, ([X("w:pPr", {}, ppr)] if ppr else []) + [run]), el
    if k == "r":
        sid, sname = rng.choice(RSTYLES + [(None, None)])
        el = {"kind": "r", "style_id": sid, "style_name": sname, "text": text}
        r = X("w:r", {}, ([X("w:rPr", {}, [X("w:rStyle", {"w:val": sid})])] if sid else []) + [X("w:t", {}, [XT(text)])])
        return X("w:p", {}, [r]), el
    sid, sname = rng.choice(TSTYLES + [(None, None)])
    el = {"kind": "table", "style_id": sid, "style_name": sname, "text": text}
    tbl = X("w:tbl", {}, ([X("w:tblPr", {}, [X("w:tblStyle", {"w:val": sid})])] if sid else []) +
            [X("w:tr", {}, [X("w:tc", {}, [X("w:p", {}, [run])])])])
    return tbl, el


def find_marker(forest, text, chain=()):
    for n in forest:
        if "name" in n:
            r = find_marker(n["children"], text, chain + ((n["name"], n["attrs"].get("class")),))
            if r is not None:
                return r
        elif text in n.get("text", ""):
            return chain
    return None


def run(ctx):
    ctx.build()
    rng = ctx.rng
    n = 1200 if ctx.thorough else 150
    terms, metas = [], []
    dist = {"cases": 0, "winner_custom": 0, "winner_embedded": 0, "winner_default_or_none": 0, "decoys": 0}
    for i in range(n):
        k = rng.choice(["p", "p", "r", "table"])
        block, el = probe_element(rng, k, i)
        ms = near_misses(rng, el)
        bare = i < 4
        if bare:
            # dedicated: NO mapping anywhere - no explicit map (absent or empty), no embedded map, the defaults switched off: whatever the
            # paragraph's style or numbering, it becomes a plain p
            k = "p"
            sid, sname = [("Heading1", "Heading 1"), ("ListParagraph", "List Paragraph"), (None, None), ("Quote", "Intense Quote")][i]
            ppr_ = ([X("w:pStyle", {"w:val": sid})] if sid else []) + ([X("w:numPr", {}, [X("w:ilvl", {"w:val": "0"}), X("w:numId", {"w:val": "1"})])] if i == 2 else [])
            block = X("w:p", {}, [X("w:pPr", {}, ppr_), X("w:r", {}, [X("w:t", {}, [XT("probe%d" % i)])])])
            el = {"kind": "p", "style_id": sid, "style_name": sname, "numbering": ("0", False) if i == 2 else (("0", True) if sid == "ListParagraph" else None), "text": "probe%d" % i}
            ms = []
        lines = []
        bang = set()       # indices of mappings whose path is `!`: the matched element disappears WITH its contents
        with_note = (k == "r" and rng.random() < 0.5)
        for j, m in enumerate(ms):
            tagname = {"p": "div", "r": "span", "table": "table"}[k] if m["kind"] == k else "div"
            if with_note and m["kind"] == k and rng.random() < 0.4:
                bang.add(j)
                lines.append((m, GS.print_matcher(m) + " => !"))
            else:
                lines.append((m, GS.print_matcher(m) + " => " + tagname + ".m%d%s" % (j, ":fresh" if k != "r" else "")))
        cut = rng.randint(0, len(lines))
        custom, embedded = lines[:cut], lines[cut:]
        incl_emb, incl_def = rng.random() < 0.8, rng.random() < 0.7
        if bare:
            incl_def = False
        pkg = gen_xml.Package()
        g = gen_xml.XGen(rng)
        pkg.styles = [X("w:style", {"w:type": t, "w:styleId": sid}, [X("w:name", {"w:val": nm})] if nm else [])
                      for t, tbl in (("paragraph", STYLES), ("character", RSTYLES), ("table", TSTYLES)) for sid, nm in tbl]
        pkg.numbering = g.numbering_part()
        # a SIBLING before the probe: same kind and style, different numbering — every element is matched on its own features
        sib = None
        if k == "p" and rng.random() < 0.6 and not bare:
            ppr0 = [X("w:pStyle", {"w:val": el["style_id"]})] if el["style_id"] else []
            choices = [(lv, nid) for lv in (0, 1, 2) for nid in ("1", "2")]
            table = {"1": [False, False, True], "2": [True, True, False]}
            choices = [(lv, nid) for lv, nid in choices if (str(lv), table[nid][lv]) != el["numbering"]]
            if el["numbering"] is not None and el["style_id"] != "ListParagraph" and rng.random() < 0.4:
                num0 = None
            else:
                lv, nid = rng.choice(choices)
                ppr0.append(X("w:numPr", {}, [X("w:ilvl", {"w:val": str(lv)}), X("w:numId", {"w:val": nid})]))
                num0 = (str(lv), table[nid][lv])
            el0 = dict(el, numbering=num0, text="first%d" % i)
            sib = (X("w:p", {}, ([X("w:pPr", {}, ppr0)] if ppr0 else []) + [X("w:r", {}, [X("w:t", {}, [XT(el0["text"])])])]), el0)
            dist["with_sibling"] = dist.get("with_sibling", 0) + 1
        pkg.body = ([sib[0]] if sib else []) + [block]
        if with_note:
            # the probe run also holds a footnote reference: under a `!` mapping neither the marker nor the note may appear
            block.children[0].children.append(X("w:footnoteReference", {"w:id": "2"}))
            pkg.footnotes = [X("w:footnote", {"w:id": "2"}, [X("w:p", {}, [X("w:r", {}, [X("w:t", {}, [XT("notebody%d" % i)])])])])]
        if (embedded or rng.random() < 0.3) and not (bare and i % 2 == 0):
            pkg.embedded_style_map = "\n".join(l for _, l in embedded)
        opts = {"style_map": "\n".join(l for _, l in custom) if custom or rng.random() < 0.5 else None,
                "include_default_style_map": incl_def, "include_embedded_style_map": incl_emb,
                "ignore_empty_paragraphs": True, "id_prefix": None, "conv": "data_uri"}
        data, parts = B.build(pkg)
        html, raw = A.run_impl(data, opts, None)
        ctx.count()
        dist["cases"] += 1
        # expected winner, from the property text — for the probe and for its sibling
        active = custom + (embedded if incl_emb else [])
        same_kind = {"m%d" % x for x, (mm, _) in enumerate(lines) if mm["kind"] == k}
        dist["decoys"] += sum(1 for m, _ in active if not spec_matches(m, el))

        def winner_of(e):
            for m, _ in active:
                if spec_matches(m, e):
                    return [x for x, (mm, _) in enumerate(lines) if mm is m][0]
            return None
        winner = winner_of(el)
        elements = ([sib[1]] if sib else []) + [el]
        meta = {"body": [xml_json(b) for b in pkg.body], "element": el, "expected_marker": None if winner is None else "m%d" % winner,
                "elements": [dict(e, numbering=list(e["numbering"]) if e.get("numbering") else None,
                                  expected_marker=None if winner_of(e) is None else "m%d" % winner_of(e),
                                  dropped=(winner_of(e) in bang)) for e in elements],
                "footnotes": [xml_json(x) for x in (pkg.footnotes or [])],
                "same_kind_markers": sorted(same_kind), "custom": [l for _, l in custom], "embedded": [l for _, l in embedded],
                "options": opts, "index": i}
        bad = None
        if isinstance(html, Exception):
            bad = "conversion raised %r" % html
        else:
            forest = O.strict_parse(html.value)
            for e in elements:
                w = winner_of(e)
                chain = find_marker(forest, e["text"]) or ()
                classes = [c for _, c in chain if c in same_kind]
                if w is not None and w in bang:
                    txt = O.text_of_parsed(forest)
                    if e["text"] in txt or "notebody" in txt or "footnote-2" in html.value:
                        bad = "%s: a `!` mapping wins, but the element or something it contains (text, note marker, note) is in the output" % e["text"]
                elif w is not None:
                    if e is el:
                        (dist.__setitem__("winner_custom", dist["winner_custom"] + 1) if w < cut
                         else dist.__setitem__("winner_embedded", dist["winner_embedded"] + 1))
                    if classes != ["m%d" % w]:
                        bad = "%s: expected the mapping with marker m%d to win, output carries %s" % (e["text"], w, classes)
                else:
                    if e is el:
                        dist["winner_default_or_none"] += 1
                    if classes:
                        bad = "%s: no explicit or embedded mapping matches, but the output carries marker %s" % (e["text"], classes)
                    elif k == "p" and not any(nm == "p" for nm, _ in chain) and (
                            not incl_def or (e.get("numbering") and int(e["numbering"][0]) >= 5 and e.get("style_id") != "Heading1")):
                        # (with the defaults in force the same holds for a list level below every default list mapping)
                        bad = "%s: an unmatched paragraph did not become p" % e["text"]
                if bad:
                    break
        if bad:
            ctx.violation("oracle", bad, dict(meta, api="mammoth.convert_to_html", observed=None if isinstance(html, Exception) else html.value[:600]), True)
        else:
            ctx.nontrivial(i)
            if winner is not None and len(ms) > 2:
                ctx.sample({"element": el, "custom": meta["custom"], "embedded": meta["embedded"], "html": html.value[:200]})
        terms.append(A.case_term(parts, False, {}, opts, html, raw))
        metas.append(meta)
    for i in ctx.coq_eval("c03", A.HEADER, terms, A.CASE_TYPE, "chk_api", shard=15)[:5]:
        ctx.violation("correspondence", "model and implementation disagree",
                      dict(metas[i], obligation="correspondence Model/Api.v vs mammoth.convert_to_html"), False)
    ctx.coverage["traces_validated_against_impl"] = len(terms)
    ctx.coverage["input_distribution"] = dist
    ctx.coverage["rule"] = ("one probe element (paragraph / run / table with random style id, style name and numbering) and 1-6 mappings that match it or miss it "
                            "in exactly one feature, split at a random point between style_map and the embedded part, with both include flags random; the winner "
                            "predicted from the property text must be the marker class found on the probe; non-trivial = case whose prediction held")


def replay(ctx, rep):
    r = rep["replay"]
    pkg = gen_xml.Package()
    import random
    g = gen_xml.XGen(random.Random(0))
    pkg.styles = [X("w:style", {"w:type": t, "w:styleId": sid}, [X("w:name", {"w:val": nm})] if nm else [])
                  for t, tbl in (("paragraph", STYLES), ("character", RSTYLES), ("table", TSTYLES)) for sid, nm in tbl]
    pkg.numbering = g.numbering_part()
    pkg.body = [gen_xml.xml_from_json(j) for j in r["body"]]
    if r.get("footnotes"):
        pkg.footnotes = [gen_xml.xml_from_json(j) for j in r["footnotes"]]
    if r["embedded"]:
        pkg.embedded_style_map = "\n".join(r["embedded"])
    data, _ = B.build(pkg)
    html, _ = A.run_impl(data, r["options"], None)
    if isinstance(html, Exception):
        print("replay: raised", html)
        return 1
    forest = O.strict_parse(html.value)
    rc = 0
    for e in r.get("elements") or [dict(r["element"], expected_marker=r.get("expected_marker"))]:
        if e.get("dropped"):
            txt = O.text_of_parsed(forest)
            gone = e["text"] not in txt and "notebody" not in txt and "footnote-2" not in html.value
            print("replay:", e["text"], "dropped with its contents:", gone)
            if not gone:
                rc = 1
            continue
        chain = find_marker(forest, e["text"]) or ()
        classes = [c for _, c in chain if c in r["same_kind_markers"]]
        exp = [e["expected_marker"]] if e.get("expected_marker") else []
        print("replay:", e["text"], "expected marker", exp, "observed", classes)
        if classes != exp:
            rc = 1
    return rc
