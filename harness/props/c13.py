"""C13 — conversion depends on what the package says, not on how it spells it."""
import io
import os
import zipfile

import mammoth

from .. import apilevel as A, docx_builder as B, gen_xml
from ..gen_xml import xml_json

MAPS = [None, "p.Quote => blockquote > p:fresh\ncomment-reference => sup", "r.Strong => strong\nb => b"]
REWRITES = ["strict", "rename_prefixes", "default_ns", "nested_default_ns", "declaration", "encoding", "bom", "cdata", "charrefs", "comments",
            "pis", "whitespace", "zip_order", "compression", "rename_parts", "noise", "stale_parts"]


def insert_noise(rng, nodes, depth=0):
    """insert elements Word writes but the converter deliberately ignores, and revision attributes"""
    from mammoth.docx.xmlparser import XmlElement, element as X
    out = []
    for n in nodes:
        if isinstance(n, XmlElement):
            kids = n.children
            if n.name in ("w:p", "w:r", "w:tc", "w:tbl", "w:tr", "w:body", "w:hyperlink", "w:sdtContent", "w:txbxContent", "w:ins", "w:smartTag"):
                kids = insert_noise(rng, kids, depth + 1)
            elif n.name not in ("w:t", "w:instrText", "w:delText"):
                kids = insert_noise(rng, kids, depth + 1) if n.name in ("w:drawing", "w:pict", "v:shape", "v:textbox", "mc:AlternateContent", "mc:Fallback", "w:sdt") else kids
            attrs = dict(n.attributes)
            if n.name in ("w:p", "w:r", "w:tr") and rng.random() < 0.3:
                attrs["w:rsidR"] = "00C0FFEE"
                attrs["w:rsidRPr"] = "00ABCDEF"
            n = XmlElement(n.name, attrs, kids)
            if depth > 0 and rng.random() < 0.15 and n.name in ("w:p", "w:r", "w:tc", "w:tr", "w:hyperlink", "w:tbl"):
                out.append(X(rng.choice(["w:proofErr", "w:lastRenderedPageBreak", "w:bookmarkEnd", "w:commentRangeStart",
                                         "w:commentRangeEnd"] + (["w:sectPr"] if n.name in ("w:p", "w:tbl") else [])),
                             {"w:id": "77"}))
        out.append(n)
    return out


def spelling_for(rng, chosen):
    kw = {"rng": rng}
    for r in chosen:
        if r == "declaration":
            kw["declaration"] = rng.choice(["plain", "none"])
        elif r == "encoding":
            kw["encoding"] = rng.choice(["utf-16", "UTF-8"])
        elif r == "zip_order":
            kw["zip_order"] = rng.choice(["reversed", "shuffled"])
        elif r == "compression":
            kw["compression"] = zipfile.ZIP_STORED
        else:
            kw[r] = True
    if kw.get("encoding", "utf-8").lower() == "utf-16":
        kw.pop("bom", None)
        if kw.get("declaration") == "none":
            kw["declaration"] = "plain"
    return B.Spelling(**kw)


def run(ctx):
    ctx.build()
    rng = ctx.rng
    n = 900 if ctx.thorough else 90
    terms, metas = [], []
    dist = {"packages": 0, "variants": 0, "rewrites": {r: 0 for r in REWRITES}}
    with A.Workdir() as wd:
        for i in range(n):
            g = gen_xml.XGen(rng, anomalies=0.2, optional_absent=0.1, hostile=0.35)
            pkg = g.package()
            if rng.random() < 0.35:
                # both checkbox kinds in one part: the same local names in two namespaces (w:checked / wordml:checked)
                from mammoth.docx.xmlparser import element as X, text as XT
                def cbs(v1, v2):
                    return X("w:p", {}, [
                        X("w:r", {}, [X("w:fldChar", {"w:fldCharType": "begin"}, [X("w:ffData", {}, [X("w:checkBox", {}, [X("w:checked", {"w:val": v1})])])])]),
                        X("w:r", {}, [X("w:instrText", {}, [XT(" FORMCHECKBOX ")])]),
                        X("w:r", {}, [X("w:fldChar", {"w:fldCharType": "end"})]),
                        X("w:sdt", {}, [X("w:sdtPr", {}, [X("wordml:checkbox", {}, [X("wordml:checked", {"wordml:val": v2})])]), X("w:sdtContent", {}, [])])])
                pkg.body.insert(rng.randint(0, len(pkg.body)), cbs(rng.choice(["0", "1"]), rng.choice(["0", "1"])))
            if rng.random() < 0.3:
                pkg.embedded_style_map = "p.Normal => p.normal\nr.Emph => em"
            opts = {"style_map": rng.choice(MAPS), "include_default_style_map": True, "include_embedded_style_map": True,
                    "ignore_empty_paragraphs": rng.random() < 0.8, "id_prefix": rng.choice([None, "x-"]), "conv": "data_uri"}
            d = os.path.join(wd.path, "c%d" % i)
            os.makedirs(d)
            linked = A.linked_outcomes(pkg, None)
            base_data, base_parts = B.build(pkg, B.Spelling(rng=rng))
            base_html, base_raw = A.run_impl(base_data, opts, None)
            dist["packages"] += 1
            ctx.count()
            for v in range(3 if ctx.thorough else 2):
                k = rng.choice([1, 1, 2, 3, 5, len(REWRITES)])
                chosen = rng.sample(REWRITES, k)
                sp = spelling_for(rng, chosen)
                pkg2 = pkg
                if "noise" in chosen:
                    import copy
                    pkg2 = copy.copy(pkg)
                    pkg2.body = insert_noise(rng, pkg.body, 1)
                data, parts = B.build(pkg2, sp)
                html, raw = A.run_impl(data, opts, None)
                ctx.count()
                dist["variants"] += 1
                for r in chosen:
                    dist["rewrites"][r] += 1
                same = (not isinstance(html, Exception) and not isinstance(base_html, Exception)
                        and html.value == base_html.value and [m.message for m in html.messages] == [m.message for m in base_html.messages]
                        and not isinstance(raw, Exception) and not isinstance(base_raw, Exception) and raw.value == base_raw.value) \
                    or (isinstance(html, Exception) and isinstance(base_html, Exception))
                meta = {"package": gen_xml.pkg_json(pkg), "body": [xml_json(x) for x in pkg.body], "options": opts, "rewrites": chosen, "index": i}
                if not same:
                    what = "a meaning-preserving rewrite of the package (%s) changed the result" % ",".join(chosen)
                    ctx.violation("oracle", what, dict(meta, api="mammoth.convert_to_html",
                                                       base=None if isinstance(base_html, Exception) else base_html.value[:400],
                                                       variant=repr(html)[:200] if isinstance(html, Exception) else html.value[:400]), True)
                else:
                    ctx.nontrivial((i, v))
                    if len(chosen) >= 3:
                        ctx.sample({"rewrites": chosen, "html": (html.value if not isinstance(html, Exception) else repr(html))[:160]})
                terms.append(A.case_term(parts, False, linked, opts, html, raw))
                metas.append(meta)
            terms.append(A.case_term(base_parts, False, linked, opts, base_html, base_raw))
            metas.append({"body": [xml_json(x) for x in pkg.body], "options": opts, "rewrites": [], "index": i})
    # a LARGE, highly repetitive document (deflate shrinks it several hundred times): stored vs deflated, usual vs reversed entry order
    from mammoth.docx.xmlparser import element as X, text as XT
    bulk = gen_xml.Package()
    row = X("w:tr", {}, [X("w:tc", {}, [X("w:p", {}, [X("w:r", {}, [X("w:t", {}, [XT("cell")])])])]) for _ in range(4)])
    bulk.body = [X("w:tbl", {}, [X("w:tblPr"), X("w:tblGrid")] + [row] * (3000 if ctx.thorough else 1000))]
    outs = []
    for comp, order in ((zipfile.ZIP_DEFLATED, "normal"), (zipfile.ZIP_STORED, "normal"), (zipfile.ZIP_DEFLATED, "reversed"), (zipfile.ZIP_STORED, "reversed")):
        data, _ = B.build(bulk, B.Spelling(rng=rng, compression=comp, zip_order=order))
        try:
            h = mammoth.convert_to_html(io.BytesIO(data))
            t = mammoth.extract_raw_text(io.BytesIO(data))
            outs.append((len(data), h.value, [m.message for m in h.messages], t.value))
        except Exception as e:
            outs.append((len(data), "raised %r" % e, None, None))
        ctx.count()
    dist["bulk_variants"] = len(outs)
    if any(o[1:] != outs[0][1:] for o in outs):
        ctx.violation("oracle", "zip compression / entry order changed the result of a large repetitive document: %s" % [(o[0], str(o[1])[:60]) for o in outs],
                      {"api": "mammoth.convert_to_html", "document": "one table of %d identical rows" % (len(bulk.body[0].children) - 2), "rewrites": ["compression", "zip_order"]}, True)
    for i in ctx.coq_eval("c13", A.HEADER, terms, A.CASE_TYPE, "chk_api", shard=12)[:5]:
        ctx.violation("correspondence", "model and implementation disagree on a rewritten package",
                      dict(metas[i], obligation="correspondence Model/Api.v + Model/Dom.v vs mammoth.convert_to_html"), False)
    ctx.coverage["traces_validated_against_impl"] = len(terms)
    ctx.coverage["input_distribution"] = dist
    ctx.coverage["rule"] = ("each generated package is serialised canonically and under random compositions of the listed rewrites (Strict namespaces, renamed "
                            "prefixes, default namespace, XML declaration/encoding/BOM, CDATA, character references, comments, PIs, inter-element whitespace, zip "
                            "order/compression, renamed parts, ignored elements and revision attributes); value and messages must be identical; non-trivial = variant "
                            "that converted identically to its canonical package")
    ctx.assumptions += ["expat's lexical layer (declaration, encoding, BOM, character references, entity handling) and zipfile are runtime: exercised by the "
                        "metamorphic suite only; the model starts from the DOM"]


def replay(ctx, rep):
    import random
    r = rep["replay"]
    if "package" not in r:
        print("replay: the bulk document (%s) is rebuilt by ./check C13 itself; re-run the check" % r.get("document"))
        return 1
    pkg = gen_xml.pkg_from_json(r["package"])
    rng = random.Random(1)
    base, _ = B.build(pkg, B.Spelling(rng=rng))
    bad = False
    for _ in range(20):
        data, _ = B.build(pkg, spelling_for(rng, r["rewrites"]))
        a, _ = A.run_impl(base, r["options"], None)
        b, _ = A.run_impl(data, r["options"], None)
        if isinstance(a, Exception) != isinstance(b, Exception) or (not isinstance(a, Exception) and a.value != b.value):
            bad = True
    print("replay:", "violated" if bad else "property holds on this input")
    return 1 if bad else 0
