"""C01 — all live document text reaches the output exactly once, in order."""
import html as pyhtml
import re

from .. import apilevel as A, docx_builder as B, gen_xml, livetext, oracle_html as O
from ..gen_xml import xml_json

MAPS = [(None, (), (), False),
        ("p.Quote => blockquote > p:fresh\ncomment-reference => sup", (), (), True),
        ("p.Quote => !\nr.Emph => !", ("Quote",), ("Emph",), False),
        ("p.Heading1 => h1.title\nr.Strong => b\ncomment-reference => span.c\np.Normal => !", ("Normal",), (), True),
        ("b => b\ni => i\nu => u\nstrike => del\np => div", (), (), False),
        # text mapped onto elements that are void only when EMPTY (hr, input, br, img): their text is live text like any other
        ("p.Quote => hr:fresh\nr.Emph => input.key\np.Heading1 => br\nr.Strong => img.x", (), (), False)]
TAG = re.compile(r"<[^>]*>")
LIVE_HEADER = """From Mammoth Require Import LiveSpec EndToEndSpec NotesSpec RawSpec CommentsSpec.
Definition src_of (c : list (str * dpart) * bool * list (str * img_src) * api_opts * option (str * list str) * option (str * list str)) : source :=
  let '(parts, named, linked, a, _, _) := c in mkSource (package_of parts) named linked.
Definition chk_live c := live_agrees (src_of c).
Definition chk_live_domain c := in_live_domain (src_of c).
Definition opts_of (c : list (str * dpart) * bool * list (str * img_src) * api_opts * option (str * list str) * option (str * list str)) : api_opts :=
  let '(_, _, _, a, _, _) := c in a.
Definition chk_e2e c := e2e_agrees (src_of c) (opts_of c).
Definition chk_e2e_domain c := e2e_in_domain (src_of c) (opts_of c).
Definition chk_notes c := notes_agree (src_of c).
Definition chk_notes_domain c := notes_domain (src_of c).
Definition chk_raw c := raw_agrees (src_of c).
Definition chk_raw_domain c := in_raw_domain (src_of c).
Definition chk_full c := full_text_agrees (src_of c) (opts_of c).
Definition chk_full_domain c := full_text_in_domain (src_of c) (opts_of c).
Definition chk_cmts c := comments_agree (src_of c).
"""


def html_text(s):
    return pyhtml.unescape(TAG.sub("", s))


def run(ctx):
    ctx.build()
    rng = ctx.rng
    n = 2500 if ctx.thorough else 220
    terms, metas = [], []
    dist = {"packages": 0, "with_textbox": 0, "with_deleted_paragraph": 0, "with_fields": 0, "with_notes": 0, "with_ignore_mapping": 0,
            "text_lengths": {}}
    for i in range(n):
        g = gen_xml.XGen(rng, anomalies=0.15, hostile=0.3, images=(i % 4 == 0), dangling=0.0, alt_no_fallback=0.5)
        pkg = g.package()
        sm, ip, ir, con = MAPS[i % len(MAPS)]
        if i % 6 == 1:
            # alternate content WITHOUT a fallback, at run level and at block level: none of its choices is live text
            from mammoth.docx.xmlparser import element as X, text as XT
            ch = lambda kids: X("mc:AlternateContent", {}, [X("mc:Choice", {"Requires": "wps"}, kids), X("mc:Choice", {"Requires": "wpg"}, kids)])
            pkg.body.append(X("w:p", {}, [X("w:r", {}, [X("w:t", {}, [XT("before")])]),
                                          ch([X("w:r", {}, [X("w:t", {}, [XT("choice only")])])]),
                                          X("w:r", {}, [ch([X("w:t", {}, [XT("choice in run")])]), X("w:t", {}, [XT("after")])])]))
            pkg.body.append(ch([X("w:p", {}, [X("w:r", {}, [X("w:t", {}, [XT("choice block")])])])]))
            pkg.body.append(X("w:p", {}, [X("w:r", {}, [X("w:t", {}, [XT("end")])])]))
        if ir:
            # a run under a `!` mapping that holds a note reference, followed by a live run with another: the ignored run takes its
            # marker AND its note with it, and the live marker keeps the number reading order gives it
            from mammoth.docx.xmlparser import element as X, text as XT
            ids = [int(n.attributes.get("w:id", "0")) for n in (pkg.footnotes or [])]
            a, b = str(max(ids + [1]) + 1), str(max(ids + [1]) + 2)
            pkg.footnotes = list(pkg.footnotes or []) + [
                X("w:footnote", {"w:id": a}, [X("w:p", {}, [X("w:r", {}, [X("w:t", {}, [XT("note of the ignored run")])])])]),
                X("w:footnote", {"w:id": b}, [X("w:p", {}, [X("w:r", {}, [X("w:t", {}, [XT("live note")])])])])]
            pkg.body.append(X("w:p", {}, [
                X("w:r", {}, [X("w:rPr", {}, [X("w:rStyle", {"w:val": ir[0]})]), X("w:t", {}, [XT("ignored")]), X("w:footnoteReference", {"w:id": a})]),
                X("w:r", {}, [X("w:t", {}, [XT("visible")]), X("w:footnoteReference", {"w:id": b})])]))
        opts = {"style_map": sm, "include_default_style_map": rng.random() < 0.8, "include_embedded_style_map": True,
                "ignore_empty_paragraphs": rng.random() < 0.7, "id_prefix": rng.choice([None, "p-"]), "conv": "no_open"}
        data, parts = B.build(pkg)
        html, raw = A.run_impl(data, opts, None)
        ctx.count()
        dist["packages"] += 1
        body_txt = repr([xml_json(x) for x in pkg.body])
        for key, needle in (("with_textbox", "txbxContent"), ("with_deleted_paragraph", "'w:del', 'a': {'w:author'"), ("with_fields", "fldChar")):
            if needle in body_txt:
                dist[key] += 1
        if g.note_ids["footnote"] or g.note_ids["endnote"]:
            dist["with_notes"] += 1
        if ip or ir:
            dist["with_ignore_mapping"] += 1
        meta = {"package": gen_xml.pkg_json(pkg), "body": [xml_json(x) for x in pkg.body], "options": opts, "index": i,
                "footnotes": [xml_json(x) for x in (pkg.footnotes or [])], "endnotes": [xml_json(x) for x in (pkg.endnotes or [])],
                "comments": [xml_json(x) for x in (pkg.comments or [])], "ignored": [list(ip), list(ir), con]}
        bad = None
        if isinstance(html, Exception) or isinstance(raw, Exception):
            bad = "conversion raised %r" % (html if isinstance(html, Exception) else raw)
        else:
            lt = livetext.LiveText(pkg, ip, ir, con)
            exp = B.sanitize(lt.html_text())
            got = html_text(html.value)
            if got != exp:
                k = next((j for j, (a, b) in enumerate(zip(got, exp)) if a != b), min(len(got), len(exp)))
                bad = "HTML text differs from the live text at offset %d: got %r, expected %r" % (k, got[max(0, k - 20):k + 30], exp[max(0, k - 20):k + 30])
            else:
                exp_raw = B.sanitize(lt.raw_text())
                if raw.value != exp_raw:
                    k = next((j for j, (a, b) in enumerate(zip(raw.value, exp_raw)) if a != b), min(len(raw.value), len(exp_raw)))
                    bad = "raw text differs at offset %d: got %r, expected %r" % (k, raw.value[max(0, k - 20):k + 30], exp_raw[max(0, k - 20):k + 30])
            L = len(exp) // 50 * 50
            dist["text_lengths"][L] = dist["text_lengths"].get(L, 0) + 1
        if bad:
            ctx.violation("oracle", bad, dict(meta, api="mammoth.convert_to_html / extract_raw_text"), True)
            if len(ctx.violations) > 12:
                break
        elif len(exp) > 20:
            ctx.nontrivial(i)
            if "[1]" in exp:
                ctx.sample({"live_text": exp[:200], "html": html.value[:200]})
        terms.append(A.case_term(parts, False, {}, opts, html, raw))
        metas.append(meta)
    for i in ctx.coq_eval("c01", A.HEADER + LIVE_HEADER, terms, A.CASE_TYPE, "chk_api", shard=12, more=("chk_live", "chk_live_domain", "chk_e2e", "chk_e2e_domain", "chk_notes", "chk_notes_domain", "chk_raw", "chk_raw_domain", "chk_full", "chk_full_domain", "chk_cmts"))[:5]:
        ctx.violation("correspondence", "model and implementation disagree",
                      dict(metas[i], obligation="correspondence Model/Api.v vs mammoth.convert_to_html / extract_raw_text"), False)
    # the reader-half theorem's statement, evaluated: items of what the model reader returns = the Coq live-text specification
    for i in ctx.more_bad["chk_live"][:5]:
        ctx.violation("proof", "the elements the reader returns do not carry the live items of the body (Proofs/LiveSpec.v: live_agrees is false)",
                      dict(metas[i], obligation="Props/C01.v: C01_reader_items evaluated on this package"), False)
    dist["in_reader_theorem_domain"] = len(terms) - len(ctx.more_bad["chk_live_domain"])
    for i in ctx.more_bad["chk_e2e"][:5]:
        ctx.violation("proof", "the text of the returned HTML does not begin with the rendering of the body's live items (Proofs/EndToEndSpec.v: e2e_agrees is false)",
                      dict(metas[i], obligation="Props/C01.v: C01_end_to_end evaluated on this package"), False)
    dist["in_end_to_end_theorem_domain"] = len(terms) - len(ctx.more_bad["chk_e2e_domain"])
    for i in ctx.more_bad["chk_notes"][:5]:
        ctx.violation("proof", "a note's elements do not carry the live items of the note's XML (Proofs/NotesSpec.v: notes_agree is false)",
                      dict(metas[i], obligation="Props/C01.v: C01_notes_items evaluated on this package"), False)
    dist["in_notes_theorem_domain"] = len(terms) - len(ctx.more_bad["chk_notes_domain"])
    for i in ctx.more_bad["chk_raw"][:5]:
        ctx.violation("proof", "extract_raw_text is not the expansion of the body's marked live items (Proofs/RawSpec.v: raw_agrees is false)",
                      dict(metas[i], obligation="Props/C01.v: C01_raw_text evaluated on this package"), False)
    dist["in_raw_text_theorem_domain"] = len(terms) - len(ctx.more_bad["chk_raw_domain"])
    for i in ctx.more_bad["chk_full"][:5]:
        ctx.violation("proof", "the text of the returned HTML is not the text computed from the XML of the body, notes and comments parts (Proofs/CommentsSpec.v: full_text_agrees is false)",
                      dict(metas[i], obligation="Props/C01.v: C01_html_text_from_xml evaluated on this package"), False)
    dist["in_whole_text_theorem_domain"] = len(terms) - len(ctx.more_bad["chk_full_domain"])
    for i in ctx.more_bad["chk_cmts"][:5]:
        ctx.violation("proof", "a comment's elements do not carry the live items of the comment's XML (Proofs/CommentsSpec.v: comments_agree is false)",
                      dict(metas[i], obligation="Props/C01.v: C01_comments_items evaluated on this package"), False)
    ctx.coverage["traces_validated_against_impl"] = len(terms)
    ctx.coverage["input_distribution"] = dist
    ctx.coverage["rule"] = ("packages from the full grammar (runs, hyperlinks, fields, sdt, ins/del, deleted paragraph marks, smart tags, text boxes, symbols, "
                            "tabs, hyphens, notes, comments, tables in tables, hostile Unicode) under five style maps without :separator (two with `!` mappings); the "
                            "HTML with tags removed and entities decoded must equal the live text computed independently on the package, and extract_raw_text the "
                            "paragraph texts each followed by two newlines; non-trivial = package with more than 20 characters of live text")
    ctx.assumptions += ["domain: a paragraph whose mark is deleted is followed by another paragraph in the same container; fldChar balanced"]


def replay(ctx, rep):
    r = rep["replay"]
    pkg = gen_xml.pkg_from_json(r["package"])
    data, _ = B.build(pkg)
    html, raw = A.run_impl(data, r["options"], None)
    ip, ir, con = r["ignored"]
    lt = livetext.LiveText(pkg, ip, ir, con)
    bad = isinstance(html, Exception) or html_text(html.value) != B.sanitize(lt.html_text()) or raw.value != B.sanitize(lt.raw_text())
    print("replay:", "violated" if bad else "property holds on this input")
    return 1 if bad else 0
