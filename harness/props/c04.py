"""C04 — adjacent elements merge exactly as the freshness rules say."""
import copy
import json

from mammoth import html

from mammoth.docx.xmlparser import element as X, text as XT

from .. import apilevel as A, docx_builder as B, gen_html, gen_xml, oracle_html as O, terms as T

# through the public API: paragraphs and runs whose styles are mapped to nested NON-fresh paths (two run styles share one
# path), with empty runs and empty paragraphs in between; unmapped paragraphs become the default fresh p
API_MAP = "\n".join(["p.Q => blockquote > div.q", "p.C => pre:separator('\\n')", "p.D => div.q", "p.N => ul|ol > li",
                      "p.E => pre", "p.G => pre:separator(', ')",   # the same element three times: each merge is preceded by the separator of the element merged in, if it has one
                      "p.F => section:fresh:separator('|')",       # :fresh wins over :separator: such elements never merge
                      "r.X => span.x", "r.Y => em > span.y", "r.Z => span.x", "r.W => em",
                      # the same class names in another order are another attribute value; :fresh and :separator on run-level mappings
                      "r.U => span.k1.k2", "r.V => span.k2.k1", "r.T => span.tag:fresh", "r.K => kbd:separator('+')"])
API_PSTYLES = [None, None, "Q", "Q", "C", "C", "D", "N", "F", "F", "E", "E", "G", "C", "E"]
PRE_SEP = {"C": "\n", "E": "", "G": ", "}
API_RSTYLES = [None, "X", "X", "Y", "Z", "W"]


def api_doc(rng):
    paras = []
    for _ in range(rng.randint(1, 6)):
        ps = rng.choice(API_PSTYLES)
        kids = [X("w:pPr", {}, [X("w:pStyle", {"w:val": ps})])] if ps else []
        for _ in range(rng.choice([0, 1, 2, 3, 4])):
            rs = rng.choice(API_RSTYLES)
            rk = [X("w:rPr", {}, [X("w:rStyle", {"w:val": rs})])] if rs else []
            t = rng.choice(["", "", "a", "b c", " "])
            if t or rng.random() < 0.5:
                rk.append(X("w:t", {}, [XT(t)] if t else []))
            kids.append(X("w:r", {}, rk))
        paras.append(X("w:p", {}, kids))
    return paras


def unmerged_siblings(forest):
    """two adjacent sibling elements with the same name and attributes, other than the fresh ones (default p, section)"""
    prev = None
    for n in forest:
        if "name" in n:
            if prev is not None and n["name"] not in ("p", "section") and prev["name"] == n["name"] and prev["attrs"] == n["attrs"] \
                    and not (n["name"] == "span" and n["attrs"].get("class") == "tag"):        # (span.tag is mapped :fresh)
                return n["name"], n["attrs"]
            r = unmerged_siblings(n["children"])
            if r:
                return r
            prev = n
        else:
            prev = None
    return None


def api_stream(ctx, dist):
    rng = ctx.rng
    terms, metas = [], []
    styles = [X("w:style", {"w:type": "paragraph", "w:styleId": s}, [X("w:name", {"w:val": "Style " + s})]) for s in "QCDNFEG"] + \
             [X("w:style", {"w:type": "character", "w:styleId": s}, [X("w:name", {"w:val": "Char " + s})]) for s in "XYZW"]
    styles = styles + [X("w:style", {"w:type": "character", "w:styleId": s_}, [X("w:name", {"w:val": "Char " + s_})]) for s_ in "UVTK"]
    for i in range(600 if ctx.thorough else 80):
        pkg = gen_xml.Package()
        pkg.styles = styles
        pkg.body = api_doc(rng)
        dedicated = None
        if i == 0:
            # dedicated: runs that look alike but must stay apart (class names in another order; :fresh), and runs joined by their separator
            run_ = lambda st_, t_: X("w:r", {}, [X("w:rPr", {}, [X("w:rStyle", {"w:val": st_})]), X("w:t", {}, [XT(t_)])])
            pkg.body = [X("w:p", {}, [run_("U", "a"), run_("V", "b"), run_("U", "c"), run_("T", "d"), run_("T", "e"), run_("K", "Ctrl"), run_("K", "C")])]
            dedicated = ('<p><span class="k1 k2">a</span><span class="k2 k1">b</span><span class="k1 k2">c</span><span class="tag">d</span>'
                         '<span class="tag">e</span><kbd>Ctrl+C</kbd></p>')
        opts = {"style_map": API_MAP, "include_default_style_map": False, "include_embedded_style_map": True,
                "ignore_empty_paragraphs": rng.random() < 0.7, "id_prefix": None, "conv": "data_uri"}
        data, parts = B.build(pkg)
        html_, raw = A.run_impl(data, opts, None)
        ctx.count()
        dist["api_documents"] = dist.get("api_documents", 0) + 1
        meta = {"api": "mammoth.convert_to_html", "package": gen_xml.pkg_json(pkg), "options": opts}
        if isinstance(html_, Exception):
            ctx.violation("oracle", "conversion raised %r" % html_, meta, True)
        elif dedicated is not None and html_.value != dedicated:
            ctx.violation("oracle", "runs mapped to look-alike elements were merged, or runs joined without their separator: got %s, expected %s" % (html_.value[:300], dedicated),
                          dict(meta, observed=html_.value[:600]), True)
        else:
            # with ignore_empty_paragraphs=False every paragraph starts with an invisible force-write marker, which legitimately
            # keeps the last element of one paragraph and the first of the next apart: the adjacency rule is checked without it
            forest_ = O.strict_parse(html_.value)
            bad = unmerged_siblings(forest_) if opts["ignore_empty_paragraphs"] else None
            # the other direction: a :fresh element is never merged into the element before it — one <section> per F paragraph that is kept
            n_sections = sum(1 for nd in forest_ if nd.get("name") == "section")
            exp_sections = sum(1 for p_ in pkg.body if p_.find_child_or_null("w:pPr").find_child_or_null("w:pStyle").attributes.get("w:val") == "F"
                               and (not opts["ignore_empty_paragraphs"] or any(
                                   t_.children for r_ in p_.children if r_.name == "w:r" for t_ in r_.children if t_.name == "w:t")))
            if not bad and n_sections != exp_sections:
                ctx.violation("oracle", ":fresh elements were merged (or lost): %d <section> elements for %d kept paragraphs mapped to section:fresh:separator" % (n_sections, exp_sections),
                              dict(meta, observed=html_.value[:600], fresh_sections=exp_sections), True)
            if not bad and opts["ignore_empty_paragraphs"]:
                # separators: consecutive kept paragraphs mapped to pre (three mappings, same element, different separators) form ONE pre whose
                # text is the paragraphs' texts, each later one preceded by ITS OWN mapping's separator
                exp_pre, cur = [], None
                for p_ in pkg.body:
                    ps_ = p_.find_child_or_null("w:pPr").find_child_or_null("w:pStyle").attributes.get("w:val")
                    txt = "".join(c_.value for r_ in p_.children if r_.name == "w:r" for t_ in r_.children if t_.name == "w:t" for c_ in t_.children)
                    if not txt:
                        continue            # dropped: its neighbours become adjacent
                    if ps_ in PRE_SEP:
                        cur = txt if cur is None else cur + PRE_SEP[ps_] + txt
                    elif cur is not None:
                        exp_pre.append(cur)
                        cur = None
                if cur is not None:
                    exp_pre.append(cur)
                got_pre = [O.text_of_parsed(nd["children"]) for nd in forest_ if nd.get("name") == "pre"]
                if got_pre != exp_pre:
                    ctx.violation("oracle", "paragraphs merged into one element are not joined by the separator of the mapping merged in: pre texts %r, expected %r" % (got_pre, exp_pre),
                                  dict(meta, observed=html_.value[:600]), True)
                elif any(len(x) > 1 for x in exp_pre):
                    dist["api_separator_joins"] = dist.get("api_separator_joins", 0) + 1
            if bad:
                ctx.violation("oracle", "adjacent sibling elements <%s %s> that are not :fresh were not merged" % bad,
                              dict(meta, observed=html_.value[:600]), True)
            elif "</span><em>" in html_.value or "</em><span" in html_.value:
                ctx.nontrivial("api%d" % i)
        terms.append(A.case_term(parts, False, {}, opts, html_, raw))
        metas.append(meta)
    for i in ctx.coq_eval("c04api", A.HEADER, terms, A.CASE_TYPE, "chk_api", shard=10)[:5]:
        ctx.violation("correspondence", "model and implementation disagree on a document converted through the public API",
                      dict(metas[i], obligation="correspondence Model/Api.v vs mammoth.convert_to_html"), False)

HEADER = """From Mammoth Require Import Html.
Local Open Scope N_scope.
Definition chk (c : list (node str) * list (node str)) : bool :=
  forest_eqb (collapse (fun s => s) (fst c)) (snd c)
  && match collapse_f (fun s => s) (S (fsize (fst c))) (fst c) with
     | Some r => forest_eqb r (snd c)
     | None => false
     end.
"""


def observe(forest):
    inp = [T.node_json(x) for x in forest]
    out_nodes = html.collapse(forest)
    out = [T.node_json(x) for x in out_nodes]
    inp_after = [T.node_json(x) for x in forest]
    out2 = [T.node_json(x) for x in html.collapse(out_nodes)]
    return inp, out, out2, inp_after, out_nodes


def cases(ctx):
    n_ex = 4 if ctx.thorough else 3
    tags = gen_html.TAGS_SMALL if ctx.thorough else gen_html.TAGS_SMALL[:7]
    leaves = gen_html.LEAVES_SMALL if ctx.thorough else ["x", None]
    for f in gen_html.all_forests(n_ex, tags, leaves):
        yield "exhaustive", f
    for i in range(20000 if ctx.thorough else 1500):
        yield "random", gen_html.rand_forest(ctx.rng, ctx.rng.randint(1, 14))
    for i in range(40000 if ctx.thorough else 3000):
        yield "random", gen_html.rand_forest_small(ctx.rng, ctx.rng.randint(3, 12))
    for i in range(40000 if ctx.thorough else 3000):
        yield "random", gen_html.rand_forest_tiny(ctx.rng, ctx.rng.randint(4, 10))


def run(ctx):
    proved = ctx.build()
    terms, metas = [], []
    dist = {"exhaustive": 0, "random": 0, "merged": 0, "refused": 0, "separator": 0, "sizes": {}}
    seen = set()
    for kind, forest in cases(ctx):
        inp, out, out2, inp_after, out_nodes = observe(forest)
        ctx.count()
        dist[kind] += 1
        sz = gen_html.size(forest)
        dist["sizes"][sz] = dist["sizes"].get(sz, 0) + 1
        key = json.dumps(inp, sort_keys=True)
        merged = O.leaves(inp) != O.leaves(out) or len(out) < len(inp)
        refused = len(out) > 1
        if merged:
            dist["merged"] += 1
        if refused:
            dist["refused"] += 1
        if O.has_separator(inp):
            dist["separator"] += 1
        if key not in seen and merged and refused:
            ctx.nontrivial(key)
        seen.add(key)
        bad = O.check_collapse(inp, out, out2, inp_after)
        if bad:
            ctx.violation("oracle", bad, {"api": "mammoth.html.collapse", "input": inp, "observed": out,
                                          "expected": O.spec_collapse(copy.deepcopy(inp))}, True)
            if len(ctx.violations) > 20:
                break
        terms.append("(%s, %s)" % (T.forest(forest), T.forest(out_nodes)))
        metas.append(inp)
        if merged and refused:
            ctx.sample({"input": inp, "collapsed": out})
    # correspondence, in-kernel: model (spec and code-shaped) = implementation
    limit = len(terms) if ctx.thorough else min(len(terms), 12000)
    badidx = ctx.coq_eval("c04", HEADER, terms[:limit], "list (node str) * list (node str)", "chk")
    for i in badidx[:5]:
        ctx.violation("correspondence", "model and mammoth.html.collapse disagree",
                      {"obligation": "correspondence Model/Html.v:collapse vs mammoth.html.collapse",
                       "input": metas[i]}, False)
    api_stream(ctx, dist)
    ctx.coverage["traces_validated_against_impl"] = limit
    ctx.coverage["exhaustive"] = True
    ctx.coverage["rule"] = ("all forests with <= %d nodes over %d tags x leaves (exhaustive), then random forests of 1..14 nodes; "
                            "non-trivial = distinct input in which at least one merge happened and at least one was refused"
                            % (4 if ctx.thorough else 3, 8 if ctx.thorough else 7))
    ctx.coverage["input_distribution"] = dist
    ctx.assumptions += [
        "non-mutation of the Python input objects is observed (snapshot before/after), not proved",
    ]


def replay(ctx, rep):
    if rep["replay"].get("api") == "mammoth.convert_to_html":
        pkg = gen_xml.pkg_from_json(rep["replay"]["package"])
        data, _ = B.build(pkg)
        html_, _ = A.run_impl(data, rep["replay"]["options"], None)
        bad = isinstance(html_, Exception) or (rep["replay"]["options"]["ignore_empty_paragraphs"] and unmerged_siblings(O.strict_parse(html_.value)))
        print("replay:", ("violated: %r" % (bad,)) if bad else "property holds on this input")
        return 1 if bad else 0
    inp = rep["replay"]["input"]
    forest = [T.node_from_json(j) for j in inp]
    i, out, out2, inp_after, _ = observe(forest)
    bad = O.check_collapse(i, out, out2, inp_after)
    print("replay:", bad or "property holds on this input")
    return 1 if bad else 0
