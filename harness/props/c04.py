"""C04 — adjacent elements merge exactly as the freshness rules say."""
import copy
import json

from mammoth import html

from .. import gen_html, oracle_html as O, terms as T

HEADER = """From Mammoth Require Import Html.
Local Open Scope N_scope.
Definition chk (c : list (node str) * list (node str)) : bool :=
  forest_eqb (collapse (fun s => s) (fst c)) (snd c)
  && match collapse_f (fun s => s) (S (fsize (fst c))) (fst c) with
     | Some r => forest_eqb r (snd c)
     | None => false
     end.
"""


def observe(forest):
    inp = [T.node_json(x) for x in forest]
    out_nodes = html.collapse(forest)
    out = [T.node_json(x) for x in out_nodes]
    inp_after = [T.node_json(x) for x in forest]
    out2 = [T.node_json(x) for x in html.collapse(out_nodes)]
    return inp, out, out2, inp_after, out_nodes


def cases(ctx):
    n_ex = 4 if ctx.thorough else 3
    tags = gen_html.TAGS_SMALL if ctx.thorough else gen_html.TAGS_SMALL[:7]
    leaves = gen_html.LEAVES_SMALL if ctx.thorough else ["x", None]
    for f in gen_html.all_forests(n_ex, tags, leaves):
        yield "exhaustive", f
    for i in range(20000 if ctx.thorough else 1500):
        yield "random", gen_html.rand_forest(ctx.rng, ctx.rng.randint(1, 14))
    for i in range(40000 if ctx.thorough else 3000):
        yield "random", gen_html.rand_forest_small(ctx.rng, ctx.rng.randint(3, 12))
    for i in range(40000 if ctx.thorough else 3000):
        yield "random", gen_html.rand_forest_tiny(ctx.rng, ctx.rng.randint(4, 10))


def run(ctx):
    proved = ctx.build()
    terms, metas = [], []
    dist = {"exhaustive": 0, "random": 0, "merged": 0, "refused": 0, "separator": 0, "sizes": {}}
    seen = set()
    for kind, forest in cases(ctx):
        inp, out, out2, inp_after, out_nodes = observe(forest)
        ctx.count()
        dist[kind] += 1
        sz = gen_html.size(forest)
        dist["sizes"][sz] = dist["sizes"].get(sz, 0) + 1
        key = json.dumps(inp, sort_keys=True)
        merged = O.leaves(inp) != O.leaves(out) or len(out) < len(inp)
        refused = len(out) > 1
        if merged:
            dist["merged"] += 1
        if refused:
            dist["refused"] += 1
        if O.has_separator(inp):
            dist["separator"] += 1
        if key not in seen and merged and refused:
            ctx.nontrivial(key)
        seen.add(key)
        bad = O.check_collapse(inp, out, out2, inp_after)
        if bad:
            ctx.violation("oracle", bad, {"api": "mammoth.html.collapse", "input": inp, "observed": out,
                                          "expected": O.spec_collapse(copy.deepcopy(inp))}, True)
            if len(ctx.violations) > 20:
                break
        terms.append("(%s, %s)" % (T.forest(forest), T.forest(out_nodes)))
        metas.append(inp)
        if merged and refused:
            ctx.sample({"input": inp, "collapsed": out})
    # correspondence, in-kernel: model (spec and code-shaped) = implementation
    limit = len(terms) if ctx.thorough else min(len(terms), 12000)
    badidx = ctx.coq_eval("c04", HEADER, terms[:limit], "list (node str) * list (node str)", "chk")
    for i in badidx[:5]:
        ctx.violation("correspondence", "model and mammoth.html.collapse disagree",
                      {"obligation": "correspondence Model/Html.v:collapse vs mammoth.html.collapse",
                       "input": metas[i]}, False)
    ctx.coverage["traces_validated_against_impl"] = limit
    ctx.coverage["exhaustive"] = True
    ctx.coverage["rule"] = ("all forests with <= %d nodes over %d tags x leaves (exhaustive), then random forests of 1..14 nodes; "
                            "non-trivial = distinct input in which at least one merge happened and at least one was refused"
                            % (4 if ctx.thorough else 3, 8 if ctx.thorough else 7))
    ctx.coverage["input_distribution"] = dist
    ctx.assumptions += [
        "non-mutation of the Python input objects is observed (snapshot before/after), not proved",
    ]


def replay(ctx, rep):
    inp = rep["replay"]["input"]
    forest = [T.node_from_json(j) for j in inp]
    i, out, out2, inp_after, _ = observe(forest)
    bad = O.check_collapse(i, out, out2, inp_after)
    print("replay:", bad or "property holds on this input")
    return 1 if bad else 0
