"""Entry point: ./check <Cxx> [--tier quick|thorough] [--replay file]"""
import argparse
import importlib
import json
import os
import sys
import traceback

from . import common


def main():
    ap = argparse.ArgumentParser()
    ap.add_argument("prop")
    ap.add_argument("--tier", default=os.environ.get("VERIF_TIER", "quick"), choices=["quick", "thorough"])
    ap.add_argument("--replay", default=None)
    a = ap.parse_args()
    seed = int(os.environ.get("VERIF_SEED", "0") or 0)
    mod = importlib.import_module("harness.props.%s" % a.prop.lower())
    ctx = common.Ctx(a.prop, a.tier, seed)
    ctx.level = getattr(mod, "LEVEL", "proof")
    if a.replay:
        with open(a.replay, encoding="utf-8") as f:
            rep = json.load(f)
        rc = mod.replay(ctx, rep)
        sys.exit(rc)
    ctx.clean_replays()
    try:
        mod.run(ctx)
    except Exception:
        tb = traceback.format_exc()
        print(tb)
        ctx.violation("correspondence", "the check itself failed: %s" % tb.strip().splitlines()[-1],
                      {"obligation": "harness/%s" % a.prop, "traceback": tb[-4000:]}, False)
    sys.exit(ctx.finish())


if __name__ == "__main__":
    main()
