"""Generator of WordprocessingML packages as abstract XML trees (mammoth XmlElement objects), from one grammar of
the supported subset.  The same trees are (i) fed to the reader directly, (ii) printed as Coq terms, (iii) serialised
to a real .docx by harness/docx_builder.py."""
from mammoth.docx.xmlparser import element as X, text as XT, XmlElement, XmlText

from .gen_html import HOSTILE

PSTYLES = [("Heading1", "Heading 1"), ("Heading2", "heading 2"), ("Quote", "Intense Quote"), ("Normal", "Normal"),
           ("ListParagraph", "List Paragraph"), ("NoName", None), ("FootnoteText", "footnote text")]
RSTYLES = [("Strong", "Strong"), ("Emph", "Emphasis"), ("Hyperlink", "Hyperlink"), ("FootnoteReference", "footnote reference")]
TSTYLES = [("TableGrid", "Table Grid"), ("Fancy", "Fancy Table")]
IGNORED = ["w:sectPr", "w:proofErr", "w:lastRenderedPageBreak", "w:bookmarkEnd", "w:commentRangeStart", "w:commentRangeEnd"]
UNKNOWN = ["w:foo", "w:customXml", "x:unknown", "w:moveFrom",
           # one spelled name, several namespaces: a prefix re-bound on the element itself (also the w prefix: then w:t is NOT text)
           "x~a:unknown", "x~b:unknown", "w~z:t", "w~y:t"]
TOGGLE_SPELLINGS = [None, "true", "1", "false", "0", "on", "off", ""]
PNG = bytes([0x89, 0x50, 0x4E, 0x47, 13, 10, 26, 10, 0, 1, 2, 3])


class Package:
    """Abstract package: body, parts and media; everything else is derived."""
    def __init__(self):
        self.body = []
        self.styles = None           # list of w:style elements or None (part absent)
        self.numbering = None        # (abstractNums, nums) or None
        self.rels = []               # (id, target, type) of word/_rels/document.xml.rels
        self.content_types = {"defaults": [("xml", "application/xml"), ("rels", "application/vnd.openxmlformats-package.relationships+xml")],
                              "overrides": []}
        self.footnotes = None        # list of w:footnote elements
        self.endnotes = None
        self.comments = None
        self.media = {}              # zip entry name -> bytes
        self.linked = {}             # external target -> ("data", bytes) | ("error", msg)
        self.embedded_style_map = None
        self.meta = {}


class XGen:
    def __init__(self, rng, hostile=0.25, anomalies=0.0, optional_absent=0.0, dangling=0.0, fields=True, tables=True,
                 images=True, notes=True, comments=True, textboxes=True, deleted=True, numbering=True, malformed=0.0,
                 max_depth=3, alt_no_fallback=0.0, switches=0.5, linked_rate=0.15, odd_links=None, stray_in_table=0.0, type_aliases=0.0):
        self.rng = rng
        self.type_aliases = type_aliases
        self.stray_in_table = stray_in_table
        # linked targets whose content type cannot be determined (an anomaly: they produce a warning); by default as often as other anomalies
        self.odd_links = anomalies if odd_links is None else odd_links
        self.hostile, self.anomalies, self.optional_absent, self.dangling = hostile, anomalies, optional_absent, dangling
        self.fields, self.tables, self.images, self.notes_on, self.comments_on = fields, tables, images, notes, comments
        self.textboxes, self.deleted, self.numbering_on, self.malformed = textboxes, deleted, numbering, malformed
        self.max_depth = max_depth
        self.alt_no_fallback = alt_no_fallback
        self.switches = switches
        self.linked_rate = linked_rate
        self.pkg = Package()
        self.n = 0
        self.rel_n = 0
        self.note_ids = {"footnote": [], "endnote": []}
        self.comment_ids = []
        self.in_field = 0
        self.in_note = False

    # ------------------------------------------------------------ helpers
    def text(self):
        r = self.rng
        self.n += 1
        if r.random() < 0.06:
            return ""
        if r.random() < self.hostile:
            return "".join(r.choice(HOSTILE) for _ in range(r.randint(1, 3)))
        return "t%d%s" % (self.n, r.choice(["", " ", " x ", ""]))

    def add_rel(self, target, ty, dangling_ok=True):
        self.rel_n += 1
        rid = "rId%d" % self.rel_n
        self.pkg.rels.append((rid, target, ty))
        return rid

    def maybe(self, p):
        return self.rng.random() < p

    def toggle(self, name):
        """one of the legal spellings of an on/off property element, or None (absent)"""
        r = self.rng
        k = r.random()
        if k < 0.6:
            return None
        v = r.choice(["bare", "true", "1", "false", "0"])
        return X(name, {} if v == "bare" else {"w:val": v})

    # ------------------------------------------------------------ runs
    def rpr(self):
        r = self.rng
        kids = []
        if self.maybe(0.3):
            sid = r.choice(RSTYLES)[0] if not self.maybe(self.dangling) else "Undefined%d" % r.randint(1, 3)
            kids.append(X("w:rStyle", {"w:val": sid}))
        for name in ("w:b", "w:i", "w:strike", "w:caps", "w:smallCaps"):
            t = self.toggle(name)
            if t is not None:
                kids.append(t)
        if self.maybe(0.2):
            kids.append(X("w:u", {} if self.maybe(0.2) else {"w:val": r.choice(["single", "none", "false", "0", "double", "words"])}))
        if self.maybe(0.15):
            kids.append(X("w:vertAlign", {"w:val": r.choice(["superscript", "subscript", "baseline"])}))
        if self.maybe(0.15):
            kids.append(X("w:highlight", {} if self.maybe(0.1) else {"w:val": r.choice(["yellow", "red", "none"])}))
        if self.maybe(0.1):
            kids.append(X("w:rFonts", {"w:ascii": "Arial"}))
        if self.maybe(0.1):
            kids.append(X("w:sz", {"w:val": r.choice(["24", "x", "11"])}))
        if not kids and self.maybe(0.5 + self.optional_absent):
            return []
        r.shuffle(kids)
        return [X("w:rPr", {}, kids)]

    def run_content(self, depth):
        r = self.rng
        k = r.random()
        if k < 0.62:
            t = self.text()
            return X("w:t", {"xml:space": "preserve"} if t != t.strip() else {}, [XT(t)] if t or self.maybe(0.5) else [])
        if k < 0.66:
            return X("w:tab")
        if k < 0.70:
            return X("w:br", {} if self.maybe(0.5) else {"w:type": r.choice(["textWrapping", "page", "column"] + (["weird"] if self.maybe(self.anomalies) else ["page"]))})
        if k < 0.72:
            return X("w:noBreakHyphen")
        if k < 0.74:
            return X("w:softHyphen")
        if k < 0.77:
            ok = not self.maybe(self.anomalies)
            return X("w:sym", {"w:font": "Wingdings", "w:char": r.choice(["F028", "28", "F04A"])} if ok
                     else {"w:font": r.choice(["Wingdings", "Nope"]), "w:char": r.choice(["FFFF", "F0F0F"])})
        if k < 0.80 and self.notes_on and not self.in_note:
            ty = r.choice(["footnote", "endnote"])
            nid = str(len(self.note_ids[ty]) + 2)
            self.note_ids[ty].append(nid)
            return X("w:%sReference" % ty, {"w:id": nid})
        if k < 0.83 and self.comments_on and not self.in_note:
            cid = str(len(self.comment_ids))
            self.comment_ids.append(cid)
            return X("w:commentReference", {"w:id": cid})
        if k < 0.88 and self.images:
            return self.drawing()
        if k < 0.90 and self.maybe(self.anomalies + 0.2):
            return X(r.choice(IGNORED + ["w:lastRenderedPageBreak"]))
        if k < 0.92 and self.maybe(self.anomalies):
            return X(r.choice(UNKNOWN), {}, [X("w:t", {}, [XT("hidden")])] if self.maybe(0.5) else [])
        if k < 0.95 and self.textboxes and depth < self.max_depth:
            return self.textbox(depth)
        if k < 0.97:
            return X("w:instrText", {}, [XT(" not a field ")]) if self.maybe(0.2) else X("w:t", {}, [XT(self.text())])
        return X("w:t", {}, [XT(self.text())])

    def run(self, depth):
        n = self.rng.choice([0, 1, 1, 1, 2, 3])
        return X("w:r", {}, self.rpr() + [self.run_content(depth) for _ in range(n)])

    def drawing(self):
        r = self.rng
        k = r.random()
        if k < 0.12 and self.maybe(self.anomalies):
            blip = X("a:blip")                                     # no image
        else:
            ext = "emf" if self.maybe(self.anomalies * 0.5) else r.choice(["png", "png", "jpeg", "gif", "PNG", "Jpg", "GIF"])
            name = "media/image%d.%s" % (len(self.pkg.media) + 1, ext)
            data = bytes(r.randrange(256) for _ in range(r.choice([0, 1, 3, 8, 20])))
            if r.random() < self.linked_rate:
                # linked targets also without an extension / with one no table knows: their content type cannot be determined
                lext = r.choice([".img", ""]) if self.maybe(self.odd_links) else ".png"
                tgt = ("http://example.invalid/linked%d%s" if self.maybe(0.5) else "linked%d%s") % (len(self.pkg.linked), lext)
                self.pkg.linked[tgt] = ("data", data) if self.maybe(0.6) else ("error", None)
                rid = self.add_rel(tgt, "http://schemas.openxmlformats.org/officeDocument/2006/relationships/image")
                blip = X("a:blip", {"r:link": rid})
            else:
                self.pkg.media["word/" + name] = data
                if self.maybe(self.type_aliases):
                    # a declared type is passed on as declared, also when it is an unregistered alias of a common one
                    self.pkg.content_types["overrides"].append(("/word/" + name, r.choice(["image/jpg", "image/pjpeg", "image/x-png", "image/tif", "image/x-tiff", "IMAGE/PNG"])))
                elif self.maybe(0.3):
                    self.pkg.content_types["overrides"].append(("/word/" + name, "image/" + {"emf": "x-emf", "jpg": "jpeg"}.get(ext.lower(), ext.lower())))
                elif ext != ext.lower() and ext not in [d[0] for d in self.pkg.content_types["defaults"]] and self.maybe(0.5):
                    # a default declared in the letter case the part name uses, with a type of its own: extension defaults are looked up as written
                    # (a browser-displayable type that differs from what the built-in table would give for this extension)
                    self.pkg.content_types["defaults"].append((ext, {"png": "image/gif", "jpg": "image/png", "gif": "image/jpeg"}[ext.lower()]))
                elif ext.lower() not in [d[0] for d in self.pkg.content_types["defaults"]] and self.maybe(0.5):
                    self.pkg.content_types["defaults"].append((ext.lower(), "image/" + {"emf": "x-emf", "jpg": "jpeg"}.get(ext.lower(), ext.lower())))
                rid = self.add_rel(name if self.maybe(0.8) else "/word/" + name,
                                   "http://schemas.openxmlformats.org/officeDocument/2006/relationships/image")
                blip = X("a:blip", {"r:embed": rid})
                if self.maybe(0.15):
                    # "linked and embedded": both attributes; the embedded part is the image
                    tgt = "http://example.invalid/also%d.png" % len(self.pkg.linked) if self.maybe(0.5) else "also%d.png" % len(self.pkg.linked)
                    self.pkg.linked[tgt] = ("data", bytes(reversed(data)) + b"L")
                    blip.attributes["r:link"] = self.add_rel(tgt, "http://schemas.openxmlformats.org/officeDocument/2006/relationships/image")
        if k > 0.9:
            rid = blip.attributes.get("r:embed")
            if rid is not None:
                return X("w:pict", {}, [X("v:shape", {}, [X("v:imagedata", {"r:id": rid, "o:title": "vml " + self.text()})])])
        docpr = {}
        if self.maybe(0.6):
            docpr["descr"] = r.choice(["a picture", "", "  ", 'al"t<'])
        if self.maybe(0.4):
            docpr["title"] = r.choice(["the title", ""])
        # (a:graphicData names the kind of graphic by the namespace URI of its content: "@NS:pic" is written as the picture namespace of the
        #  namespace set the package is spelled in - Transitional or Strict)
        pic = X("a:graphic", {}, [X("a:graphicData", {"uri": "@NS:pic"} if self.maybe(0.7) else {}, [X("pic:pic", {}, [X("pic:blipFill", {}, [blip])])])])
        kids = ([X("wp:docPr", docpr)] if docpr or self.maybe(0.5) else []) + [pic]
        return X("w:drawing", {}, [X(r.choice(["wp:inline", "wp:anchor"]), {}, kids)])

    def textbox(self, depth):
        inner = self.blocks(depth + 1, self.rng.choice([1, 1, 2]), tables=False)
        tb = X("w:txbxContent", {}, inner)
        if self.maybe(0.5):
            return X("w:pict", {}, [X("v:shape", {}, [X("v:textbox", {}, [tb])])])
        return X("mc:AlternateContent", {}, [X("mc:Choice", {"Requires": "wps"}, [X("w:drawing", {}, [X("w:t", {}, [XT("choice-only")])])]),
                                              X("mc:Fallback", {}, [X("w:pict", {}, [X("v:shape", {}, [X("v:textbox", {}, [tb])])])])])

    # ------------------------------------------------------------ fields
    def field_runs(self, depth, nest=0):
        """A balanced complex field as a list of paragraph children."""
        r = self.rng
        kind = r.choice(["href", "href", "anchor", "checkbox", "other", "noseparate"])
        switch = ""
        if self.maybe(self.switches):
            switch = r.choice([' \\o "tip"', ' \\t "_blank"', ' \\o "a tip" \\t "_blank"'])
        if kind == "href":
            instr = ' HYPERLINK "http://example.com/%d"%s ' % (self.n, switch)
        elif kind == "anchor":
            # any white space may separate HYPERLINK, \\l and the bookmark name
            ws = lambda: r.choice([" ", " ", "  ", "\t", " \t "])
            instr = '%sHYPERLINK%s\\l%s"bm%d"%s ' % (r.choice(["", " ", "  "]), ws(), ws(), r.randint(1, 3), switch)
        elif kind == "checkbox":
            instr = " FORMCHECKBOX "
        else:
            instr = r.choice([" PAGE ", " TOC \\o ", ' REF x "y" '])
        begin_kids = []
        if kind == "checkbox" and self.maybe(0.7):
            cb = []
            if self.maybe(0.5):
                cb.append(X("w:default", {"w:val": r.choice(["0", "1"])}))
            if self.maybe(0.5):
                cb.append(X("w:checked", {} if self.maybe(0.3) else {"w:val": r.choice(["0", "1"])}))
            begin_kids = [X("w:ffData", {}, [X("w:checkBox", {}, cb)])]
        out = [X("w:r", {}, [X("w:fldChar", {"w:fldCharType": "begin"}, begin_kids)])]
        # split instruction text
        cut = r.randint(0, len(instr))
        for piece in ([instr[:cut], instr[cut:]] if self.maybe(0.5) else [instr]):
            out.append(X("w:r", {}, self.rpr() + [X("w:instrText", {"xml:space": "preserve"}, [XT(piece)])]))
        if kind != "noseparate":
            out.append(X("w:r", {}, [X("w:fldChar", {"w:fldCharType": "separate"})]))
            for _ in range(r.choice([0, 1, 1, 2])):
                if nest < 2 and self.maybe(0.2):
                    out += self.field_runs(depth, nest + 1)
                else:
                    out.append(self.run(depth))
        out.append(X("w:r", {}, [X("w:fldChar", {"w:fldCharType": "end"})]))
        return out

    # ------------------------------------------------------------ paragraphs
    def ppr(self, deleted=False):
        r = self.rng
        kids = []
        if self.maybe(0.45):
            sid = r.choice(PSTYLES)[0] if not self.maybe(self.dangling) else (("UndefinedP%d" % r.randint(1, 2)) if self.maybe(0.5) else ("Undefined%d" % r.randint(1, 3)))   # an undefined id may be used by paragraphs AND runs
            kids.append(X("w:pStyle", {"w:val": sid}))
        if self.numbering_on and self.maybe(0.25):
            np = []
            if not self.maybe(self.optional_absent * 0.5):
                np.append(X("w:ilvl", {"w:val": str(r.choice([0, 0, 1, 2, 3, 4, 5, 8]))}))
            if not self.maybe(self.optional_absent * 0.5):
                np.append(X("w:numId", {"w:val": str(r.choice([1, 2, 3, 4, 5, 6] + ([99] if self.maybe(self.dangling) else [1])))}))
            kids.append(X("w:numPr", {}, np))
        if self.maybe(0.1):
            kids.append(X("w:jc", {"w:val": "center"}))
        if self.maybe(0.1):
            kids.append(X("w:ind", {"w:left": "720"}))
        if deleted:
            kids.append(X("w:rPr", {}, [X("w:del", {"w:id": "1", "w:author": "a"})]))
        elif self.maybe(0.1):
            kids.append(X("w:rPr", {}, [X("w:b")]))
        if not kids and self.maybe(0.5 + self.optional_absent):
            return []
        return [X("w:pPr", {}, kids)]

    def para_children(self, depth):
        r = self.rng
        out = []
        for _ in range(r.choice([0, 1, 1, 2, 2, 3, 4])):
            k = r.random()
            if k < 0.55:
                out.append(self.run(depth))
            elif k < 0.65:
                kids = [self.run(depth) for _ in range(r.choice([0, 1, 2]))]
                attrs = {}
                kind = r.choice(["rid", "anchor", "both", "none"])
                if kind in ("rid", "both"):
                    attrs["r:id"] = self.add_rel(r.choice(["http://example.com/", "http://example.com/a?b=1&c=2#frag", 'http://e.com/"q"', "http://example.com/p#one#two", "#top", "doc2.docx#a#b",
                                                           # targets a URL library would normalise: they are strings, kept as written
                                                           "HTTP://Example.COM/Path?", "C:\\dir\\file.docx", "file:///c:/x.docx#old", "http://example.com/a?#f",
                                                           "//host/share/x", "mailto:a@b.example?subject=x", "http://example.com/a%20b#f%23", "http://[::1]/x#y"]),
                                                 "http://schemas.openxmlformats.org/officeDocument/2006/relationships/hyperlink")
                if kind in ("anchor", "both"):
                    attrs["w:anchor"] = r.choice(["bm1", "bm2", 'x"y'])
                if self.maybe(0.3):
                    attrs["w:tgtFrame"] = r.choice(["_blank", ""])
                out.append(X("w:hyperlink", attrs, kids))
            elif k < 0.72:
                out.append(X("w:bookmarkStart", {"w:id": str(self.n), "w:name": r.choice(["bm1", "bm2", "bm3", "_GoBack", "_Toc1", 'x"y'])}))
                if self.maybe(0.7):
                    out.append(X("w:bookmarkEnd", {"w:id": str(self.n)}))
            elif k < 0.79 and self.fields:
                out += self.field_runs(depth)
            elif k < 0.84:
                out.append(X("w:ins", {"w:id": "5"}, [self.run(depth)]))
            elif k < 0.89:
                out.append(X("w:del", {"w:id": "6"}, [X("w:r", {}, [X("w:delText", {}, [XT("deleted " + self.text())])])]))
            elif k < 0.92:
                out.append(X("w:smartTag", {"w:element": "place"}, [self.run(depth)]))
            elif k < 0.95:
                cb = self.maybe(0.3)
                if cb:
                    out.append(X("w:sdt", {}, [X("w:sdtPr", {}, [X("wordml:checkbox", {}, [X("wordml:checked", {"wordml:val": r.choice(["0", "1"])})] if self.maybe(0.7) else [])]),
                                              X("w:sdtContent", {}, [self.run(depth)])]))
                else:
                    # every child of w:sdt is optional in the schema, w:sdtContent included
                    out.append(X("w:sdt", {}, ([X("w:sdtPr")] if self.maybe(0.5) else []) + ([X("w:sdtContent", {}, [self.run(depth)])] if self.maybe(0.85) else [])))
            elif k < 0.97 and self.maybe(self.anomalies + 0.3):
                out.append(X(r.choice(IGNORED)))
            else:
                out.append(self.run(depth))
        return out

    def paragraph(self, depth, deleted=False):
        return X("w:p", {"w:rsidR": "00AB12CD"} if self.maybe(0.2) else {}, self.ppr(deleted) + self.para_children(depth))

    # ------------------------------------------------------------ tables
    def table(self, depth):
        from . import gen_tables
        r = self.rng
        R, C = r.randint(1, 3), r.randint(1, 3)
        rects = gen_tables.random_tiling(r, R, C)
        rows, _ = gen_tables.encode(rects, R, C)
        nhead = r.choice([0, 0, 1]) if not any(rr < 1 < rr + hh for (rr, cc, hh, ww) in rects) else 0
        trs = []
        for i, row in enumerate(rows):
            tcs = []
            for cid, w, kind in row:
                pr = []
                if w != 1:
                    pr.append(X("w:gridSpan", {"w:val": str(w)}))
                if kind == "restart":
                    pr.append(X("w:vMerge", {"w:val": "restart"}))
                elif kind == "continue":
                    pr.append(X("w:vMerge", {"w:val": "continue"} if self.maybe(0.5) else {}))
                content = [X("w:p")] if kind == "continue" else self.blocks(depth + 1, r.choice([1, 1, 2]))
                tcs.append(X("w:tc", {}, ([X("w:tcPr", {}, pr)] if pr or self.maybe(0.5) else []) + content))
            noise = [X("w:cantSplit"), X("w:trHeight", {"w:val": "300"})] if self.maybe(0.2) else []
            # (a row flagged as header AFTER a row that is not - joined tables, repeated header rows - is a body row like its neighbours)
            late_header = i > nhead and nhead <= 1 and self.maybe(0.15) and not any(rr < i < rr + hh for (rr, cc, hh, ww) in rects)
            trpr = [X("w:trPr", {}, noise[:1] + [X("w:tblHeader")] + noise[1:])] if (i < nhead or late_header) else ([X("w:trPr", {}, noise)] if self.maybe(0.2) or noise else [])
            trs.append(X("w:tr", {}, trpr + tcs))
        tblpr = []
        if self.maybe(0.4):
            sid = r.choice(TSTYLES)[0] if not self.maybe(self.dangling) else "UndefinedT"
            tblpr = [X("w:tblPr", {}, [X("w:tblStyle", {"w:val": sid})])]
        elif self.maybe(0.5):
            tblpr = [X("w:tblPr")]
        if self.maybe(self.stray_in_table):
            # range markup and structured tags may sit directly between the rows of a table (the converter answers with a warning)
            cell_ = lambda: X("w:tc", {}, [X("w:p", {}, [X("w:r", {}, [X("w:t", {}, [XT(self.text())])])])])
            stray = r.choice([X("w:bookmarkStart", {"w:id": "9", "w:name": "between_rows"}),
                              X("w:sdt", {}, [X("w:sdtPr", {}, [X("wordml:checkbox")])]), X("w:bookmarkEnd", {"w:id": "9"}),
                              # a check-box content control WRAPPED AROUND a row (its content holds the row): schema-valid, read as one check box
                              X("w:sdt", {}, [X("w:sdtPr", {}, [X("wordml:checkbox")]), X("w:sdtContent", {}, [X("w:tr", {}, [cell_(), cell_()])])])])
            trs.insert(r.randint(0, len(trs)), stray)
            if self.maybe(0.5) and trs and getattr(trs[0], "name", None) == "w:tr":
                # ... and around a cell, inside a row
                trs[0].children.insert(r.randint(0, len(trs[0].children)),
                                       X("w:sdt", {}, [X("w:sdtPr", {}, [X("wordml:checkbox")]), X("w:sdtContent", {}, [cell_()])]))
        return X("w:tbl", {}, tblpr + ([X("w:tblGrid")] if self.maybe(0.7) else []) + trs)

    def blocks(self, depth, n, tables=True):
        out = []
        for i in range(n):
            k = self.rng.random()
            if tables and self.tables and depth < self.max_depth and k < 0.12:
                out.append(self.table(depth))
            elif self.deleted and k < 0.2 and i + 1 < n:
                out.append(self.paragraph(depth, deleted=True))
            elif k < 0.24 and self.maybe(self.anomalies + 0.2):
                out.append(X(self.rng.choice(IGNORED)))
            elif k < 0.27 and self.maybe(self.anomalies):
                out.append(X(self.rng.choice(UNKNOWN), {}, [X("w:p", {}, [X("w:r", {}, [X("w:t", {}, [XT("hidden")])])])]))
            elif k < 0.30 and self.maybe(self.alt_no_fallback):
                out.append(X("mc:AlternateContent", {}, [X("mc:Choice", {"Requires": "wps"}, [self.paragraph(depth)])]))
            elif k < 0.33:
                out.append(X("w:sdt", {}, [X("w:sdtContent", {}, [self.paragraph(depth)])] if self.maybe(0.85) else [X("w:sdtPr")]))
            else:
                out.append(self.paragraph(depth))
        # the property's domain: a paragraph whose mark is deleted is FOLLOWED BY a paragraph in the same container (its content
        # merges into that paragraph); if a table or anything else followed, the content would flow into whatever paragraph is
        # read next — possibly one in a merged-away cell
        fixed = []
        for k, x in enumerate(out):
            fixed.append(x)
            if self._is_deleted(x):
                nxt = out[k + 1] if k + 1 < len(out) else None
                if not (isinstance(nxt, XmlElement) and nxt.name == "w:p"):
                    saved, self.deleted = self.deleted, False
                    try:
                        fixed.append(self.paragraph(depth))
                    finally:
                        self.deleted = saved
        return fixed

    @staticmethod
    def _is_deleted(x):
        if not isinstance(x, XmlElement) or x.name != "w:p":
            return False
        return x.find_child_or_null("w:pPr").find_child_or_null("w:rPr").find_child("w:del") is not None

    # ------------------------------------------------------------ parts
    def styles_part(self):
        r = self.rng
        out = []
        for kind, table in (("paragraph", PSTYLES), ("character", RSTYLES), ("table", TSTYLES)):
            for sid, name in table:
                if self.maybe(self.optional_absent * 0.3):
                    continue
                out.append(X("w:style", {"w:type": kind, "w:styleId": sid}, [X("w:name", {"w:val": name})] if name is not None else []))
        out.append(X("w:style", {"w:type": "numbering", "w:styleId": "ListStyle"},
                     [X("w:pPr", {}, [X("w:numPr", {}, [X("w:numId", {"w:val": "2"})])])]))
        out.append(X("w:style", {"w:type": "numbering", "w:styleId": "EmptyListStyle"}, []))
        if self.maybe(0.3):
            out.append(X("w:style", {"w:type": "weird", "w:styleId": "W"}, []))
        r.shuffle(out)
        return out

    def numbering_part(self):
        r = self.rng

        def lvls(fmts, pstyle=None):
            out = []
            for i, f in enumerate(fmts):
                if f in ("decimal", "lowerLetter"):
                    # every number format other than "bullet" is a numbered list, whatever the script or style
                    f = r.choice(["decimal", "lowerLetter", "upperRoman", "ordinal", "russianLower", "hebrew1", "chineseCounting", "thaiNumbers",
                                  "arabicAlpha", "none", "decimalZero"])
                kids = [X("w:numFmt", {"w:val": f})] if f is not None else []
                if pstyle and i == 0:
                    kids.append(X("w:pStyle", {"w:val": pstyle}))
                if r.random() < 0.5:
                    # where the counting starts is not part of what kind of list it is
                    kids.insert(0, X("w:start", {"w:val": r.choice(["0", "1", "3", "10", "x"])}))
                out.append(X("w:lvl", {"w:ilvl": str(i)}, kids))
            return out
        absn = [X("w:abstractNum", {"w:abstractNumId": "0"}, lvls(["bullet", "bullet", "decimal", None, "bullet", "lowerLetter"])),
                X("w:abstractNum", {"w:abstractNumId": "1"}, lvls(["decimal", "lowerLetter", "bullet", "decimal", "decimal"], "ListParagraph")),
                X("w:abstractNum", {"w:abstractNumId": "2"}, [X("w:numStyleLink", {"w:val": "ListStyle"})]),
                X("w:abstractNum", {"w:abstractNumId": "3"}, [X("w:numStyleLink", {"w:val": "EmptyListStyle"})])]
        if self.maybe(self.dangling):
            absn.append(X("w:abstractNum", {"w:abstractNumId": "4"}, [X("w:numStyleLink", {"w:val": "NoSuchStyle"})]))
        # a w:num may override the START of a level (w:lvlOverride > w:startOverride) without redefining the level
        ov = lambda: ([X("w:lvlOverride", {"w:ilvl": str(r.choice([0, 1]))}, [X("w:startOverride", {"w:val": "1"})])] if self.maybe(0.5) else [])
        nums = [X("w:num", {"w:numId": "1"}, [X("w:abstractNumId", {"w:val": "0"})] + ov()),
                X("w:num", {"w:numId": "2"}, [X("w:abstractNumId", {"w:val": "1"})] + ov()),
                X("w:num", {"w:numId": "3"}, [X("w:abstractNumId", {"w:val": "2"})]),
                X("w:num", {"w:numId": "4"}, [X("w:abstractNumId", {"w:val": "3"})]),
                X("w:num", {"w:numId": "5"}, [X("w:abstractNumId", {"w:val": "77"})])]
        if any(a.attributes.get("w:abstractNumId") == "4" for a in absn):
            nums.append(X("w:num", {"w:numId": "6"}, [X("w:abstractNumId", {"w:val": "4"})]))
        return absn + nums

    def package(self, n=None):
        r = self.rng
        p = self.pkg
        p.body = self.blocks(0, n if n is not None else r.randint(1, 6))
        if self.notes_on and self.tables and self.maybe(0.15):
            # a table with a leading header row: note (and comment) references in the header row AND in the body rows —
            # reading order runs through the header first
            def ref_cell():
                ty = r.choice(["footnote", "endnote"])
                nid = str(len(self.note_ids[ty]) + 2)
                self.note_ids[ty].append(nid)
                kids = [X("w:t", {}, [XT(self.text())]), X("w:%sReference" % ty, {"w:id": nid})]
                if self.comments_on and self.maybe(0.4):
                    cid = str(len(self.comment_ids))
                    self.comment_ids.append(cid)
                    kids.append(X("w:commentReference", {"w:id": cid}))
                return X("w:tc", {}, [X("w:p", {}, [X("w:r", {}, kids)])])
            rows = [X("w:tr", {}, [X("w:trPr", {}, [X("w:tblHeader")]), ref_cell(), ref_cell()])] + \
                   [X("w:tr", {}, [ref_cell(), ref_cell()]) for _ in range(r.choice([1, 2]))]
            p.body.insert(r.randint(0, len(p.body)), X("w:tbl", {}, [X("w:tblPr"), X("w:tblGrid")] + rows))
        if self.maybe(0.4):
            p.body.append(X("w:sectPr", {}, [X("w:pgSz", {"w:w": "11906"})]))
        if not self.maybe(self.optional_absent):
            p.styles = self.styles_part()
        if self.numbering_on and not self.maybe(self.optional_absent):
            p.numbering = self.numbering_part()
        self.in_note = True
        for ty, attr_ in (("footnote", "footnotes"), ("endnote", "endnotes")):
            if self.note_ids[ty] or self.maybe(0.3):
                notes = [X("w:%s" % ty, {"w:id": "0", "w:type": "separator"}, [X("w:p", {}, [X("w:r", {}, [X("w:separator")])])]),
                         X("w:%s" % ty, {"w:id": "1", "w:type": "continuationSeparator"}, [X("w:p")])]
                for nid in self.note_ids[ty]:
                    notes.append(X("w:%s" % ty, {"w:id": nid}, self.blocks(2, r.choice([1, 1, 2]), tables=False)))
                r.shuffle(notes)
                setattr(p, attr_, notes)
        if self.comment_ids or self.maybe(0.2):
            cs = []
            for cid in self.comment_ids:
                attrs = {"w:id": cid}
                if self.maybe(0.7):
                    attrs["w:author"] = r.choice(["Ann Author", "", "  "])
                if self.maybe(0.7):
                    attrs["w:initials"] = r.choice(["AA", "", " ", "<b>"])
                cs.append(X("w:comment", attrs, self.blocks(2, r.choice([0, 1, 2]), tables=False)))
            p.comments = cs
        self.in_note = False
        return p


# ---------------------------------------------------------------- independent live-text twin (C01 oracle)
def xml_json(x):
    if isinstance(x, XmlText):
        return {"t": x.value}
    return {"n": x.name, "a": dict(sorted(x.attributes.items())), "c": [xml_json(c) for c in x.children]}


def xml_from_json(j):
    if "t" in j:
        return XT(j["t"])
    return X(j["n"], dict(j["a"]), [xml_from_json(c) for c in j["c"]])


def pkg_json(pkg):
    opt = lambda l: None if l is None else [xml_json(x) for x in l]
    return {"body": [xml_json(x) for x in pkg.body], "styles": opt(pkg.styles), "numbering": opt(pkg.numbering),
            "rels": [list(r) for r in pkg.rels], "content_types": pkg.content_types, "footnotes": opt(pkg.footnotes),
            "endnotes": opt(pkg.endnotes), "comments": opt(pkg.comments),
            "media": {k: list(v) for k, v in pkg.media.items()},
            "linked": {k: [v[0], list(v[1]) if v[0] == "data" else v[1]] for k, v in pkg.linked.items()},
            "embedded_style_map": pkg.embedded_style_map, "meta": {k: v for k, v in pkg.meta.items() if k != "extra_entries"}}


def pkg_from_json(j):
    opt = lambda l: None if l is None else [xml_from_json(x) for x in l]
    p = Package()
    p.body = [xml_from_json(x) for x in j["body"]]
    p.styles, p.numbering = opt(j.get("styles")), opt(j.get("numbering"))
    p.rels = [tuple(r) for r in j.get("rels", [])]
    if j.get("content_types"):
        p.content_types = {"defaults": [tuple(x) for x in j["content_types"]["defaults"]],
                           "overrides": [tuple(x) for x in j["content_types"]["overrides"]]}
    p.footnotes, p.endnotes, p.comments = opt(j.get("footnotes")), opt(j.get("endnotes")), opt(j.get("comments"))
    p.media = {k: bytes(v) for k, v in j.get("media", {}).items()}
    p.linked = {k: (v[0], bytes(v[1]) if v[0] == "data" else v[1]) for k, v in j.get("linked", {}).items()}
    p.embedded_style_map = j.get("embedded_style_map")
    p.meta = dict(j.get("meta", {}))
    return p
